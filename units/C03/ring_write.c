/*@unit {
 'kind': 'proof', 'mode': 'legacy', 'timeout': 100,
 'functions': ['ring_write', 'ring_putc', 'ring_full', 'ring_move_head_one'],
 'params': {'PART': [1, 2, 3]},
 'clauses': 'for every RING(r), every buffer content, every source block of n bytes (n symbolic, loop closed by an injected invariant, ring_putc inlined as it is): returns min(n, room); head advances by that many single steps, tail and size unchanged, RING(r) preserved; buffer slot j holds source byte dist(old head, j) if that is below the result and its old value otherwise (PART 1: j arbitrary = exact frame, PART 2: j = slot(tail, k) = view\' is view followed by the accepted prefix of the source, every old element kept); reads only src[0..n), writes only inside the size-byte buffer',
 'inject': [{'file': 'igris/datastruct/ring.h', 'func': 'ring_write', 'loop': 0, 'expect': 'size--',
             'assigns': 'size, data, ret, r->head, __CPROVER_object_whole(buffer)',
             'invariants': ['0 <= ret && (unsigned int)ret <= g_n && size == g_n - (unsigned int)ret',
                            'g_len0 + (unsigned int)ret <= g_rsize - 1',
                            'data == g_data0 + ret',
                            'r->size == g_rsize && r->tail == g_tail0',
                            'r->head == SPEC_RING_SLOT(g_tail0, g_len0 + (unsigned int)ret, g_rsize)',
                            '(g_p >= g_len0 && g_p - g_len0 < (unsigned int)ret) ? buffer[g_j] == g_dv : buffer[g_j] == g_vj'],
             'decreases': 'size'}],
 'assumptions': ['RING(r)', 'buffer is an object of exactly r->size bytes, data an object of exactly n bytes',
                 'r->size <= 2^31 for ring_write/ring_read: the result type is int, so a count above INT_MAX cannot be reported (ret++ would overflow)'],
 'witness': {'unwind': 8},
} @*/
#include "c03_ring.h"
/* ghosts: entry values; everything is expressed in positions counted from the (fixed) tail:
   the head is at position len0 + ret; one arbitrary position g_p < size, its slot
   g_j = slot(tail, g_p), the old content g_vj of that slot and the source byte g_dv = src[g_p - len0]
   that belongs there once it is written */
uint g_n, g_tail0, g_rsize, g_len0, g_j, g_p;
const char *g_data0;
char g_vj, g_dv;
#include <igris/datastruct/ring.h>

void harness(void)
{
    WIT(uint, size);
    WIT(uint, head);
    WIT(uint, tail);
    WIT(uint, n);
    WIT(uint, k);              /* ghost position counted from the tail: every slot is slot(tail, k) for one k < size */
    WIT_ARR(char, content, 6);
    WIT_ARR(char, src, 6);
    __CPROVER_assume(size >= 2 && size <= VC_MAXOBJ && size <= 0x80000000u && head < size && tail < size);
    __CPROVER_assume(n <= VC_MAXOBJ);
    struct ring_head r;
    r.size = size; r.head = head; r.tail = tail;
    char *buf = NEW_OBJ(size);
    FILL(buf, (size_t)size, content);
    char *data = NEW_OBJ(n);
    FILL(data, (size_t)n, src);
    uint len = spec_ring_len(head, tail, size);
    uint room = size - 1 - len;
    __CPROVER_assume(k < size);
    uint j = spec_ring_slot(tail, k, size);
    g_n = n; g_tail0 = tail; g_rsize = size; g_len0 = len; g_data0 = data;
    g_p = k; g_j = j; g_vj = buf[j]; g_dv = (k >= len && k - len < n) ? data[k - len] : 0;
    WIT(uint, m);              /* ghost index into the source */
    char old_m = m < n ? data[m] : 0;

    int ret = ring_write(&r, buf, data, n);

    uint want = n < room ? n : room;
    P1(__CPROVER_assert(ret >= 0 && (uint)ret == want, "ring_write returns min(n, room)");)
    P1(__CPROVER_assert(r.size == size && r.tail == tail && C03_RING_INV(r), "ring_write preserves RING(r), size and tail");)
    P3(__CPROVER_assert(r.head == spec_ring_slot(head, want, size), "ring_write: head advanced by the number of bytes accepted");)
    P1(__CPROVER_assert(!(m < n) || data[m] == old_m, "ring_write does not modify the source");)
    P2(__CPROVER_assert(spec_ring_len(r.head, r.tail, r.size) == len + want, "ring_write: reference length grows by the result");)
    /* k is an arbitrary position counted from the tail, j = slot(tail, k) its slot: k < len are the
       old elements, len <= k < len + result the new ones, the rest is outside the new view */
    if (k < len) {
        P1(__CPROVER_assert(buf[spec_ring_slot(r.tail, k, size)] == g_vj, "ring_write: every old element keeps position and value");)
    } else if (k - len < want) {
        P1(__CPROVER_assert(buf[spec_ring_slot(r.tail, k, size)] == g_dv, "ring_write: element len+i of the new view is source byte i, i < result");)
    } else {
        P1(__CPROVER_assert(buf[j] == g_vj, "ring_write: no buffer byte outside the accepted block is changed");)
    }
    CANARY("ring_write end reachable");
}
