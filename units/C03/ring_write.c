/*@unit {
 'kind': 'proof', 'mode': 'legacy',
 'functions': ['ring_write', 'ring_putc', 'ring_full', 'ring_move_head_one'],
 'params': {'PART': [1, 2, 3]}, 'cbmc_flags': ['--sat-solver', 'cadical'],
 'clauses': 'for every RING(r), every buffer content, every source block of n bytes (n symbolic; the loop is closed by an injected invariant, ring_putc/ring_full/ring_move_head_one are the real inlined code): returns min(n, room); afterwards head is len + result single steps after tail (so the reference length grows by exactly the result), tail and size unchanged, RING(r) preserved; for an arbitrary position k counted from the tail: k < len => element k keeps slot and value, len <= k < len + result => element k is source byte k - len, every other slot of the buffer keeps its value (exact frame; nothing duplicated, nothing overwritten); the source is not modified; reads only src[0..n), writes only inside the size-byte buffer',
 'inject': [{'file': 'igris/datastruct/ring.h', 'func': 'ring_write', 'loop': 0, 'expect': 'size--',
             'assigns': 'size, data, ret, r->head, __CPROVER_object_whole(buffer), g_h, g_P, g_hits, g_hit_at, g_hitP',
             'invariants': ['0 <= ret && (unsigned int)ret <= g_n && size == g_n - (unsigned int)ret',
                            'g_P == g_len0 + (unsigned int)ret',
                            'g_P <= g_rsize - 1',
                            'data == g_data0 + ret',
                            'r->size == g_rsize && r->tail == g_tail0',
                            'r->head == SPEC_RING_SLOT(g_tail0, g_P, g_rsize)',
                            'g_hits == 0 ? (buffer[g_j] == g_vj && !(g_p >= g_len0 && g_p < g_P)) : (g_hit_at < (unsigned int)ret && buffer[g_j] == g_data0[g_hit_at] && g_hitP == g_len0 + g_hit_at && g_hitP < g_P && g_j == SPEC_RING_SLOT(g_tail0, g_hitP, g_rsize))'],
             'decreases': 'size'},
            {'file': 'igris/datastruct/ring.h', 'func': 'ring_write', 'ghost': 'g_h = r->head;', 'at': 'body-begin', 'loop': 0},
            {'file': 'igris/datastruct/ring.h', 'func': 'ring_write',
             'ghost': 'if (g_h == g_j) { g_hits = 1; g_hit_at = (unsigned int)ret; g_hitP = g_P; } g_P = g_P + 1;',
             'at': 'before', 'anchor': 'ret++;'}],
 'assumptions': ['RING(r)', 'buffer is an object of exactly r->size bytes, data an object of exactly n bytes',
                 'r->size <= 2^31 for ring_write/ring_read: the result type is int, so a count above INT_MAX cannot be reported (ret++ would overflow)',
                 'lemma cuts (C03_LEMMA): asserted, i.e. proved, in the same run before being assumed'],
 'witness': {'unwind': 8},
} @*/
#include "c03_ring.h"
/* Ghosts.  Everything is expressed in positions counted from the (fixed) tail: the head is at
   position g_P = len0 + ret (g_P is stepped by a ghost statement next to `ret++`).  One arbitrary
   position g_p < size with its slot g_j = slot(tail, g_p) and the old content g_vj of that slot is
   watched: the ghost statement records whether (g_hits), in which iteration (g_hit_at) and at
   which head position (g_hitP) the loop stored into that slot (g_h = head before the ring_putc). */
uint g_n, g_tail0, g_rsize, g_len0, g_j, g_p, g_h, g_P, g_hits, g_hit_at, g_hitP;
const char *g_data0;
char g_vj;
#include <igris/datastruct/ring.h>

void harness(void)
{
    WIT(uint, size);
    WIT(uint, head);
    WIT(uint, tail);
    WIT(uint, n);
    WIT(uint, k);              /* ghost position counted from the tail: every slot is slot(tail, k) for exactly one k < size */
    WIT(uint, m);              /* ghost index into the source */
    WIT_ARR(char, content, 6);
    WIT_ARR(char, src, 6);
    __CPROVER_assume(size >= 2 && size <= VC_MAXOBJ && size <= 0x80000000u && head < size && tail < size);
    __CPROVER_assume(n <= VC_MAXOBJ);
    __CPROVER_assume(k < size);
    struct ring_head r;
    r.size = size; r.head = head; r.tail = tail;
    char *buf = NEW_OBJ(size);
    FILL(buf, (size_t)size, content);
    char *data = NEW_OBJ(n);
    FILL(data, (size_t)n, src);
    uint len = spec_ring_len(head, tail, size);
    uint room = size - 1 - len;
    uint j = spec_ring_slot(tail, k, size);
    g_n = n; g_tail0 = tail; g_rsize = size; g_len0 = len; g_data0 = data;
    g_p = k; g_j = j; g_vj = buf[j]; g_P = len; g_hits = 0; g_hit_at = 0; g_hitP = 0; g_h = 0;
    char src_k = (k >= len && k - len < n) ? data[k - len] : 0;
    char old_m = m < n ? data[m] : 0;

    int ret = ring_write(&r, buf, data, n);

    uint want = n < room ? n : room;
    P1(__CPROVER_assert(ret >= 0 && (uint)ret == want, "ring_write returns min(n, room)");)
    P1(__CPROVER_assert(r.size == size && r.tail == tail && C03_RING_INV(r), "ring_write preserves RING(r), size and tail");)
    P1(__CPROVER_assert(!(m < n) || data[m] == old_m, "ring_write does not modify the source");)
    uint got = (uint)ret;      /* == want by the first clause */
    P1(__CPROVER_assert(len + got <= size - 1 && r.head == spec_ring_slot(tail, len + got, size), "ring_write: head is len + result single steps after tail");)
#if PART == 2 || PART == 0
    C03_LEMMA(len + got <= size - 1 && r.head == spec_ring_slot(tail, len + got, size), "head is len + result single steps after tail");
    __CPROVER_assert(spec_ring_len(r.head, r.tail, r.size) == len + got, "ring_write: reference length grows by the result");
#endif
#if PART == 3 || PART == 0
    C03_LEMMA(g_hits == 0 || g_hitP == k, "a slot is stored into only when the head position equals its position (slot is injective)");
    if (k < len) {
        __CPROVER_assert(buf[spec_ring_slot(r.tail, k, size)] == g_vj, "ring_write: every old element keeps position and value");
    } else if (k - len < got) {
        __CPROVER_assert(buf[spec_ring_slot(r.tail, k, size)] == src_k, "ring_write: element len+i of the new view is source byte i, i < result");
    } else {
        __CPROVER_assert(buf[j] == g_vj, "ring_write: no buffer byte outside the accepted block is changed");
    }
#endif
    CANARY("ring_write end reachable");
}
