/*@unit {
 'kind': 'proof', 'mode': 'plain',
 'functions': ['ring_empty', 'ring_full', 'ring_avail', 'ring_room'],
 'clauses': 'for every size >= 2 and every (head, tail) < size: avail == length of the reference queue (forward steps tail -> head), avail + room == size - 1, full <=> avail == size - 1 <=> room == 0, empty <=> avail == 0; the four observers change nothing',
 'assumptions': ['RING(r): 2 <= size, head < size, tail < size (established by ring_init, preserved by every operation: units ring_init, ring_move_one, ring_move_bulk, ring_putc, ring_getc, ring_write, ring_read)'],
 'witness': {'unwind': 4},
} @*/
#include "c03_ring.h"
#include <igris/datastruct/ring.h>

void harness(void)
{
    WIT(uint, size);
    WIT(uint, head);
    WIT(uint, tail);
    struct ring_head r;
    __CPROVER_assume(size >= 2 && head < size && tail < size);
    r.size = size; r.head = head; r.tail = tail;

    /* reference: number of forward steps from tail to head (unit spec_lemmas shows that this
       many single steps lead from tail to head and that it is < size) */
    uint len = spec_ring_len(head, tail, size);

    uint avail = ring_avail(&r);
    uint room = ring_room(&r);
    int empty = ring_empty(&r);
    int full = ring_full(&r);

    __CPROVER_assert(avail == len, "ring_avail equals the fill count of the reference queue");
    __CPROVER_assert(room == size - 1 - len, "ring_room equals the free count of the reference queue");
    __CPROVER_assert((ullong)avail + (ullong)room == (ullong)size - 1, "avail + room == capacity (size-1), no wrap-around");
    __CPROVER_assert((empty != 0) == (len == 0), "ring_empty <=> reference queue empty");
    __CPROVER_assert((full != 0) == (len == size - 1), "ring_full <=> reference queue holds size-1 elements");
    __CPROVER_assert((full != 0) == (room == 0), "ring_full <=> no room");
    __CPROVER_assert(empty == 0 || empty == 1, "ring_empty returns a truth value");
    __CPROVER_assert(full == 0 || full == 1, "ring_full returns a truth value");
    __CPROVER_assert(r.size == size && r.head == head && r.tail == tail, "observers do not change the ring");
    CANARY("ring_counts end reachable");
}
