/*@unit {
 'kind': 'proof', 'mode': 'legacy',
 'functions': ['igris::cyclic_buffer<T>::cyclic_buffer(size_t)', 'cyclic_buffer::push', 'cyclic_buffer::operator[]', 'cyclic_buffer::resize', 'cyclic_buffer::size'],
 'extract': 'units/C03/cxx_ring_extract.py',
 'inject': [
   {'file': 'overlay:cxx/ring_cxx.c', 'func': 'unbounded_array_ctor_sz', 'loop': 0, 'expect': 'i < sz',
    'assigns': 'i, __CPROVER_object_whole(self->m_data)',
    'invariants': ['i <= sz && self->m_size == sz && __CPROVER_OBJECT_SIZE(self->m_data) == sz && __CPROVER_POINTER_OFFSET(self->m_data) == 0'],
    'decreases': 'sz - i'},
   {'file': 'overlay:cxx/ring_cxx.c', 'func': 'unbounded_array_invalidate', 'loop': 0, 'expect': 'i < self->m_size',
    'assigns': 'i', 'invariants': ['i <= self->m_size'], 'decreases': 'self->m_size - i'},
   {'file': 'igris/datastruct/ring_counter.h', 'func': 'ring_counter_fixup', 'loop': 0, 'expect': 'rc->counter >= rc->size',
    'assigns': 'rc->counter', 'invariants': ['rc->size >= 1 && rc->counter >= 0 && rc->counter <= __CPROVER_loop_entry(rc->counter) && (__CPROVER_loop_entry(rc->counter) - rc->counter) % rc->size == 0 && (__CPROVER_loop_entry(rc->counter) < 2 * (long long)rc->size ==> __CPROVER_loop_entry(rc->counter) - rc->counter <= rc->size)'],
    'decreases': 'rc->counter'},
   {'file': 'igris/datastruct/ring_counter.h', 'func': 'ring_counter_prev', 'loop': 0, 'expect': 'c < 0',
    'assigns': 'c', 'invariants': ['rc->size >= 1 && c >= rc->counter - i && c < rc->size && (c == rc->counter - i || c == rc->counter - i + rc->size)'],
    'decreases': '-(long long)c'},
 ],
 'params': {'OP': [0, 1, 2]},
 'clauses': 'cyclic_buffer<char> (extracted): cyclic_buffer(size) [OP 0] and resize(size) [OP 2] give an array of exactly `size` slots and a counter over [0, size); '
            'push(v) [OP 1] from every counter position keeps the counter in [0, size); afterwards operator[](0) is v and operator[](i), 1 <= i < size, is what operator[](i-1) was before the push '
            '(the i-th previous sample, wrap-around included, for every size - not only powers of two), for the const and the non-const overload alike; a full buffer returns the sample it evicts; '
            'size() counts pushes up to the capacity',
 'witness': {'unwind': 8},
 'assumptions': ['T = char; 1 <= size <= 2^30 (ring_counter stores the size in an int)'],
} @*/
#include "c03_ring.h"
#include <string.h>
#include "cxx/ring_cxx.c"

void harness(void)
{
    struct cyclic_buffer cb;
    WIT(uint, size); WIT(int, counter); WIT(int, i); WIT(char, v); WIT(size_t, cnt);
    cyclic_buffer_defaults(&cb);
    __CPROVER_assume(size >= 1 && size <= (1u << 30) && size <= VC_MAXN);
#if OP == 0
    cyclic_buffer_ctor(&cb, size);
    __CPROVER_assert(cb.data.m_size == size && __CPROVER_OBJECT_SIZE(cb.data.m_data) == size && cb.counter.size == (int)size && cb.counter.counter == 0 && cb._size == 0,
                     "ctor: `size` slots, counter over [0,size) at 0, no samples");
#elif OP == 2
    cb.data.m_data = NEW_OBJ(3); cb.data.m_size = 3; cb.counter.size = 3; cb.counter.counter = 2;
    cyclic_buffer_resize(&cb, size);
    __CPROVER_assert(cb.data.m_size == size && __CPROVER_OBJECT_SIZE(cb.data.m_data) == size && cb.counter.size == (int)size && cb.counter.counter == 0,
                     "resize: `size` slots, counter over [0,size) at 0");
#else
    __CPROVER_assume(counter >= 0 && (uint)counter < size && cnt <= size);
    cb.data.m_data = NEW_OBJ(size); cb.data.m_size = size; cb.counter.size = (int)size; cb.counter.counter = counter; cb._size = cnt;
    /* stated over the VIEW (the i-th previous sample as the accessors report it), not over the slot numbering: which slot the counter
       names is an implementation choice */
    __CPROVER_assume(i >= 0 && (uint)i < size);
    char old_prev = i >= 1 ? cyclic_buffer_at(&cb, i - 1) : 0;      /* pre-state: the sample that will be i steps back after the push */
    char old_last = cyclic_buffer_at(&cb, (int)size - 1);            /* pre-state: the oldest sample of a full buffer */
    __CPROVER_assert(cyclic_buffer_at_c(&cb, i) == cyclic_buffer_at(&cb, i), "the const and the non-const operator[] address the same sample");
    char r = cyclic_buffer_push(&cb, v);
    __CPROVER_assert(cb.counter.counter >= 0 && cb.counter.counter < (int)size && cb.counter.size == (int)size && cb.data.m_size == size, "push: counter stays in [0,size), sizes kept");
    __CPROVER_assert(cb._size == (cnt < size ? cnt + 1 : size), "size() counts pushes up to the capacity");
    __CPROVER_assert(cyclic_buffer_at(&cb, 0) == v && cyclic_buffer_at_c(&cb, 0) == v, "operator[](0) is the sample just pushed (both overloads)");
    if (i >= 1) __CPROVER_assert(cyclic_buffer_at(&cb, i) == old_prev && cyclic_buffer_at_c(&cb, i) == old_prev, "operator[](i) is the i-th previous sample: what operator[](i-1) was before the push (both overloads, wrap-around included)");
    if (cnt == size) __CPROVER_assert(r == old_last, "push on a full buffer returns the sample it evicts (the oldest)");
#endif
    CANARY("cyclic_buffer end reachable");
}
