/*@unit {
 'kind': 'proof', 'mode': 'legacy',
 'functions': ['ring_fixup_head', 'ring_fixup_tail'],
 'clauses': 'for every size >= 2 and EVERY 32-bit value of the index (not only valid ones): the loop terminates, the index ends in [0,size), never grows, an index already in range is left alone, an index in [size, 2*size) (all that ring_move_head/tail with bias <= size can produce) is reduced by exactly size; the other index and size are not written',
 'inject': [{'file': 'igris/datastruct/ring.h', 'func': 'ring_fixup_head', 'loop': 0, 'expect': 'r->head',
             'assigns': 'r->head',
             'invariants': ['r->head <= __CPROVER_loop_entry(r->head)',
                            '__CPROVER_loop_entry(r->head) < r->size ==> r->head == __CPROVER_loop_entry(r->head)',
                            '(__CPROVER_loop_entry(r->head) >= r->size && __CPROVER_loop_entry(r->head) - r->size < r->size) ==> (r->head == __CPROVER_loop_entry(r->head) || r->head == __CPROVER_loop_entry(r->head) - r->size)'],
             'decreases': 'r->head'},
            {'file': 'igris/datastruct/ring.h', 'func': 'ring_fixup_tail', 'loop': 0, 'expect': 'r->tail',
             'assigns': 'r->tail',
             'invariants': ['r->tail <= __CPROVER_loop_entry(r->tail)',
                            '__CPROVER_loop_entry(r->tail) < r->size ==> r->tail == __CPROVER_loop_entry(r->tail)',
                            '(__CPROVER_loop_entry(r->tail) >= r->size && __CPROVER_loop_entry(r->tail) - r->size < r->size) ==> (r->tail == __CPROVER_loop_entry(r->tail) || r->tail == __CPROVER_loop_entry(r->tail) - r->size)'],
             'decreases': 'r->tail'}],
 'assumptions': ['size >= 2 (size 0 would make the fix-up loops spin forever)'],
 'witness': {'unwind': 8},
} @*/
#include "c03_ring.h"
#include <igris/datastruct/ring.h>

void harness(void)
{
    WIT(uint, size);
    WIT(uint, head);
    WIT(uint, tail);
    WIT(_Bool, which);
    __CPROVER_assume(size >= 2);
#ifdef WITNESS_MODE
    __CPROVER_assume(size >= 0x40000000u); /* keeps the number of iterations small in the concretisation run */
#endif
    struct ring_head r;
    r.size = size; r.head = head; r.tail = tail;
    if (which) {
        ring_fixup_head(&r);
        __CPROVER_assert(r.tail == tail && r.size == size, "fixup_head writes only head");
        __CPROVER_assert(r.head < size, "fixup_head: head ends in [0,size)");
        __CPROVER_assert(head >= size || r.head == head, "fixup_head leaves a valid head alone");
        __CPROVER_assert(!(head >= size && (ullong)head < 2 * (ullong)size) || r.head == head - size, "fixup_head: head in [size,2*size) is reduced by size");
    } else {
        ring_fixup_tail(&r);
        __CPROVER_assert(r.head == head && r.size == size, "fixup_tail writes only tail");
        __CPROVER_assert(r.tail < size, "fixup_tail: tail ends in [0,size)");
        __CPROVER_assert(tail >= size || r.tail == tail, "fixup_tail leaves a valid tail alone");
        __CPROVER_assert(!(tail >= size && (ullong)tail < 2 * (ullong)size) || r.tail == tail - size, "fixup_tail: tail in [size,2*size) is reduced by size");
    }
    CANARY("ring_fixup end reachable");
}
