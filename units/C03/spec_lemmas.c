/*@unit {
 'kind': 'proof', 'mode': 'plain',
 'functions': [],
 'clauses': 'sanity of the reference (spec/c03_ring.h), for every size >= 2: slot(b,0) == b; slot(b,k+1) is one single step after slot(b,k) (so slot(b,k) is the k-fold single step, by induction on k); slot stays in [0,size); len(head,tail) < size and len single steps lead from tail to head; dist is the inverse of slot (the k < size slots of a view are pairwise distinct); mod_near(i,size) is the unique r in [0,size) with i - r in {-size, 0, size}',
 'params': {'PART': [1, 2, 3, 4, 5]},
 'witness': {'unwind': 4},
} @*/
#include "c03_ring.h"
/* P1..P5: clause partitioning over solver runs, see c03_ring.h */

void harness(void)
{
    WIT(uint, size);
    WIT(uint, base);
    WIT(uint, other);
    WIT(uint, k);
    WIT(int, i);
    __CPROVER_assume(size >= 2 && base < size && other < size && k < size);

    P1(__CPROVER_assert(spec_ring_slot(base, 0, size) == base, "slot(b,0) == b");)
    P1(__CPROVER_assert(spec_ring_slot(base, k, size) < size, "slot stays in [0,size)");)
    P2(__CPROVER_assert(spec_ring_slot(base, k + 1, size) == spec_ring_step(spec_ring_slot(base, k, size), size),
                     "slot(b,k+1) == step(slot(b,k)) for k < size");)
    P1(__CPROVER_assert(spec_ring_slot(base, size, size) == base, "size steps lead back to the start");)
    P1(__CPROVER_assert(spec_ring_step(base, size) < size, "a single step stays in [0,size)");)

    uint len = spec_ring_len(base, other, size); /* head = base, tail = other */
    P1(__CPROVER_assert(len <= size - 1, "reference length never exceeds capacity size-1");)
    P3(__CPROVER_assert(spec_ring_slot(other, len, size) == base, "len forward steps from tail reach head");)
    P1(__CPROVER_assert((len == 0) == (base == other), "length 0 <=> head == tail");)

    P4(__CPROVER_assert(spec_ring_dist(base, spec_ring_slot(base, k, size), size) == k, "dist(b, slot(b,k)) == k: slots of a view are distinct");)
    P5(__CPROVER_assert(spec_ring_slot(base, spec_ring_dist(base, other, size), size) == other, "slot(b, dist(b,j)) == j: every slot is some view position");)
    P1(__CPROVER_assert(spec_ring_dist(base, other, size) < size, "dist < size");)

    if ((llong)i >= -(llong)size && (llong)i < 2 * (llong)size) {
        llong m = spec_mod_near(i, size);
        P1(__CPROVER_assert(m >= 0 && m < (llong)size, "mod_near in [0,size)");)
        P1(__CPROVER_assert(m == (llong)i || m == (llong)i + size || m == (llong)i - size, "mod_near differs from i by a multiple of size");)
    }
    CANARY("spec_lemmas end reachable");
}
