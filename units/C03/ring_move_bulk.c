/*@unit {
 'kind': 'proof', 'mode': 'legacy',
 'functions': ['ring_move_head', 'ring_move_tail', 'ring_fixup_head', 'ring_fixup_tail', 'ring_move_head_one', 'ring_move_tail_one'],
 'params': {'PART': [1, 2]},
 'kf': ['C03_move_overflow'],
 'loop_contracts_in_unit': 1,
 'clauses': 'for every RING(r) and every bias <= size: ring_move_head(r, bias) leaves the ring in exactly the state that `bias` calls of the real ring_move_head_one produce (co-simulated by a loop with an inductive invariant), likewise ring_move_tail / ring_move_tail_one; head (tail) == slot(old, bias), the other index and size unchanged, RING(r) preserved, r returned [known finding C03_move_overflow carved out: head + bias >= 2^32, possible only when size > 2^31]',
 'inject': [{'file': 'igris/datastruct/ring.h', 'func': 'ring_fixup_head', 'loop': 0, 'expect': 'r->head',
             'assigns': 'r->head',
             'invariants': ['r->head <= __CPROVER_loop_entry(r->head)',
                            '__CPROVER_loop_entry(r->head) < r->size ==> r->head == __CPROVER_loop_entry(r->head)',
                            '(__CPROVER_loop_entry(r->head) >= r->size && __CPROVER_loop_entry(r->head) - r->size < r->size) ==> (r->head == __CPROVER_loop_entry(r->head) || r->head == __CPROVER_loop_entry(r->head) - r->size)'],
             'decreases': 'r->head'},
            {'file': 'igris/datastruct/ring.h', 'func': 'ring_fixup_tail', 'loop': 0, 'expect': 'r->tail',
             'assigns': 'r->tail',
             'invariants': ['r->tail <= __CPROVER_loop_entry(r->tail)',
                            '__CPROVER_loop_entry(r->tail) < r->size ==> r->tail == __CPROVER_loop_entry(r->tail)',
                            '(__CPROVER_loop_entry(r->tail) >= r->size && __CPROVER_loop_entry(r->tail) - r->size < r->size) ==> (r->tail == __CPROVER_loop_entry(r->tail) || r->tail == __CPROVER_loop_entry(r->tail) - r->size)'],
             'decreases': 'r->tail'}],
 'assumptions': ['RING(r)', 'bias <= size for ring_move_head/ring_move_tail (a bulk move never exceeds the number of slots; the only caller in the repository, tests/ring.cpp, moves by 4 in a ring of 10)'],
 'witness': {'unwind': 8},
} @*/
#include "c03_ring.h"
#include <igris/datastruct/ring.h>

void harness(void)
{
    WIT(uint, size);
    WIT(uint, head);
    WIT(uint, tail);
    WIT(uint, bias);
    __CPROVER_assume(size >= 2 && head < size && tail < size && bias <= size); /* no buffer here: every 32-bit size */
    struct ring_head r, g;
    r.size = size; r.head = head; r.tail = tail;
    g = r;
    uint i;
#if PART == 1 || PART == 0
    /* known finding C03_move_overflow: region = head + bias does not fit 32 bits */
#define C03_REGION_H ((ullong)head + (ullong)bias > 0xFFFFFFFFull)
    __CPROVER_assume(KF_C03_move_overflow == 0 ? 1 : KF_C03_move_overflow == 1 ? !C03_REGION_H : C03_REGION_H);
    struct ring_head *ret = ring_move_head(&r, bias);
    /* reference: `bias` single steps with the real ring_move_head_one */
#ifdef WITNESS_MODE /* concretisation / native replay: bias may be 2^31, the reference is evaluated in closed form */
    g.head = spec_ring_slot(head, bias, size);
    for (i = bias; i < bias; i++)
#else
    for (i = 0; i < bias; i++)
#endif
        __CPROVER_assigns(i, g.head)
        __CPROVER_loop_invariant(i <= bias && g.size == size && g.tail == tail && g.head == SPEC_RING_SLOT(head, i, size))
        __CPROVER_decreases(bias - i)
    {
        ring_move_head_one(&g);
    }
    __CPROVER_assert(ret == &r, "move_head returns r");
    __CPROVER_assert(r.head == g.head && r.tail == g.tail && r.size == g.size, "move_head(bias) == bias times move_head_one");
    __CPROVER_assert(r.head == spec_ring_slot(head, bias, size) && r.tail == tail && r.size == size, "move_head(bias): head == slot(old head, bias), tail and size unchanged");
    __CPROVER_assert(C03_RING_INV(r), "move_head preserves RING(r)");
#endif
#if PART == 2
#define C03_REGION_T ((ullong)tail + (ullong)bias > 0xFFFFFFFFull)
    __CPROVER_assume(KF_C03_move_overflow == 0 ? 1 : KF_C03_move_overflow == 1 ? !C03_REGION_T : C03_REGION_T);
    struct ring_head *ret = ring_move_tail(&r, bias);
#ifdef WITNESS_MODE
    g.tail = spec_ring_slot(tail, bias, size);
    for (i = bias; i < bias; i++)
#else
    for (i = 0; i < bias; i++)
#endif
        __CPROVER_assigns(i, g.tail)
        __CPROVER_loop_invariant(i <= bias && g.size == size && g.head == head && g.tail == SPEC_RING_SLOT(tail, i, size))
        __CPROVER_decreases(bias - i)
    {
        ring_move_tail_one(&g);
    }
    __CPROVER_assert(ret == &r, "move_tail returns r");
    __CPROVER_assert(r.head == g.head && r.tail == g.tail && r.size == g.size, "move_tail(bias) == bias times move_tail_one");
    __CPROVER_assert(r.tail == spec_ring_slot(tail, bias, size) && r.head == head && r.size == size, "move_tail(bias): tail == slot(old tail, bias), head and size unchanged");
    __CPROVER_assert(C03_RING_INV(r), "move_tail preserves RING(r)");
#endif
    CANARY("ring_move_bulk end reachable");
}
