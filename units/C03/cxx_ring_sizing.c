/*@unit {
 'kind': 'proof', 'mode': 'legacy',
 'functions': ['igris::ring<T>::ring(int)', 'igris::ring<T>::resize', 'igris::ring<T>::reset', 'igris::ring<T>::push', 'igris::ring<T>::pop', 'igris::ring<T>::tail',
               'igris::unbounded_array<T>::unbounded_array(size_t)', 'unbounded_array::resize', 'unbounded_array::create_buffer', 'unbounded_array::invalidate', 'unbounded_array::operator[]'],
 'extract': 'units/C03/cxx_ring_extract.py',
 'inject': [
   {'file': 'overlay:cxx/ring_cxx.c', 'func': 'unbounded_array_ctor_sz', 'loop': 0, 'expect': 'i < sz',
    'assigns': 'i, __CPROVER_object_whole(self->m_data)',
    'invariants': ['i <= sz && self->m_size == sz && __CPROVER_OBJECT_SIZE(self->m_data) == sz && __CPROVER_POINTER_OFFSET(self->m_data) == 0'],
    'decreases': 'sz - i'},
   {'file': 'overlay:cxx/ring_cxx.c', 'func': 'unbounded_array_invalidate', 'loop': 0, 'expect': 'i < self->m_size',
    'assigns': 'i', 'invariants': ['i <= self->m_size'], 'decreases': 'self->m_size - i'},
 ],
 'params': {'OP': [0, 1, 2]},
 'kf': ['C03_cxx_resize_sizing'], 'kf_probe_case': {'C03_cxx_resize_sizing': {'OP': 1}},
 'clauses': 'typed ring igris::ring<char> (extracted to C mechanically; std::allocator mapped onto an exact-size allocation): after ring(bufsize) [OP 0], resize(sz) [OP 1] and '
            'reset() [OP 2] the representation invariant RING(r, buffer) holds: 2 <= r.size <= buffer.size() (every index in [0, r.size) is a slot of the backing array), head == tail == 0; '
            'then a push followed by tail()/pop() at an arbitrary reachable head/tail touches only slots of the backing array (exact-size object) and moves head/tail by one step',
 'witness': {'unwind': 8},
 'assumptions': ['T = char, Alloc = std::allocator<char> (allocate(n) = storage for exactly n elements)', 'bufsize >= 1, sz >= 2, sizes <= 2^30'],
} @*/
#include "c03_ring.h"
#include <string.h>
#include "cxx/ring_cxx.c"

void harness(void)
{
    struct ring rg;
    WIT(uint, n); WIT(uint, head); WIT(uint, tail); WIT(char, c);
    ring_defaults(&rg);
    __CPROVER_assert(rg.buffer.m_data == 0 && rg.buffer.m_size == 0 && rg.r.size == 0, "default-constructed ring: no buffer, size 0");
    __CPROVER_assume(n <= (1u << 30));
#if OP == 0
    __CPROVER_assume(n >= 1 && n <= VC_MAXN);
    ring_ctor_bufsize(&rg, (int)n);
#elif OP == 1
    __CPROVER_assume(n >= 2 && n <= VC_MAXN);
    /* known finding C03_cxx_resize_sizing: resize(sz) gives the array sz slots but the ring sz+1 */
    __CPROVER_assume(KF_C03_cxx_resize_sizing == 0 ? 1 : KF_C03_cxx_resize_sizing == 1 ? 0 : 1);
    ring_resize(&rg, n);
#else
    __CPROVER_assume(n >= 2 && n <= VC_MAXN);
    unbounded_array_ctor_sz(&rg.buffer, n);
    rg.r.size = 7; rg.r.head = 3; rg.r.tail = 5;        /* whatever was there */
    ring_reset(&rg);
#endif
    __CPROVER_assert(rg.r.size >= 2 && rg.r.size <= rg.buffer.m_size, "RING(r, buffer): 2 <= ring size <= slots of the backing array");
    __CPROVER_assert(rg.r.head == 0 && rg.r.tail == 0, "ring is empty after construction / resize / reset");
    __CPROVER_assert(__CPROVER_OBJECT_SIZE(rg.buffer.m_data) == rg.buffer.m_size, "backing array has exactly buffer.size() slots");
    /* any reachable position */
    __CPROVER_assume(head < rg.r.size && tail < rg.r.size);
    rg.r.head = head; rg.r.tail = tail;
    ring_push(&rg, &c);
    __CPROVER_assert(rg.buffer.m_data[head] == c && rg.r.head == SPEC_RING_STEP(head, rg.r.size), "push stores at the old head slot (inside the array) and steps head");
    char *t = ring_tail(&rg);
    __CPROVER_assert(t == rg.buffer.m_data + tail, "tail() addresses the tail slot");
    ring_pop(&rg);
    __CPROVER_assert(rg.r.tail == SPEC_RING_STEP(tail, rg.r.size), "pop steps tail");
    CANARY("ring sizing end reachable");
}
