/*@unit {
 'kind': 'proof', 'mode': 'legacy',
 'functions': ['ring_read', 'ring_getc', 'ring_empty', 'ring_move_tail_one'],
 'params': {'PART': [1, 2]}, 'cbmc_flags': ['--sat-solver', 'cadical'],
 'kf': ['C03_getc_ff'], 'kf_probe_case': {'C03_getc_ff': {'PART': 1}},
 'clauses': 'for every RING(r), every buffer content, every destination block of n bytes (n symbolic; the loop is closed by an injected invariant, ring_getc/ring_empty/ring_move_tail_one are the real inlined code): returns min(n, avail); tail is advanced by exactly the result (tail\' == slot(tail, result)), head, size and every buffer byte unchanged, RING(r) preserved; output byte k < result is element k of the old view (FIFO order, byte-exact, for all values), output bytes >= result are untouched; writes only dst[0..n) [known finding C03_getc_ff carved out: histories in which a byte 0xFF is read]',
 'inject': [{'file': 'igris/datastruct/ring.h', 'func': 'ring_read', 'loop': 0, 'expect': 'size--',
             'assigns': 'size, data, ret, c, r->tail, __CPROVER_object_whole(data)',
             'invariants': ['0 <= ret && (unsigned int)ret <= g_n && size == g_n - (unsigned int)ret',
                            '(unsigned int)ret <= g_len0',
                            'data == g_data0 + ret',
                            'r->size == g_rsize && r->head == g_head0',
                            'r->tail == SPEC_RING_SLOT(g_tail0, (unsigned int)ret, g_rsize)',
                            'g_k < g_n ==> g_data0[g_k] == (g_k < (unsigned int)ret ? g_vk : g_ok)'],
             'decreases': 'size'},
            {'file': 'igris/datastruct/ring.h', 'func': 'ring_read', 'at': 'body-begin', 'loop': 0,
             'ghost': '__CPROVER_assume(KF_C03_getc_ff != 1 || r->head == r->tail || (unsigned char)buffer[r->tail] != 0xFF);'}],
 'assumptions': ['RING(r)', 'buffer is an object of exactly r->size bytes, data an object of exactly n bytes',
                 'r->size <= 2^31 for ring_write/ring_read: the result type is int, so a count above INT_MAX cannot be reported (ret++ would overflow)',
                 'lemma cuts (C03_LEMMA): asserted, i.e. proved, in the same run before being assumed',
                 'known finding C03_getc_ff (open): the run that must verify completely excludes, by an injected assume at the head of the loop body, iterations that read a byte 0xFF from a non-empty ring'],
 'witness': {'unwind': 8},
} @*/
#include "c03_ring.h"
/* ghosts: entry values; one arbitrary output index g_k with the view element g_vk that belongs
   there (buffer[slot(tail, g_k)], the buffer is never written) and its old content g_ok */
uint g_n, g_head0, g_tail0, g_rsize, g_len0, g_k;
char *g_data0;
char g_vk, g_ok;
#include <igris/datastruct/ring.h>

void harness(void)
{
    WIT(uint, size);
    WIT(uint, head);
    WIT(uint, tail);
    WIT(uint, n);
    WIT(uint, k);              /* ghost index into the output / the view */
    WIT(uint, j);              /* ghost index into the buffer */
    WIT_ARR(char, content, 6);
    WIT_ARR(char, dst, 6);
    __CPROVER_assume(size >= 2 && size <= VC_MAXOBJ && size <= 0x80000000u && head < size && tail < size);
    __CPROVER_assume(n <= VC_MAXOBJ);
    __CPROVER_assume(j < size);
    struct ring_head r;
    r.size = size; r.head = head; r.tail = tail;
    char *buf = NEW_OBJ(size);
    FILL(buf, (size_t)size, content);
    char *data = NEW_OBJ(n);
    FILL(data, (size_t)n, dst);
    uint len = spec_ring_len(head, tail, size);
    /* probe of the known finding: the first byte read is 0xFF */
    __CPROVER_assume(KF_C03_getc_ff != 2 || (len >= 1 && n >= 1 && (uchar)buf[tail] == 0xFF));
    g_n = n; g_head0 = head; g_tail0 = tail; g_rsize = size; g_len0 = len; g_data0 = data;
    g_k = k; g_vk = k < size ? buf[spec_ring_slot(tail, k, size)] : 0; g_ok = k < n ? data[k] : 0;
    char old_j = buf[j];

    int ret = ring_read(&r, buf, data, n);

    uint want = n < len ? n : len;
    uint got = (uint)ret;      /* == want by the first clause */
    P1(__CPROVER_assert(ret >= 0 && (uint)ret == want, "ring_read returns min(n, avail): nothing is lost");)
    P1(__CPROVER_assert(r.size == size && r.head == head && C03_RING_INV(r), "ring_read preserves RING(r), size and head");)
    P1(__CPROVER_assert(got <= len && r.tail == spec_ring_slot(tail, got, size), "ring_read: tail advanced by exactly the result");)
    P1(__CPROVER_assert(buf[j] == old_j, "ring_read writes no buffer byte");)
    if (k < n) {
        if (k < got) {
            P2(__CPROVER_assert(data[k] == g_vk, "ring_read: output byte k is element k of the old view");)
        } else {
            P2(__CPROVER_assert(data[k] == g_ok, "ring_read: output bytes beyond the result are untouched");)
        }
    }
    CANARY("ring_read end reachable");
}
