/*@unit {
 'kind': 'proof', 'mode': 'plain', 'timeout': 100,
 'functions': [],
 'cbmc_flags': ['--sat-solver', 'cadical'],
 'clauses': 'reference lemma, every size >= 2, every tail, every length len <= size - 1 and every got <= len: if head is len steps after tail and the tail is advanced by got steps (what ring_read / ring_getc / ring_move_tail do), the reference length becomes len - got and element k of the new view is element k + got of the old one (same slot). Proved from slot additivity and dist = inverse of slot, both re-proved here as lemma cuts',
 'assumptions': ['lemma cuts (C03_LEMMA): asserted, i.e. proved, in the same run before being assumed'],
 'witness': {'unwind': 4},
} @*/
#include "c03_ring.h"

void harness(void)
{
    WIT(uint, size);
    WIT(uint, tail);
    WIT(uint, len);
    WIT(uint, got);
    WIT(uint, k);
    __CPROVER_assume(size >= 2 && tail < size && len <= size - 1 && got <= len);
    uint head = spec_ring_slot(tail, len, size);
    uint tail2 = spec_ring_slot(tail, got, size);
    uint rest = len - got;
    C03_LEMMA(spec_ring_slot(tail2, rest, size) == spec_ring_slot(tail, got + rest, size), "slot additive (got, len - got)");
    C03_LEMMA(tail2 < size && spec_ring_dist(tail2, spec_ring_slot(tail2, rest, size), size) == rest, "dist inverse of slot");
    __CPROVER_assert(head < size && spec_ring_len(head, tail2, size) == len - got, "advancing the tail by got steps shortens the reference queue by got");
    if (k < rest) {
        __CPROVER_assert(spec_ring_slot(tail2, k, size) == spec_ring_slot(tail, got + k, size), "element k of the new view is element k + got of the old one");
    }
    CANARY("spec_view_drop end reachable");
}
