/*@unit {
 'kind': 'bounded', 'mode': 'legacy',
 'bound': 'bounded in size only: size in {1, 2, 3, 5, 7, 8, 10, 16, 100, 255, 1000} (thorough: + 4096, 65537, 1000003, 2147483647), includes sizes that are not powers of two; unbounded in the argument (all int values admitted by the precondition, loops closed by invariants). Reason: the general congruence needs `% size` inside an inductive step, which no back end (sat, kissat, cvc5, z3) finishes for a symbolic 32-bit size (probed, > 100 s each); the symbolic-size units rc_counter / rc_relative prove range, termination and the exact result for arguments within one size of the range',
 'functions': ['ring_counter_fixup', 'ring_counter_set', 'ring_counter_fixup_pos', 'ring_counter_prev', 'ring_counter_last'],
 'params': {'SIZE': [1, 2, 3, 5, 7, 8, 10, 16, 100, 255, 1000]},
 'params_thorough': {'SIZE': [1, 2, 3, 5, 7, 8, 10, 16, 100, 255, 1000, 4096, 65537, 1000003, 2147483647]},
 'clauses': 'for the listed sizes and EVERY argument: set(val), val >= 0, leaves counter == val mod size; fixup_pos(pos) == pos mod size for every int pos (floored, negative pos included); prev(i) == (counter - i) mod size for every i >= 0; last(no) == (counter - no) mod size',
 'inject': [{'file': 'igris/datastruct/ring_counter.h', 'func': 'ring_counter_fixup', 'loop': 0, 'expect': 'rc->counter >= rc->size',
             'assigns': 'rc->counter',
             'invariants': ['rc->counter <= g_c0 && (g_c0 >= 0 ==> rc->counter >= 0)',
                            '((long long)g_c0 - rc->counter) % rc->size == 0'],
             'decreases': 'rc->counter'},
            {'file': 'igris/datastruct/ring_counter.h', 'func': 'ring_counter_fixup', 'ghost': 'g_c0 = rc->counter;', 'at': 'func-begin'},
            {'file': 'igris/datastruct/ring_counter.h', 'func': 'ring_counter_fixup_pos', 'loop': 0, 'expect': 'pos >= rc->size',
             'assigns': 'pos',
             'invariants': ['pos <= g_p0 && (g_p0 >= 0 ==> pos >= 0)',
                            '((long long)g_p0 - pos) % rc->size == 0'],
             'decreases': 'pos'},
            {'file': 'igris/datastruct/ring_counter.h', 'func': 'ring_counter_fixup_pos', 'loop': 1, 'expect': 'pos < 0',
             'assigns': 'pos',
             'invariants': ['pos < rc->size && pos >= g_p1',
                            'g_p1 >= 0 ==> pos == g_p1',
                            '((long long)pos - g_p1) % rc->size == 0'],
             'decreases': '-(long long)pos'},
            {'file': 'igris/datastruct/ring_counter.h', 'func': 'ring_counter_fixup_pos', 'ghost': 'g_p0 = pos;', 'at': 'func-begin'},
            {'file': 'igris/datastruct/ring_counter.h', 'func': 'ring_counter_fixup_pos', 'ghost': 'g_p1 = pos;', 'at': 'before', 'anchor': 'while (pos < 0)'},
            {'file': 'igris/datastruct/ring_counter.h', 'func': 'ring_counter_prev', 'loop': 0, 'expect': 'c < 0',
             'assigns': 'c',
             'invariants': ['c < rc->size && c >= g_c1',
                            'g_c1 >= 0 ==> c == g_c1',
                            '((long long)c - g_c1) % rc->size == 0'],
             'decreases': '-(long long)c'},
            {'file': 'igris/datastruct/ring_counter.h', 'func': 'ring_counter_prev', 'ghost': 'g_c1 = c;', 'at': 'before', 'anchor': 'while (c < 0)'}],
 'assumptions': ['RC(rc)', 'ring_counter_set: val >= 0; ring_counter_prev: i >= 0; ring_counter_last: counter - no representable as int'],
 'witness': {'unwind': 8},
} @*/
#include "c03_ring.h"
#include <limits.h>
int g_c0, g_p0, g_p1, g_c1;
#include <igris/datastruct/ring_counter.h>

void harness(void)
{
    WIT(int, counter);
    WIT(int, arg);
    WIT(uchar, which);
    __CPROVER_assume(counter >= 0 && counter < SIZE);
#ifdef WITNESS_MODE
    __CPROVER_assume((llong)arg <= 6 * (llong)SIZE && (llong)arg >= -6 * (llong)SIZE);
#endif
    struct ring_counter rc;
    rc.size = SIZE; rc.counter = counter;
    int ret;
    if (which == 0) {
        __CPROVER_assume(arg >= 0);
        ring_counter_set(&rc, arg);
        __CPROVER_assert(rc.size == SIZE && (llong)rc.counter == spec_mod_floor(arg, SIZE), "set(val): counter == val mod size");
    } else if (which == 1) {
        ret = ring_counter_fixup_pos(&rc, arg);
        __CPROVER_assert((llong)ret == spec_mod_floor(arg, SIZE), "fixup_pos(pos) == pos mod size (floored) for every int pos");
    } else if (which == 2) {
        __CPROVER_assume(arg >= 0);
        ret = ring_counter_prev(&rc, arg);
        __CPROVER_assert((llong)ret == spec_mod_floor((llong)counter - arg, SIZE), "prev(i) == (counter - i) mod size for every i >= 0");
    } else {
        __CPROVER_assume((llong)counter - (llong)arg <= INT_MAX && (llong)counter - (llong)arg >= INT_MIN);
        ret = ring_counter_last(&rc, arg);
        __CPROVER_assert((llong)ret == spec_mod_floor((llong)counter - arg, SIZE), "last(no) == (counter - no) mod size");
    }
    CANARY("rc_mod_sizes end reachable");
}
