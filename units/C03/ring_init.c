/*@unit {
 'kind': 'proof', 'mode': 'plain',
 'functions': ['ring_init', 'ring_clean', 'RING_HEAD_INIT'],
 'clauses': 'ring_init(r, n) with n >= 2 and RING_HEAD_INIT(n) establish RING(r) with an empty reference queue (avail 0, room n-1, empty, not full) and return r; ring_clean empties any ring, keeps size, re-establishes RING(r); neither touches the data buffer (they do not receive it)',
 'assumptions': ['ring_init is called with r_size >= 2 (a ring of size 1 has capacity 0 and ring_full() is then true and ring_empty() too; size 0 makes ring_fixup_* loop forever): igris::ring passes bufsize + 1'],
 'witness': {'unwind': 4},
} @*/
#include "c03_ring.h"
#include <igris/datastruct/ring.h>

void harness(void)
{
    WIT(uint, size);
    WIT(uint, head);
    WIT(uint, tail);
    WIT(uint, junk_size);
    struct ring_head r;
    __CPROVER_assume(size >= 2);
    /* ring_init on arbitrary garbage */
    r.size = junk_size; r.head = head; r.tail = tail;
    struct ring_head *ret = ring_init(&r, size);
    __CPROVER_assert(ret == &r, "ring_init returns its argument");
    __CPROVER_assert(r.size == size && C03_RING_INV(r), "ring_init establishes RING(r) with the requested size");
    __CPROVER_assert(spec_ring_len(r.head, r.tail, r.size) == 0, "ring_init: reference queue empty");
    __CPROVER_assert(ring_empty(&r) && !ring_full(&r) && ring_avail(&r) == 0 && ring_room(&r) == size - 1,
                     "ring_init: empty, not full, avail 0, room size-1");

    struct ring_head s = RING_HEAD_INIT(size);
    __CPROVER_assert(s.size == size && s.head == 0 && s.tail == 0 && C03_RING_INV(s), "RING_HEAD_INIT: same state as ring_init");

    /* ring_clean on any valid ring */
    struct ring_head c;
    __CPROVER_assume(head < size && tail < size);
    c.size = size; c.head = head; c.tail = tail;
    ring_clean(&c);
    __CPROVER_assert(c.size == size && C03_RING_INV(c), "ring_clean keeps size and RING(r)");
    __CPROVER_assert(spec_ring_len(c.head, c.tail, c.size) == 0 && ring_empty(&c) && ring_avail(&c) == 0 && ring_room(&c) == size - 1,
                     "ring_clean: reference queue empty");
    CANARY("ring_init end reachable");
}
