/*@unit {
 'kind': 'proof', 'mode': 'plain',
 'functions': ['ring_putc'],
 'params': {'PART': [1, 2, 3]},
 'clauses': 'for every RING(r), every buffer content and every char c: full ring => returns 0 and neither the ring nor any buffer byte changes; otherwise returns 1, view\' = view . c (length + 1, every old element k keeps its value, the new last element is c), only buf[old head] and head are written (every other slot j, tail and size unchanged), RING(r) preserved; all accesses inside the exact-size buffer of `size` bytes',
 'assumptions': ['RING(r)', 'buffer is an object of exactly r->size bytes'],
 'witness': {'unwind': 8},
} @*/
#include "c03_ring.h"
#include <igris/datastruct/ring.h>

void harness(void)
{
    WIT(uint, size);
    WIT(uint, head);
    WIT(uint, tail);
    WIT(char, c);
    WIT(uint, k);              /* ghost index into the view  */
    WIT(uint, j);              /* ghost index into the buffer */
    WIT_ARR(char, content, 6);
    __CPROVER_assume(size >= 2 && size <= VC_MAXOBJ && head < size && tail < size);
    __CPROVER_assume(j < size);
    struct ring_head r;
    r.size = size; r.head = head; r.tail = tail;
    char *buf = NEW_OBJ(size);
    FILL(buf, (size_t)size, content);
    uint len = spec_ring_len(head, tail, size);
    char old_j = buf[j];
    char old_k = k < len ? buf[spec_ring_slot(tail, k, size)] : 0;

    int ret = ring_putc(&r, buf, c);

    P1(__CPROVER_assert(C03_RING_INV(r) && r.size == size && r.tail == tail, "putc preserves RING(r), size and tail");)
    if (len == size - 1) {
        P1(__CPROVER_assert(ret == 0, "putc on a full ring returns 0");)
        P1(__CPROVER_assert(r.head == head, "putc on a full ring leaves head");)
        P1(__CPROVER_assert(buf[j] == old_j, "putc on a full ring writes no buffer byte");)
    } else {
        P1(__CPROVER_assert(ret == 1, "putc on a non-full ring returns 1");)
        P1(__CPROVER_assert(r.head == spec_ring_step(head, size), "putc: head makes one single step");)
        P2(__CPROVER_assert(spec_ring_len(r.head, r.tail, r.size) == len + 1, "putc: reference length + 1");)
        if (k < len) {
            P3(__CPROVER_assert(buf[spec_ring_slot(r.tail, k, size)] == old_k, "putc: every old element keeps position and value");)
        }
        P3(__CPROVER_assert(buf[spec_ring_slot(r.tail, len, size)] == c, "putc: the new last element is c");)
        if (j != head) {
            P1(__CPROVER_assert(buf[j] == old_j, "putc: no buffer byte other than buf[old head] is written");)
        }
    }
    CANARY("ring_putc end reachable");
}
