/*@unit {
 'kind': 'proof', 'mode': 'plain',
 'functions': ['igris::ring<T>::last', 'igris::ring<T>::fixup_index', 'igris::ring<T>::distance', 'igris::ring<T>::set_last_index', 'igris::ring<T>::avail', 'igris::ring<T>::room'],
 'extract': 'units/C03/cxx_ring_extract.py',
 'params': {'SIZE': ['SYM', 2, 3, 5, 6, 7, 10, 12, 100, 1000, 4096, 65535]},
 'clauses': 'relative accessors of the typed ring address the same elements as the reference queue for EVERY head position and every ring size (SIZE=SYM: symbolic size for '
            'last/fixup_index/set_last_index/avail/room; distance() contains a % by the size: symbolic size AND a list of constant sizes incl. non powers of two): '
            'last() is the slot one step before head (head == 0 wraps to size-1) = the most recently pushed element; fixup_index(i) == i mod size for -size <= i < 2*size; '
            'distance(a, b) == (a - b) mod size for slots a, b; set_last_index(i) makes slot i the last element; avail + room == size - 1',
 'witness': {'unwind': 2},
 'assumptions': ['RING(r, buffer): 2 <= r.size <= buffer.size() <= INT_MAX (established by ctor/reset: cxx_ring_sizing)', 'T = char'],
} @*/
#include "c03_ring.h"
#include <string.h>
#include <limits.h>
#include "cxx/ring_cxx.c"

void harness(void)
{
    struct ring rg;
    WIT(uint, size); WIT(uint, head); WIT(uint, tail); WIT(int, a); WIT(int, b); WIT(int, idx); WIT(int, op);
#define SYM 0      /* SIZE=SYM: symbolic size */
    ring_defaults(&rg);
    if (SIZE != 0) __CPROVER_assume(size == (uint)(SIZE));
    __CPROVER_assume(size >= 2 && size <= (uint)INT_MAX && head < size && tail < size);
    rg.buffer.m_data = NEW_OBJ(size); rg.buffer.m_size = size;
    rg.r.size = size; rg.r.head = head; rg.r.tail = tail;
    if (op == 0) {
        char *l = ring_last(&rg);
        __CPROVER_assert(l == rg.buffer.m_data + (head == 0 ? size - 1 : head - 1), "last() is the slot one step before head, wrapping at 0");
    } else if (op == 1) {
        __CPROVER_assume(idx >= -(int)size && (llong)idx < 2 * (llong)size);
        int f = ring_fixup_index_m(&rg, idx);
        __CPROVER_assert(f == spec_mod_near(idx, size), "fixup_index(i) == i mod size (mathematical) for -size <= i < 2*size");
    } else if (op == 2 && (SIZE != 0 || VC_THOROUGH)) {   /* % by a symbolic size takes ~100 s: thorough tier only */
        __CPROVER_assume(a >= 0 && (uint)a < size && b >= 0 && (uint)b < size);
        int d = ring_distance(&rg, a, b);
        __CPROVER_assert(d == (int)SPEC_RING_DIST((uint)b, (uint)a, size), "distance(a, b) == number of forward steps from b to a == (a - b) mod size");
    } else if (op == 3) {
        __CPROVER_assume(idx >= 0 && (uint)idx < size);
        ring_set_last_index(&rg, idx);
        __CPROVER_assert(ring_last(&rg) == rg.buffer.m_data + idx, "after set_last_index(i) the last element is slot i");
    } else {
        __CPROVER_assert(ring_avail_m(&rg) + ring_room_m(&rg) == size - 1, "avail + room == capacity");
        __CPROVER_assert(ring_avail_m(&rg) == SPEC_RING_LEN(head, tail, size), "avail == reference queue length");
    }
    CANARY("ring accessors end reachable");
}
