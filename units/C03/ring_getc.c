/*@unit {
 'kind': 'proof', 'mode': 'plain',
 'functions': ['ring_getc'],
 'params': {'PART': [1, 2, 3]},
 'kf': ['C03_getc_ff'], 'kf_probe_case': {'C03_getc_ff': {'PART': 1}},
 'clauses': 'for every RING(r) and every buffer content: empty ring => returns -1 (a value no data byte can produce) and nothing changes; otherwise the low 8 bits of the result are the first element, view\' = tail(view) (length - 1, element k+1 becomes element k), head, size and every buffer byte unchanged, RING(r) preserved; [known finding C03_getc_ff carved out: for first elements >= 0x80] the result is the byte value (unsigned char)view[0] in 0..255 and differs from the empty marker',
 'assumptions': ['RING(r)', 'buffer is an object of exactly r->size bytes'],
 'witness': {'unwind': 8},
} @*/
#include "c03_ring.h"
#include <igris/datastruct/ring.h>

void harness(void)
{
    WIT(uint, size);
    WIT(uint, head);
    WIT(uint, tail);
    WIT(uint, k);              /* ghost index into the view  */
    WIT(uint, j);              /* ghost index into the buffer */
    WIT_ARR(char, content, 6);
    __CPROVER_assume(size >= 2 && size <= VC_MAXOBJ && head < size && tail < size);
    __CPROVER_assume(j < size);
    struct ring_head r;
    r.size = size; r.head = head; r.tail = tail;
    char *buf = NEW_OBJ(size);
    FILL(buf, (size_t)size, content);
    uint len = spec_ring_len(head, tail, size);
    char old_j = buf[j];
    char old_0 = buf[tail];
    char old_k1 = (len != 0 && k < len - 1) ? buf[spec_ring_slot(tail, k + 1, size)] : 0;

    int ret = ring_getc(&r, buf);

    P1(__CPROVER_assert(C03_RING_INV(r) && r.size == size && r.head == head, "getc preserves RING(r), size and head");)
    P1(__CPROVER_assert(buf[j] == old_j, "getc writes no buffer byte");)
    if (len == 0) {
        P1(__CPROVER_assert(ret == -1, "getc on an empty ring returns -1");)
        P1(__CPROVER_assert(ret < 0 || ret > 255, "the empty marker is a value no data byte can produce");)
        P1(__CPROVER_assert(r.tail == tail, "getc on an empty ring leaves tail");)
    } else {
        P1(__CPROVER_assert(r.tail == spec_ring_step(tail, size), "getc: tail makes one single step");)
        P2(__CPROVER_assert(spec_ring_len(r.head, r.tail, r.size) == len - 1, "getc: reference length - 1");)
        if (k < len - 1) {
            P3(__CPROVER_assert(buf[spec_ring_slot(r.tail, k, size)] == old_k1, "getc: element k of the new view is element k+1 of the old one");)
        }
        P1(__CPROVER_assert((uchar)ret == (uchar)old_0, "getc: the low 8 bits of the result are the first element");)
        /* known finding C03_getc_ff: region = first element >= 0x80 (it affects only the two
           clauses below; everything above is proved for all 256 byte values) */
        __CPROVER_assume(KF_C03_getc_ff == 0 ? 1 : KF_C03_getc_ff == 1 ? !((uchar)old_0 >= 0x80) : ((uchar)old_0 >= 0x80));
        P1(__CPROVER_assert(ret == (int)(uchar)old_0, "getc returns the byte value (unsigned char)view[0], 0..255");)
        P1(__CPROVER_assert(ret != -1, "getc on a non-empty ring never returns the empty marker");)
    }
    CANARY("ring_getc end reachable");
}
