/*@unit {
 'kind': 'proof', 'mode': 'plain',
 'functions': ['ring_fixup_index'],
 'kf': ['C03_fixup_index_neg'],
 'clauses': 'for every size in [2, INT_MAX] and every index with -size <= index < 2*size (what igris::ring::last()/get_last()/fixup_index pass: head - 1, head - offset - i - 1, ...): the result is the mathematical index mod size, in [0,size); the ring is not written',
 'assumptions': ['size <= INT_MAX for ring_fixup_index: index and result are int (igris::ring builds its ring from an int bufsize)'],
 'witness': {'unwind': 4},
} @*/
#include "c03_ring.h"
#include <igris/datastruct/ring.h>
#include <limits.h>

void harness(void)
{
    WIT(uint, size);
    WIT(uint, head);
    WIT(uint, tail);
    WIT(int, index);
    __CPROVER_assume(size >= 2 && size <= (uint)INT_MAX && head < size && tail < size);
    __CPROVER_assume((llong)index >= -(llong)size && (llong)index < 2 * (llong)size);
    /* known finding C03_fixup_index_neg: region = negative index and size not a power of two */
#define C03_REGION (index < 0 && (size & (size - 1)) != 0)
    __CPROVER_assume(KF_C03_fixup_index_neg == 0 ? 1 : KF_C03_fixup_index_neg == 1 ? !C03_REGION : C03_REGION);
    struct ring_head r;
    r.size = size; r.head = head; r.tail = tail;

    int ret = ring_fixup_index(&r, index);

    __CPROVER_assert(r.size == size && r.head == head && r.tail == tail, "fixup_index does not change the ring");
    __CPROVER_assert(ret >= 0 && (uint)ret < size, "fixup_index: result in [0,size)");
    __CPROVER_assert((llong)ret == spec_mod_near(index, size), "fixup_index: result == index mod size (mathematical)");
    CANARY("ring_fixup_index end reachable");
}
