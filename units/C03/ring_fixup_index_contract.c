/*@unit {
 'kind': 'proof', 'mode': 'dfcc',
 'functions': ['ring_fixup_index'],
 'enforce': 'ring_fixup_index',
 'clauses': 'contracts/c03_ring_contracts.h: for every size in [2, INT_MAX] and every index with -size <= index < 2*size the result is index mod size (mathematical), nothing is written',
 'assumptions': ['size <= INT_MAX (index and result are int)'],
 'witness': {'unwind': 4},
} @*/
#include "c03_ring.h"
#include "c03_ring_contracts.h"

void harness(void)
{
    struct ring_head *r;
    int index;
    int ret = ring_fixup_index(r, index);
    (void)ret;
    CANARY("ring_fixup_index contract harness end reachable");
}
