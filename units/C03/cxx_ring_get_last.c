/*@unit {
 'kind': 'proof', 'mode': 'legacy',
 'functions': ['igris::ring<T>::get_last', 'igris::ring<T>::fixup_index'],
 'extract': 'units/C03/cxx_ring_extract.py',
 'replace': ['ring_fixup_index'],
 'params': {'FROM_END': [0, 1]},
 'inject': [
   {'file': 'overlay:cxx/ring_cxx.c', 'func': 'ring_get_last', 'loop': 0, 'expect': 'for (',
    'assigns': 'i, __CPROVER_object_whole(vec.data)',
    'invariants': ['0 <= i && i <= count',
                   '(g_gl_k < (size_t)i) ==> vec.data[g_gl_k] == self->buffer.m_data[C03_GL_SLOT_END(self->r.head, self->r.size, offset, g_gl_k)]'],
    'decreases': 'count - i'},
   {'file': 'overlay:cxx/ring_cxx.c', 'func': 'ring_get_last', 'loop': 1, 'expect': 'for (',
    'assigns': 'i, __CPROVER_object_whole(vec.data)',
    'invariants': ['0 <= i && i <= count',
                   '(g_gl_k < (size_t)i) ==> vec.data[g_gl_k] == self->buffer.m_data[C03_GL_SLOT_FWD(self->r.head, self->r.size, offset, count, g_gl_k)]'],
    'decreases': 'count - i'},
 ],
 'clauses': 'get_last(offset, count, order_from_end) for EVERY ring size, head position, offset >= 0 and count >= 0 with offset + count <= size (the window lies within one lap): '
            'returns exactly count elements; from the end: element i is the slot i + offset + 1 steps before head; in order: element i is the slot count + offset - i steps '
            'before head (both modulo size, wrap-around included); every buffer access is inside the buffer, every result access inside the result; the ring is not modified',
 'witness': {'unwind': 7, 'defines': ['VC_WIT_MAXOBJ=6']},
 'solver': 'cadical',
 'trusted': ['ring_fixup_index through contracts/c03_ring_contracts.h (proved for the real function by ring_fixup_index_contract)', 'std::vector<char>(n) / operator[]: exact-size stub c03_vec (glue of the recipe)'],
 'assumptions': ['RING(r, buffer): 2 <= r.size == buffer.size() <= 2^30 (established by ctor/reset: cxx_ring_sizing)', 'T = char',
                 'the tracked result index g_gl_k is an unconstrained input: the clause at every index is the clause at g_gl_k == that index'],
} @*/
#include "c03_ring.h"
#include <string.h>
#include <limits.h>
size_t g_gl_k;
/* slot `steps` single steps before head (1 <= steps <= size), without % */
#define C03_GL_BACK(head, size, steps) ((long long)(head) - (long long)(steps) < 0 ? (long long)(head) - (long long)(steps) + (long long)(size) : (long long)(head) - (long long)(steps))
#define C03_GL_SLOT_END(head, size, offset, k) C03_GL_BACK(head, size, (long long)(offset) + (long long)(k) + 1)
#define C03_GL_SLOT_FWD(head, size, offset, count, k) C03_GL_BACK(head, size, (long long)(count) + (long long)(offset) - (long long)(k))
#include "c03_ring_contracts.h"
#include "cxx/ring_cxx.c"

void harness(void)
{
    struct ring rg;
    WIT(uint, size); WIT(uint, head); WIT(uint, tail); WIT(int, offset); WIT(int, count); WIT(int, from_end); WIT(size_t, k);
    WIT_ARR(char, content, 6);
    ring_defaults(&rg);
    __CPROVER_assume(size >= 2 && size <= VC_MAXOBJ && size <= (1u << 30) && head < size && tail < size);
    __CPROVER_assume(offset >= 0 && count >= 0 && (llong)offset + count <= (llong)size);
    __CPROVER_assume(from_end == FROM_END);     /* case split over the two orders (one solver call each) */
    rg.buffer.m_data = NEW_OBJ(size); rg.buffer.m_size = size;
    FILL(rg.buffer.m_data, size, content);
    rg.r.size = size; rg.r.head = head; rg.r.tail = tail;
    __CPROVER_assume(k < (size_t)count);
    g_gl_k = k;
    llong want = from_end ? C03_GL_SLOT_END(head, size, offset, k) : C03_GL_SLOT_FWD(head, size, offset, count, k);
    char expect = rg.buffer.m_data[want];

    c03_vec v = ring_get_last(&rg, offset, count, from_end);

    __CPROVER_assert(v.n == (size_t)count, "get_last returns exactly count elements");
    __CPROVER_assert(v.data[k] == expect, "get_last: element k is the sample the reference queue holds at that distance from head (wrap-around included)");
    __CPROVER_assert(rg.r.head == head && rg.r.tail == tail && rg.r.size == size && rg.buffer.m_size == size, "get_last does not modify the ring");
    CANARY("get_last end reachable");
}
