/*@unit {
 'kind': 'proof', 'mode': 'legacy',
 'functions': ['ring_counter_fixup_pos', 'ring_counter_prev', 'ring_counter_last'],
 'clauses': 'for every RC(rc) with size in [1, INT_MAX]: fixup_pos(pos) terminates for every int pos and returns a value in [0,size), equal to the mathematical pos mod size for -size <= pos < 2*size; prev(i) terminates for every i >= 0 and returns a value in [0,size), equal to (counter - i) mod size for 0 <= i <= size (cyclic_buffer::operator[](i): the i-th previous sample); last(no) == (counter - no) mod size for -size <= no <= size; none of them writes the counter (const)',
 'inject': [{'file': 'igris/datastruct/ring_counter.h', 'func': 'ring_counter_fixup_pos', 'loop': 0, 'expect': 'pos >= rc->size',
             'assigns': 'pos',
             'invariants': ['pos <= g_p0 && (g_p0 >= 0 ==> pos >= 0)',
                            'g_p0 < rc->size ==> pos == g_p0',
                            '(g_p0 >= rc->size && g_p0 - rc->size < rc->size) ==> (pos == g_p0 || pos == g_p0 - rc->size)'],
             'decreases': 'pos'},
            {'file': 'igris/datastruct/ring_counter.h', 'func': 'ring_counter_fixup_pos', 'loop': 1, 'expect': 'pos < 0',
             'assigns': 'pos',
             'invariants': ['pos < rc->size && pos >= g_p0',
                            'g_p0 >= 0 ==> pos == g_p0',
                            '(g_p0 < 0 && g_p0 + rc->size >= 0) ==> (pos == g_p0 || pos == g_p0 + rc->size)'],
             'decreases': '-(long long)pos'},
            {'file': 'igris/datastruct/ring_counter.h', 'func': 'ring_counter_fixup_pos', 'ghost': 'g_p0 = pos;', 'at': 'func-begin'},
            {'file': 'igris/datastruct/ring_counter.h', 'func': 'ring_counter_fixup_pos', 'ghost': 'g_p0 = pos;', 'at': 'before', 'anchor': 'while (pos < 0)'},
            {'file': 'igris/datastruct/ring_counter.h', 'func': 'ring_counter_prev', 'loop': 0, 'expect': 'c < 0',
             'assigns': 'c',
             'invariants': ['c < rc->size && c >= g_c1',
                            'g_c1 >= 0 ==> c == g_c1',
                            '(g_c1 < 0 && g_c1 + rc->size >= 0) ==> (c == g_c1 || c == g_c1 + rc->size)'],
             'decreases': '-(long long)c'},
            {'file': 'igris/datastruct/ring_counter.h', 'func': 'ring_counter_prev', 'ghost': 'g_c1 = c;', 'at': 'before', 'anchor': 'while (c < 0)'}],
 'assumptions': ['RC(rc): 1 <= size, 0 <= counter < size',
                 'ring_counter_prev: i >= 0 ("i iterations earlier"; a negative i gives counter - i >= size unreduced, and can overflow); ring_counter_last: counter - no representable'],
 'witness': {'unwind': 8},
} @*/
#include "c03_ring.h"
#include <limits.h>
int g_p0, g_c1; /* ghosts: value of pos / c when the loop that follows is entered */
#include <igris/datastruct/ring_counter.h>

void harness(void)
{
    WIT(int, size);
    WIT(int, counter);
    WIT(int, arg);
    WIT(uchar, which);
    __CPROVER_assume(size >= 1 && counter >= 0 && counter < size);
#ifdef WITNESS_MODE
    __CPROVER_assume(size >= 0x20000000);
#endif
    struct ring_counter rc;
    rc.size = size; rc.counter = counter;
    int ret;
    if (which == 0) {
        ret = ring_counter_fixup_pos(&rc, arg);
        __CPROVER_assert(ret >= 0 && ret < size, "fixup_pos: result in [0,size) for every int pos");
        __CPROVER_assert(!((llong)arg >= -(llong)size && (llong)arg < 2 * (llong)size) || (llong)ret == spec_mod_near(arg, size), "fixup_pos(pos), -size <= pos < 2*size: pos mod size");
    } else if (which == 1) {
        __CPROVER_assume(arg >= 0);
        ret = ring_counter_prev(&rc, arg);
        __CPROVER_assert(ret >= 0 && ret < size, "prev: result in [0,size) for every i >= 0");
        __CPROVER_assert(!(arg <= size) || (llong)ret == spec_mod_near((llong)counter - arg, size), "prev(i), 0 <= i <= size: (counter - i) mod size");
    } else {
        __CPROVER_assume((llong)counter - (llong)arg <= INT_MAX && (llong)counter - (llong)arg >= INT_MIN);
        ret = ring_counter_last(&rc, arg);
        __CPROVER_assert(ret >= 0 && ret < size, "last: result in [0,size)");
        __CPROVER_assert(!((llong)arg >= -(llong)size && arg <= size) || (llong)ret == spec_mod_near((llong)counter - arg, size), "last(no), -size <= no <= size: (counter - no) mod size");
    }
    __CPROVER_assert(rc.size == size && rc.counter == counter, "relative accessors do not change the counter");
    CANARY("rc_relative end reachable");
}
