/*@unit {
 'kind': 'proof', 'mode': 'legacy',
 'functions': ['ring_counter_fixup_pos', 'ring_counter_prev', 'ring_counter_last'],
 'clauses': 'for every RC(rc) with size in [1, INT_MAX]: fixup_pos(pos) terminates for every int pos and returns a value in [0,size), equal to the mathematical pos mod size for -size <= pos < 2*size; prev(i) terminates for every i >= 0 and returns a value in [0,size), equal to (counter - i) mod size for 0 <= i <= size (cyclic_buffer::operator[](i): the i-th previous sample); last(no) == (counter - no) mod size for -size <= no <= size; none of them writes the counter (const)',
 'inject': [{'file': 'igris/datastruct/ring_counter.h', 'func': 'ring_counter_fixup_pos', 'loop': 0, 'expect': 'while (pos',
             'assigns': 'pos',
             'invariants': ['pos <= __CPROVER_loop_entry(pos) && (__CPROVER_loop_entry(pos) >= 0 ==> pos >= 0)',
                            '__CPROVER_loop_entry(pos) < rc->size ==> pos == __CPROVER_loop_entry(pos)',
                            '(__CPROVER_loop_entry(pos) >= rc->size && __CPROVER_loop_entry(pos) - rc->size < rc->size) ==> (pos == __CPROVER_loop_entry(pos) || pos == __CPROVER_loop_entry(pos) - rc->size)'],
             'decreases': 'pos'},
            {'file': 'igris/datastruct/ring_counter.h', 'func': 'ring_counter_fixup_pos', 'loop': 1, 'expect': 'while (pos',
             'assigns': 'pos',
             'invariants': ['pos < rc->size && pos >= __CPROVER_loop_entry(pos)',
                            '__CPROVER_loop_entry(pos) >= 0 ==> pos == __CPROVER_loop_entry(pos)',
                            '(__CPROVER_loop_entry(pos) < 0 && __CPROVER_loop_entry(pos) + rc->size >= 0) ==> (pos == __CPROVER_loop_entry(pos) || pos == __CPROVER_loop_entry(pos) + rc->size)'],
             'decreases': '-(long long)pos'},
            {'file': 'igris/datastruct/ring_counter.h', 'func': 'ring_counter_prev', 'loop': 0, 'expect': 'while (c',
             'assigns': 'c',
             'invariants': ['c < rc->size && c >= __CPROVER_loop_entry(c)',
                            '__CPROVER_loop_entry(c) >= 0 ==> c == __CPROVER_loop_entry(c)',
                            '(__CPROVER_loop_entry(c) < 0 && __CPROVER_loop_entry(c) + rc->size >= 0) ==> (c == __CPROVER_loop_entry(c) || c == __CPROVER_loop_entry(c) + rc->size)'],
             'decreases': '-(long long)c'}],
 'assumptions': ['RC(rc): 1 <= size, 0 <= counter < size',
                 'ring_counter_prev: i >= 0 ("i iterations earlier"; a negative i gives counter - i >= size unreduced, and can overflow); ring_counter_last: counter - no representable'],
 'witness': {'unwind': 8},
} @*/
#include "c03_ring.h"
#include <limits.h>
#include <igris/datastruct/ring_counter.h>

void harness(void)
{
    WIT(int, size);
    WIT(int, counter);
    WIT(int, arg);
    WIT(uchar, which);
    __CPROVER_assume(size >= 1 && counter >= 0 && counter < size);
#ifdef WITNESS_MODE
    __CPROVER_assume(size >= 0x20000000);
#endif
    struct ring_counter rc;
    rc.size = size; rc.counter = counter;
    int ret;
    if (which == 0) {
        ret = ring_counter_fixup_pos(&rc, arg);
        __CPROVER_assert(ret >= 0 && ret < size, "fixup_pos: result in [0,size) for every int pos");
        __CPROVER_assert(!((llong)arg >= -(llong)size && (llong)arg < 2 * (llong)size) || (llong)ret == spec_mod_near(arg, size), "fixup_pos(pos), -size <= pos < 2*size: pos mod size");
    } else if (which == 1) {
        __CPROVER_assume(arg >= 0);
        ret = ring_counter_prev(&rc, arg);
        __CPROVER_assert(ret >= 0 && ret < size, "prev: result in [0,size) for every i >= 0");
        __CPROVER_assert(!(arg <= size) || (llong)ret == spec_mod_near((llong)counter - arg, size), "prev(i), 0 <= i <= size: (counter - i) mod size");
    } else {
        __CPROVER_assume((llong)counter - (llong)arg <= INT_MAX && (llong)counter - (llong)arg >= INT_MIN);
        ret = ring_counter_last(&rc, arg);
        __CPROVER_assert(ret >= 0 && ret < size, "last: result in [0,size)");
        __CPROVER_assert(!((llong)arg >= -(llong)size && arg <= size) || (llong)ret == spec_mod_near((llong)counter - arg, size), "last(no), -size <= no <= size: (counter - no) mod size");
    }
    __CPROVER_assert(rc.size == size && rc.counter == counter, "relative accessors do not change the counter");
    CANARY("rc_relative end reachable");
}
