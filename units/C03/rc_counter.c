/*@unit {
 'kind': 'proof', 'mode': 'legacy',
 'functions': ['ring_counter_init', 'ring_counter_get', 'ring_counter_fixup', 'ring_counter_set', 'ring_counter_increment'],
 'clauses': 'for every size in [1, INT_MAX]: init gives counter 0 and the size; get returns the counter and changes nothing; fixup/set/increment terminate (injected loop invariant + decreases), never write size, and leave 0 <= counter < size for every non-negative start value; a value already in range is kept, a value in [size, 2*size) is reduced by size: set(val) for 0 <= val < 2*size and increment(arg) for 0 <= arg <= size give the mathematical val mod size resp. (counter + arg) mod size (cyclic_buffer::push uses increment(1))',
 'inject': [{'file': 'igris/datastruct/ring_counter.h', 'func': 'ring_counter_fixup', 'loop': 0, 'expect': 'rc->counter',
             'assigns': 'rc->counter',
             'invariants': ['rc->counter <= __CPROVER_loop_entry(rc->counter) && (__CPROVER_loop_entry(rc->counter) >= 0 ==> rc->counter >= 0)',
                            '__CPROVER_loop_entry(rc->counter) < rc->size ==> rc->counter == __CPROVER_loop_entry(rc->counter)',
                            '(__CPROVER_loop_entry(rc->counter) >= rc->size && __CPROVER_loop_entry(rc->counter) - rc->size < rc->size) ==> (rc->counter == __CPROVER_loop_entry(rc->counter) || rc->counter == __CPROVER_loop_entry(rc->counter) - rc->size)'],
             'decreases': 'rc->counter'}],
 'assumptions': ['RC(rc): 1 <= size, 0 <= counter < size (size 0 makes the fix-up loop spin forever; cyclic_buffer passes its element count)',
                 'ring_counter_set: val >= 0; ring_counter_increment: arg >= 0 and counter + arg <= INT_MAX (signed overflow otherwise): negative values are left negative by ring_counter_fixup, the only caller passes 1'],
 'witness': {'unwind': 8},
} @*/
#include "c03_ring.h"
#include <limits.h>
#include <igris/datastruct/ring_counter.h>

#define RC_INV(rc) ((rc).size >= 1 && (rc).counter >= 0 && (rc).counter < (rc).size)

void harness(void)
{
    WIT(int, size);
    WIT(int, counter);
    WIT(int, val);
    WIT(uchar, which);
    __CPROVER_assume(size >= 1);
#ifdef WITNESS_MODE
    __CPROVER_assume(size >= 0x20000000); /* keeps the number of iterations small in the concretisation run */
#endif
    struct ring_counter rc;
    rc.size = size; rc.counter = counter;
    if (which == 0) {
        ring_counter_init(&rc, val);
        __CPROVER_assert(rc.counter == 0 && rc.size == val, "init: counter 0, size as given");
        __CPROVER_assert(val < 1 || RC_INV(rc), "init with size >= 1 establishes RC(rc)");
    } else if (which == 1) {
        int g = ring_counter_get(&rc);
        __CPROVER_assert(g == counter && rc.counter == counter && rc.size == size, "get returns the counter, changes nothing");
    } else if (which == 2) {
        /* fixup on any non-negative counter */
        __CPROVER_assume(counter >= 0);
        ring_counter_fixup(&rc);
        __CPROVER_assert(rc.size == size, "fixup does not write size");
        __CPROVER_assert(RC_INV(rc), "fixup: counter ends in [0,size)");
        __CPROVER_assert(counter >= size || rc.counter == counter, "fixup keeps a counter that is in range");
        __CPROVER_assert(!(counter >= size && (llong)counter < 2 * (llong)size) || rc.counter == counter - size, "fixup: counter in [size,2*size) is reduced by size");
    } else if (which == 3) {
        __CPROVER_assume(val >= 0);
        ring_counter_set(&rc, val);
        __CPROVER_assert(rc.size == size, "set does not write size");
        __CPROVER_assert(RC_INV(rc), "set: counter ends in [0,size)");
        __CPROVER_assert(!((llong)val < 2 * (llong)size) || (llong)rc.counter == spec_mod_near(val, size), "set(val), 0 <= val < 2*size: counter == val mod size");
    } else {
        __CPROVER_assume(RC_INV(rc));
        __CPROVER_assume(val >= 0 && (llong)counter + (llong)val <= INT_MAX);
        ring_counter_increment(&rc, val);
        __CPROVER_assert(rc.size == size, "increment does not write size");
        __CPROVER_assert(RC_INV(rc), "increment preserves RC(rc)");
        __CPROVER_assert(!(val <= size) || (llong)rc.counter == spec_mod_near((llong)counter + val, size), "increment(arg), 0 <= arg <= size: counter == (counter + arg) mod size");
    }
    CANARY("rc_counter end reachable");
}
