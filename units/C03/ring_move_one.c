/*@unit {
 'kind': 'proof', 'mode': 'plain',
 'functions': ['ring_move_head_one', 'ring_move_tail_one'],
 'clauses': 'for every RING(r): move_head_one makes exactly one single step of head (wraps size-1 -> 0), move_tail_one one single step of tail; the other index and size are unchanged, no index leaves [0,size), r is returned; on a non-full ring move_head_one lengthens the reference queue by one (push), on a non-empty ring move_tail_one drops its first element (pop): length -1 and element k+1 becomes element k (same slot)',
 'assumptions': ['RING(r)'],
 'params': {'PART': [1, 2, 3, 4]},
 'witness': {'unwind': 4},
} @*/
#include "c03_ring.h"
#include <igris/datastruct/ring.h>

void harness(void)
{
    WIT(uint, size);
    WIT(uint, head);
    WIT(uint, tail);
    WIT(uint, k);
    __CPROVER_assume(size >= 2 && head < size && tail < size);
    uint len = spec_ring_len(head, tail, size);

    struct ring_head r;
    r.size = size; r.head = head; r.tail = tail;
    struct ring_head *ret = ring_move_head_one(&r);
    P1(__CPROVER_assert(ret == &r, "move_head_one returns r");)
    P1(__CPROVER_assert(r.head == spec_ring_step(head, size) && r.tail == tail && r.size == size, "move_head_one: one single step of head, nothing else");)
    P1(__CPROVER_assert(C03_RING_INV(r), "move_head_one preserves RING(r)");)
    if (len != size - 1) {
        P2(__CPROVER_assert(spec_ring_len(r.head, r.tail, r.size) == len + 1, "move_head_one on a non-full ring: reference length + 1");)
        P2(__CPROVER_assert(spec_ring_slot(tail, len, size) == head, "the new last element is the slot at the old head");)
    }

    struct ring_head t;
    t.size = size; t.head = head; t.tail = tail;
    ret = ring_move_tail_one(&t);
    P1(__CPROVER_assert(ret == &t, "move_tail_one returns r");)
    P1(__CPROVER_assert(t.tail == spec_ring_step(tail, size) && t.head == head && t.size == size, "move_tail_one: one single step of tail, nothing else");)
    P1(__CPROVER_assert(C03_RING_INV(t), "move_tail_one preserves RING(r)");)
    if (len != 0) {
        P3(__CPROVER_assert(spec_ring_len(t.head, t.tail, t.size) == len - 1, "move_tail_one on a non-empty ring: reference length - 1");)
        if (k < len - 1) {
            P4(__CPROVER_assert(spec_ring_slot(t.tail, k, size) == spec_ring_slot(tail, k + 1, size), "move_tail_one: element k of the new view is element k+1 of the old one");)
        }
    }
    CANARY("ring_move_one end reachable");
}
