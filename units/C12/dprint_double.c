/*@unit {
 'kind': 'proof', 'mode': 'dfcc',
 'functions': ['debug_printdec_double_prec', 'debug_printdec_float_prec', 'debug_printdec_signed_long_long', 'debug_print', 'debug_write'],
 'clauses': 'for EVERY binary64 bit pattern (ENTRY=0) / binary32 bit pattern (ENTRY=1, through debug_printdec_float_prec) and every int prec: NaN => exactly "nan", infinity => exactly "+inf" / "-inf"; finite (|a| < 2^64, prec <= 9) => the emitted character stream is accepted by -?[0-9]+\\.[0-9]{prec} (prec >= 1; for prec <= 0 by -?[0-9]+): a "-" first exactly when a < 0, at least one integer digit, one point, exactly prec fraction digits, no other character; the float->integer casts stay in range (conversion obligations).  The code\'s running fraction o equals the spec\'s frac(|a|)*10^i in every iteration (co-simulation), loop closed by an invariant for arbitrary prec',
 'params': {'ENTRY': [0, 1]},
 'replace': ['debug_printdec_uint64'],
 'inject': [
   {'file': 'igris/dprint/dprint_func_impl.c', 'func': 'debug_printdec_double_prec', 'loop': 0, 'expect': '_iteration < prec',
    'assigns': '_iteration, o, g_s, g_z, g_st, g_on, g_fd',
    'invariants': ['0 <= _iteration && (_iteration <= prec || (prec < 0 && _iteration == 0))',
                   'o == g_s',
                   'o >= 0.0 && o < C12_POW10D(_iteration)',
                   'g_z + C12_DIGITS(o) == (unsigned)_iteration',
                   'g_st == (g_z ? C12_S_FRAC : C12_S_DOT) && g_fd == g_z'],
    'decreases': 'prec - _iteration'},
   {'file': 'igris/dprint/dprint_func_impl.c', 'func': 'debug_printdec_double_prec', 'ghost': 'spec_dprint_step();', 'at': 'body-begin', 'loop': 0},
   {'file': 'igris/dprint/dprint_func_impl.c', 'func': 'debug_printdec_double_prec', 'ghost': 'spec_dprint_frac_region(KF_C12_dprint_fracdigits, prec);', 'at': 'before', 'anchor': 'o += 0.5;'},
 ],
 'unwind': 6,
 'complete_unwinding': 'debug_strlen / debug_write over the tokens nan, +inf, -inf: <= 5 iterations, unwound 6 times with unwinding assertions; the two calls of debug_printdec_uint64 are replaced by its contract (contracts/c12_dprint_contracts.h, proved by unit dprint_uint64); the fraction loop (prec iterations, prec arbitrary) is closed by the injected invariant',
 'checks_extra': ['--conversion-check', '--float-overflow-check', '--nan-check'],
 'solver': 'cadical',
 'kf': ['C12_dprint_range', 'C12_dprint_prec10', 'C12_dprint_fracdigits'],
 'witness': {'unwind': 6},
 'note': 'in the concretisation / replay runs the real debug_printdec_uint64 runs (replay links the real code)',
 'trusted': ['debug_putchar is the platform hook (dprint.h: implemented outside the library); the unit supplies the observing acceptor c12_sink for it'],
 'assumptions': ['|a| < 2^64 for finite arguments (integer part goes through a uint64_t cast): beyond it known finding C12_dprint_range',
                 'prec <= 9 (the running fraction goes through an int cast, 10^10 > INT_MAX): beyond it known finding C12_dprint_prec10',
                 'IEEE-754 binary64 arithmetic in round-to-nearest-even (cbmc x86_64 model)'],
} @*/
#include "vc.h"
#include "c12_ftoa.h"
#include "c12_dprint.h"
#include <igris/dprint.h>
void debug_putchar(char c) { c12_sink(c); } /* platform hook = observer */
#include "igris/dprint/dprint_manually.c"   /* the library's own (weak) debug_write */
#include "c12_dprint_contracts.h"
#include "igris/dprint/dprint_func_impl.c"

void harness(void)
{
    WIT(int, prec);
#if ENTRY == 0
    WIT(uint64_t, bits);
    double a = c12_f64(bits);
    int special = ((bits >> 52) & 0x7ffu) == 0x7ffu; /* infinity or NaN */
    int is_nan = special && (bits & 0xfffffffffffffull) != 0;
    int neg_bit = (bits >> 63) != 0;
#else
    WIT(uint32_t, bits);
    float af = c12_f32(bits);
    double a = (double)af; /* exact */
    int special = C12_EXP32(bits) == 0xffu;
    int is_nan = C12_ISNAN32(bits);
    int neg_bit = C12_NEG32(bits);
#endif
    int big = !special && !(a > -18446744073709551616.0 && a < 18446744073709551616.0); /* finite, |a| >= 2^64 */
    __CPROVER_assume(KF_C12_dprint_range == 0 ? 1 : KF_C12_dprint_range == 1 ? !big : big);
    int p10 = !special && prec >= 10;
    __CPROVER_assume(KF_C12_dprint_prec10 == 0 ? 1 : KF_C12_dprint_prec10 == 1 ? !p10 : p10);
    __CPROVER_assume(KF_C12_dprint_fracdigits == 2 ? !special : 1);
#ifdef WITNESS_MODE /* concretisation: small cases only (as VC_MAXOBJ for objects) */
    __CPROVER_assume(prec <= 3 && (special || (a > -1000.0 && a < 1000.0)));
#endif
    c12_sink_reset();
    double aa = a < 0 ? -a : a;
    if (!special && !big)
        g_s = aa - (double)(uint64_t)aa; /* fractional part of |a|, exact */

#if ENTRY == 0
    debug_printdec_double_prec(a, prec);
#else
    debug_printdec_float_prec(af, prec);
#endif

    if (is_nan) {
        __CPROVER_assert(g_on == 3 && g_first[0] == 'n' && g_first[1] == 'a' && g_first[2] == 'n', "NaN prints as the token nan");
    } else if (special) {
        __CPROVER_assert(g_on == 4 && g_first[0] == (neg_bit ? '-' : '+') && g_first[1] == 'i' && g_first[2] == 'n' && g_first[3] == 'f',
                         "infinity prints as the token inf with its sign");
    } else {
        __CPROVER_assert(g_st != C12_S_BAD, "finite: the character stream is accepted by -?[0-9]+(.[0-9]*)? (no other character, sign first, one point)");
        __CPROVER_assert((g_minus != 0) == (a < 0), "finite: a minus sign (first character) exactly when a < 0");
        __CPROVER_assert(g_id >= 1, "finite: at least one integer digit");
        __CPROVER_assert(prec >= 1 ? (g_st == C12_S_FRAC && g_fd == (unsigned)prec) : g_st == C12_S_INT,
                         "finite: exactly the requested number of fraction digits (none and no point for prec <= 0)");
    }
    CANARY("dprint harness end reachable");
}
