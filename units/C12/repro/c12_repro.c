/* Native reproducer of the C12 findings (units/C12/findings.json).  Exit status = number of findings reproduced.
 *   gcc -O0 -I$REPO c12_repro.c $REPO/igris/util/numconvert.c $REPO/igris/util/hexascii.c \
 *       $REPO/igris/dprint/dprint_func_impl.c -lm -o c12_repro && ./c12_repro
 * (REPO=/repo: 11 on the unchanged tree; add -fsanitize=undefined with clang to see the UB reports.) */
#include <igris/dprint.h>
#include <igris/util/numconvert.h>
#include <math.h>
#include <stdio.h>
#include <stdlib.h>
#include <string.h>

static char out[128];
static int on;
void debug_putchar(char c) { if (on < 127) { out[on++] = c; out[on] = 0; } }
void debug_write(const char *c, int i) { while (i--) debug_putchar(*c++); }
static const char *dp(double a, int prec) { on = 0; out[0] = 0; debug_printdec_double_prec(a, prec); return out; }

static int hits;
static void check(const char *id, int defect, const char *detail) { printf("%-26s %s  %s\n", id, defect ? "REPRODUCED" : "not present", detail); hits += defect != 0; }

int main(void)
{
    char b[64], msg[256], *e, *r;
    const char *s;

    igris_f32toa(3e9f, b, 2);
    snprintf(msg, sizeof msg, "igris_f32toa(3e9f, b, 2) -> \"%s\"", b);
    check("C12_f32toa_range", strspn(b, "-0123456789.") != strlen(b), msg);

    r = igris_f32toa(-INFINITY, b, 2);
    snprintf(msg, sizeof msg, "igris_f32toa(-inf) -> b=\"%s\", returned b%+d (\"%s\")", b, (int)(r - b), r);
    check("C12_f32toa_inf_return", r != b, msg);

    s = "1e-2"; snprintf(msg, sizeof msg, "igris_atof64(\"%s\") = %g, strtod = %g", s, igris_atof64(s, 0), strtod(s, 0));
    check("C12_atof64_negexp", igris_atof64(s, 0) != strtod(s, 0), msg);

    s = "1e+"; igris_atof64(s, &e); snprintf(msg, sizeof msg, "igris_atof64(\"%s\", &end): end - s = %d (strtod: 1)", s, (int)(e - s));
    check("C12_atof64_exp_nodigits", e - s != 1, msg);

    s = "-"; igris_atof64(s, &e); snprintf(msg, sizeof msg, "igris_atof64(\"%s\", &end): end - s = %d (strtod: 0)", s, (int)(e - s));
    check("C12_atof64_nodigits", e - s != 0, msg);

    s = "1e4294967297"; snprintf(msg, sizeof msg, "igris_atof64(\"%s\") = %g (strtod: inf)", s, igris_atof64(s, 0));
    check("C12_atof64_exp_overflow", !isinf(igris_atof64(s, 0)), msg);

    s = "1.5"; float v = igris_atof32(s, &e); snprintf(msg, sizeof msg, "igris_atof32(\"%s\", &end) = %g, end - s = %d (strtof: 1.5, 3)", s, v, (int)(e - s));
    check("C12_atof32_end", v != 1.5f || e - s != 3, msg);

    s = "+7"; e = 0; v = igris_atof32(s, &e); snprintf(msg, sizeof msg, "igris_atof32(\"%s\", &end) = %g, end %s (strtof: 7, end stored)", s, v, e ? "stored" : "not stored");
    check("C12_atof32_gate", v != 7.0f || !e, msg);

    s = "1e-2"; snprintf(msg, sizeof msg, "igris_atof32(\"%s\") = %g (strtof: 0.01)", s, igris_atof32(s, 0));
    check("C12_atof32_hexdigit", igris_atof32(s, 0) > 1.0f, msg);

    snprintf(msg, sizeof msg, "debug_printdec_double_prec(2.0, 2) -> \"%s\"; ", dp(2.0, 2));
    snprintf(msg + strlen(msg), sizeof msg - strlen(msg), "(0.96, 1) -> \"%s\"; ", dp(0.96, 1));
    snprintf(msg + strlen(msg), sizeof msg - strlen(msg), "(3.7, 0) -> \"%s\"", dp(3.7, 0));
    check("C12_dprint_fracdigits", strcmp(dp(2.0, 2), "2.00") != 0 || strcmp(dp(0.96, 1), "1.0") != 0, msg);

    snprintf(msg, sizeof msg, "debug_printdec_double_prec(1e20, 2) -> \"%s\"", dp(1e20, 2));
    check("C12_dprint_range", strspn(dp(1e20, 2), "0123456789.") != strlen(dp(1e20, 2)) || strlen(out) < 21, msg);

    printf("(C12_dprint_prec10, C12_atof32_noexp, C12_atof32_pow_overflow: undefined behaviour / masked, see NOTES.md)\n");
    return hits;
}
