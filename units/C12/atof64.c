/*@unit {
 'kind': 'proof', 'mode': 'legacy',
 'functions': ['igris_atof64'],
 'clauses': 'LEXICAL part, for every text (object of arbitrary exact size up to 2^30, arbitrary bytes): co-simulation with the grammar [+-]d*[.d*][(e|E)[+-]d+] (ISO 7.22.1.3: >= 1 mantissa digit, exponent only with >= 1 digit): the code consumes digits exactly where the grammar has them (longest match in all three digit runs), *endptr = end of the literal (nptr when there is none), nothing stored through a NULL endptr, no read outside the characters a parser has to inspect, decimal exponent d == exponent - number of fraction digits (as integers, before the scaling loops), result is not NaN, sign of the result == sign of the literal, no literal => 0, text not modified, no signed overflow in e_val / d; all five loops closed by invariants (unbounded)',
 'inject': [
   {'file': 'igris/util/numconvert.c', 'func': 'igris_atof64', 'ghost': 'spec_atof_sign();', 'at': 'after', 'anchor': 'int sign = 1;'},
   {'file': 'igris/util/numconvert.c', 'func': 'igris_atof64', 'loop': 0, 'expect': '*nptr >=',
    'assigns': 'nptr, val, g_i, g_nd',
    'invariants': ['nptr == (const char *)g_t + g_i', 'g_i < g_n', 'val >= 0.0 && !__CPROVER_signd(val)', 'g_nd <= g_i', 'g_i == g_sgn + g_nd'],
    'decreases': 'g_n - g_i'},
   {'file': 'igris/util/numconvert.c', 'func': 'igris_atof64', 'ghost': 'spec_atof_int_step();', 'at': 'body-begin', 'loop': 0},
   {'file': 'igris/util/numconvert.c', 'func': 'igris_atof64', 'ghost': 'spec_atof_point();', 'at': 'before', 'anchor': "if (*nptr == '.')"},
   {'file': 'igris/util/numconvert.c', 'func': 'igris_atof64', 'loop': 1, 'expect': '*nptr >=',
    'assigns': 'nptr, val, d, g_i, g_nf',
    'invariants': ['nptr == (const char *)g_t + g_i', 'g_i < g_n', 'val >= 0.0 && !__CPROVER_signd(val)', 'g_dot', 'g_nd <= g_i', 'g_nf <= g_i', 'g_i == g_sgn + g_nd + 1 + g_nf', '(long)d == -(long)g_nf'],
    'decreases': 'g_n - g_i'},
   {'file': 'igris/util/numconvert.c', 'func': 'igris_atof64', 'ghost': 'spec_atof_frac_step();', 'at': 'body-begin', 'loop': 1},
   {'file': 'igris/util/numconvert.c', 'func': 'igris_atof64', 'ghost': 'spec_atof_exp(KF_C12_atof64_nodigits, KF_C12_atof64_exp_nodigits, KF_C12_atof64_negexp);',
    'at': 'before', 'anchor': "if (*nptr == 'E' || *nptr == 'e')"},
   {'file': 'igris/util/numconvert.c', 'func': 'igris_atof64', 'loop': 2, 'expect': '((*nptr >=',
    'assigns': 'nptr, e_val, g_i, g_eval',
    'invariants': ['nptr == (const char *)g_t + g_i', 'g_i < g_n', 'g_exp || g_emark', 'g_eval <= C12_ESAT',
                   'KF_C12_atof64_exp_overflow != 0 ? (e_val >= 0 && (uint64_t)e_val == g_eval) : (e_val >= 0 && (uint64_t)e_val == (g_eval < C12_EEXACT ? g_eval : C12_EEXACT))'],
    'decreases': 'g_n - g_i'},
   {'file': 'igris/util/numconvert.c', 'func': 'igris_atof64', 'ghost': 'spec_atof_exp_step(KF_C12_atof64_exp_overflow);', 'at': 'body-begin', 'loop': 2},
   {'file': 'igris/util/numconvert.c', 'func': 'igris_atof64', 'at': 'before', 'anchor': 'while (d > 0)',
    'ghost': 'spec_atof_done(KF_C12_atof64_exp_overflow); __CPROVER_assert(g_eval >= C12_EEXACT || (int64_t)d == spec_atof_dexp(), "decimal exponent bookkeeping: d == exponent - number of fraction digits"); __CPROVER_assert(val >= 0.0 && !spec_signd(val), "the digit string accumulates to a non-negative number (no NaN)");'},
   {'file': 'igris/util/numconvert.c', 'func': 'igris_atof64', 'loop': 3, 'expect': 'd > 0',
    'assigns': 'val, d', 'invariants': ['val >= 0.0 && !__CPROVER_signd(val)', 'd >= 0'], 'decreases': 'd'},
   {'file': 'igris/util/numconvert.c', 'func': 'igris_atof64', 'loop': 4, 'expect': 'd < 0',
    'assigns': 'val, d', 'invariants': ['val >= 0.0 && !__CPROVER_signd(val)', 'd <= 0'], 'decreases': '-(long)d'},
 ],
 'kf': ['C12_atof64_negexp', 'C12_atof64_exp_nodigits', 'C12_atof64_nodigits', 'C12_atof64_exp_overflow'],
 'witness': {'unwind': 9},
 'fallback': 'ghost-free',
 'native_probes': [{'n': 6, 'content': '{48, 101, 52, 48, 48, 0}', 'want_end': 1, 'k': 0}, {'n': 6, 'content': '{49, 101, 52, 48, 48, 0}', 'want_end': 1, 'k': 0},
                   {'n': 6, 'content': '{48, 101, 45, 57, 57, 0}', 'want_end': 0, 'k': 1}, {'n': 6, 'content': '{46, 101, 52, 48, 48, 0}', 'want_end': 1, 'k': 0}],
 'bound': 'native probes: the four texts "0e400", "1e400", "0e-99", ".e400" (decimal exponents beyond the range of double) run on the real code under ASan/UBSan; the proof itself bounds the exponent value only through its saturation clause',
 'assumptions': ['text: every character the grammar automaton has to inspect lies inside the text object (SPEC_NEED in spec/c12_atof_ref.h; satisfied by every NUL-terminated string and by the object that ends exactly at the first character that decides the end of the literal)',
                 'text object <= 2^30 bytes: the code counts fraction digits in an int (a literal with 2^31 fraction digits would overflow it)',
                 'nptr != NULL (the function returns 0.0 for NULL and stores nothing; ISO leaves strtod(NULL) undefined)'],
} @*/
#include "vc.h"
#include <math.h>
#include <string.h>
#include "c12_atof_ref.h"
#include "igris/util/numconvert.c"

#define ATOF_T double
#define ATOF_HAS_END 1
#define ATOF_CALL(s, pend) igris_atof64(s, pend)
#include "c12_atof_harness.h"

void harness(void)
{
    WIT(size_t, n);
    WIT_ARR(uchar, content, 6);
    WIT(uchar, want_end);
    WIT(size_t, k);
    c12_atof_check(n, content, want_end, k);
}
