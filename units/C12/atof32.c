/*@unit {
 'kind': 'proof', 'mode': 'legacy',
 'functions': ['igris_atof32', 'igris_atou32', 'igris_atou64', 'local_pow'],
 'clauses': 'LEXICAL part, for every text (object of arbitrary exact size up to 2^30, arbitrary bytes), the real igris_atou32 / igris_atou64 / hex2half / local_pow inlined: co-simulation with the grammar [+-]d*[.d*][(e|E)[+-]d+]: digits consumed exactly where the grammar has them, *pend = end of the literal (nptr when there is none), nothing stored through a NULL pend, no read outside the characters a parser has to inspect, result not NaN, sign of the result == sign of the literal, no literal => 0, text not modified, no signed overflow in local_pow.  On the unchanged tree nearly every input lies in one of the six known-finding regions (see findings.json): what is proved outright is the behaviour on "-" followed by neither a digit nor a point, and that nothing outside the regions fails',
 'inject': [
   {'file': 'igris/util/numconvert.c', 'func': 'igris_atof32', 'ghost': 'spec_atof32_begin(KF_C12_atof32_gate, KF_C12_atof32_end);', 'at': 'func-begin'},
   {'file': 'igris/util/numconvert.c', 'func': 'igris_atou32', 'loop': 0, 'expect': 'for (char c',
    'assigns': 'buf, c, res, g_i, g_nd, g_hexseen',
    'invariants': ['buf == (const char *)g_t + g_i', 'g_i < g_n', 'g_nd <= g_i', 'g_i == g_nd + g_sgn',
                   'g_nd > 0 ==> (SPEC_ISDIGIT(g_t[g_i - 1]) || SPEC_ISHEXLETTER(g_t[g_i - 1]))', '(g_nd == 0 && g_sgn == 0) ==> SPEC_ISDIGIT(g_t[0])'],
    'decreases': 'g_n - g_i'},
   {'file': 'igris/util/numconvert.c', 'func': 'igris_atou32', 'ghost': 'spec_atof32_int_step(KF_C12_atof32_hexdigit);', 'at': 'body-begin', 'loop': 0},
   {'file': 'igris/util/numconvert.c', 'func': 'igris_atof32', 'ghost': 'spec_atof_point();', 'at': 'before', 'anchor': "if (*str == '.')"},
   {'file': 'igris/util/numconvert.c', 'func': 'igris_atou64', 'loop': 0, 'expect': 'for (char c',
    'assigns': 'buf, c, res, g_i, g_nf, g_hexseen',
    'invariants': ['buf == (const char *)g_t + g_i', 'g_i < g_n', 'g_dot', 'g_nd <= g_i', 'g_nf <= g_i', 'g_i == g_nd + g_nf + 1 + g_sgn', 'g_nf <= 18 ==> res < SPEC_POW10(g_nf)',
                   'g_nf > 0 ==> (SPEC_ISDIGIT(g_t[g_i - 1]) || SPEC_ISHEXLETTER(g_t[g_i - 1]))'],
    'decreases': 'g_n - g_i'},
   {'file': 'igris/util/numconvert.c', 'func': 'igris_atou64', 'ghost': 'spec_atof32_frac_step(KF_C12_atof32_hexdigit);', 'at': 'body-begin', 'loop': 0},
   {'file': 'igris/util/numconvert.c', 'func': 'igris_atof32', 'ghost': 'spec_atof32_done(KF_C12_atof32_hexdigit, KF_C12_atof32_noexp, KF_C12_atof32_pow_overflow);', 'at': 'before', 'anchor': 'float ret ='},
   {'file': 'igris/util/numconvert.c', 'func': 'igris_atof32', 'ghost': 'spec_atof32_done(KF_C12_atof32_hexdigit, KF_C12_atof32_noexp, KF_C12_atof32_pow_overflow);', 'at': 'before', 'anchor': 'return minus ? -(float)u : (float)u;'},
 ],
 'unwindset': ['local_pow.0:20'],
 'complete_unwinding': 'local_pow: one iteration per fraction digit; outside the region of C12_atof32_pow_overflow (>= 19 fraction digits) at most 18, unwound 20 times with an unwinding assertion; the two digit loops (igris_atou32 / igris_atou64) are closed by invariants',
 'kf': ['C12_atof32_end', 'C12_atof32_gate', 'C12_atof32_hexdigit', 'C12_atof32_noexp', 'C12_atof32_pow_overflow'],
 'kf_note': 'C12_atof32_noexp and C12_atof32_pow_overflow are MASKED on the unchanged tree (status "masked" in findings.json, so the driver neither carves nor probes them): no input reaches them while C12_atof32_end / C12_atof32_hexdigit are open; they were observed in a scratch tree with the two atou defects repaired (NOTES.md) and have to be flipped to "open" together with that repair',
 'witness': {'unwind': 9, 'unwindset': []},
 'fallback': 'ghost-free',
 'assumptions': ['text: every character the grammar automaton has to inspect lies inside the text object (SPEC_NEED in spec/c12_atof_ref.h)',
                 'text object <= 2^30 bytes (int-typed digit count passed to local_pow)',
                 'str != NULL'],
} @*/
#include "vc.h"
#include <math.h>
#include <string.h>
#include "c12_atof_ref.h"
#include "igris/util/numconvert.c"

#define ATOF_T float
#define ATOF_HAS_END 1
#define ATOF_CALL(s, pend) igris_atof32(s, pend)
#include "c12_atof_harness.h"

void harness(void)
{
    WIT(size_t, n);
    WIT_ARR(uchar, content, 6);
    WIT(uchar, want_end);
    WIT(size_t, k);
    c12_atof_check(n, content, want_end, k);
}
