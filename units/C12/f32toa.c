/*@unit {
 'kind': 'proof', 'mode': 'legacy',
 'functions': ['igris_f32toa'],
 'clauses': 'for EVERY binary32 bit pattern (finite with |f| < 2^31, both infinities, every NaN payload) and EVERY int8_t precision (symbolic; -128..127, so -1..12 included): finite => text is -?[0-9]+(\\.[0-9]{P})? with exactly P = requested fraction digits (requests > 10 are clamped to 10, negative = automatic table of the source), "-" exactly when f < 0, integer digit count = digits of floor(|f| + half unit), NUL at text end, returns buf; infinity => "+inf"/"-inf" (inf token, sign of the argument); NaN => "nan"; every access inside a buffer of exactly strlen(text)+1 bytes; the float->int32 and float->char casts stay in range (conversion obligations), so every digit character is in 0..9',
 'inject': [
   {'file': 'igris/util/numconvert.c', 'func': 'igris_f32toa', 'ghost': 'g_w = (unsigned)(ptr - g_buf);', 'at': 'after', 'anchor': "*ptr++ = '.';"},
   {'file': 'igris/util/numconvert.c', 'func': 'igris_f32toa', 'loop': 2, 'expect': 'precision--',
    'assigns': 'ptr, c, f, precision, g_w, __CPROVER_object_whole(g_buf)',
    'invariants': ['f >= 0.0f && f < 1.0f',
                   '0 <= precision && (unsigned)precision <= g_P',
                   'g_w == g_neg + g_nint + 1u + (g_P - (unsigned)precision)',
                   'ptr == g_buf + g_w',
                   'g_k < g_w ==> C12_CHAR_OK(g_buf[g_k], g_k, g_neg, g_nint, g_P)'],
    'decreases': 'precision'},
   {'file': 'igris/util/numconvert.c', 'func': 'igris_f32toa', 'ghost': 'g_w = g_w + 1u;', 'at': 'body-end', 'loop': 2},
 ],
 'unwind': 12,
 'complete_unwinding': 'integer-part loop <= 10 iterations (int32 has at most 10 decimal digits), reversal loop <= 5, strcpy model <= 4 characters: unwound 12 times with unwinding assertions; the fraction-digit loop is closed by an injected invariant (0 <= f < 1 is inductive: one multiplication by 10, one truncation, one exact subtraction per step)',
 'checks_extra': ['--conversion-check', '--float-overflow-check', '--nan-check'],
 'solver': 'cadical',
 'timeout': 280,
 'kf': ['C12_f32toa_range', 'C12_f32toa_inf_return'],
 'witness': {'unwind': 12},
 'assumptions': ['|f| < 2^31 for finite arguments: the supported magnitude range of the property; taken from the code (integer part goes through an int32_t cast); the finite values beyond it are the region of known finding C12_f32toa_range',
                 'IEEE-754 binary32/binary64 arithmetic in round-to-nearest-even, FLT_EVAL_METHOD 0 (cbmc x86_64 model; what gcc/clang generate for x86_64 SSE2 and for AArch64)'],
} @*/
#include "vc.h"
#include <math.h>
#include <string.h>
#include "c12_ftoa.h"
char *g_buf;                       /* start of the text buffer */
unsigned g_k, g_neg, g_nint, g_P;  /* ghost index; expected sign / integer digits / fraction digits (from the spec) */
unsigned g_w;                      /* characters written so far (stepped next to the real *ptr++) */
#include "igris/util/numconvert.c"

void harness(void)
{
    WIT(uint32_t, bits); /* the argument, as a bit pattern: all 2^32 of them */
    WIT(int8_t, prec);   /* every precision */
    WIT(uint, k);        /* ghost index: arbitrary, so a statement about buf[k] is a statement about every character */
    WIT(uint, at_end);   /* alignment of the exact-size window, see C12_EXACT_BUF */
    float f = c12_f32(bits);
    int is_nan = C12_ISNAN32(bits), is_inf = C12_ISINF32(bits);
    int big = !is_nan && !is_inf && !C12_INRANGE32(bits); /* finite, |f| >= 2^31 */
    __CPROVER_assume(KF_C12_f32toa_range == 0 ? 1 : KF_C12_f32toa_range == 1 ? !big : big);
    __CPROVER_assume(KF_C12_f32toa_inf_return == 2 ? is_inf : 1);

    unsigned neg = C12_NEG32(bits) && !is_nan && f != 0.0f; /* f < 0 */
    float a = c12_f32(bits & 0x7fffffffu);                     /* |f| */
    unsigned P = (unsigned)c12_req_prec(prec, a);
    float g = P ? a + (float)c12_half_unit((int)P) : a;       /* the value whose integer part is printed */
    unsigned nint = c12_int_digits(g);
    unsigned total = is_nan ? 3u : is_inf ? 4u : neg + nint + (P ? 1u + P : 0u);
    C12_EXACT_BUF(arr, buf, total + 1, at_end != 0);
    __CPROVER_assume(k <= total);
    g_buf = buf; g_k = k; g_neg = neg; g_nint = nint; g_P = P; g_w = 0;

    char *r = igris_f32toa(f, buf, prec);

    if (is_nan) {
        __CPROVER_assert(buf[0] == 'n' && buf[1] == 'a' && buf[2] == 'n' && buf[3] == 0, "f32toa: NaN renders as the token nan");
        __CPROVER_assert(r == buf, "f32toa(NaN): returns the start of the text");
    } else if (is_inf) {
        __CPROVER_assert(buf[0] == (C12_NEG32(bits) ? '-' : '+') && buf[1] == 'i' && buf[2] == 'n' && buf[3] == 'f' && buf[4] == 0,
                         "f32toa: infinity renders as the token inf with the sign of the argument");
        if (KF_C12_f32toa_inf_return != 1)
            __CPROVER_assert(r == buf, "f32toa(+-inf): returns the start of the text like every other path");
    } else {
        __CPROVER_assert(c12_char_ok(buf[k], k, neg, nint, P),
                         "f32toa: text is -?[0-9]+(.[0-9]{P})? with exactly the requested fraction digits, NUL terminated");
        __CPROVER_assert(r == buf, "f32toa: returns the start of the text");
    }
    CANARY("f32toa harness end reachable");
}
