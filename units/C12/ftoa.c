/*@unit {
 'kind': 'proof', 'mode': 'legacy',
 'functions': ['igris_ftoa', 'igris_f64toa', 'igris_f32toa'],
 'clauses': 'igris_ftoa (the real igris_f32toa inlined): for EVERY binary64 bit pattern d whose binary32 rounding (float)d is finite with |(float)d| < 2^31 (i.e. |d| < 2^31 - 64), both infinities, every NaN payload; the rendered value is (float)d (documented: delegates to the float renderer) and EVERY int8_t precision (symbolic; -128..127, so -1..12 included): finite => text is -?[0-9]+(\\.[0-9]{P})? with exactly P = requested fraction digits (requests > 10 are clamped to 10, negative = automatic table of the source), "-" exactly when f < 0, integer digit count = digits of floor(|f| + half unit), NUL at text end, returns buf; infinity => "+inf"/"-inf" (inf token, sign of the argument); NaN => "nan"; every access inside a buffer of exactly strlen(text)+1 bytes; the float->int32 and float->char casts stay in range (conversion obligations), so every digit character is in 0..9',
 'inject': [
   {'file': 'igris/util/numconvert.c', 'func': 'igris_f32toa', 'ghost': 'g_w = (unsigned)(ptr - g_buf);', 'at': 'after', 'anchor': "*ptr++ = '.';"},
   {'file': 'igris/util/numconvert.c', 'func': 'igris_f32toa', 'loop': 2, 'expect': 'precision--',
    'assigns': 'ptr, c, f, precision, g_w, __CPROVER_object_whole(g_buf)',
    'invariants': ['f >= 0.0f && f < 1.0f',
                   '0 <= precision && (unsigned)precision <= g_P',
                   'g_w == g_neg + g_nint + 1u + (g_P - (unsigned)precision)',
                   'ptr == g_buf + g_w',
                   'g_k < g_w ==> C12_CHAR_OK(g_buf[g_k], g_k, g_neg, g_nint, g_P)'],
    'decreases': 'precision'},
   {'file': 'igris/util/numconvert.c', 'func': 'igris_f32toa', 'ghost': 'g_w = g_w + 1u;', 'at': 'body-end', 'loop': 2},
 ],
 'unwind': 12,
 'complete_unwinding': 'integer-part loop <= 10 iterations (int32 has at most 10 decimal digits), reversal loop <= 5, strcpy model <= 4 characters: unwound 12 times with unwinding assertions; the fraction-digit loop is closed by an injected invariant (0 <= f < 1 is inductive: one multiplication by 10, one truncation, one exact subtraction per step)',
 'checks_extra': ['--conversion-check', '--float-overflow-check', '--nan-check'],
 'solver': 'cadical',
 'timeout': 280,
 'kf': ['C12_f32toa_range', 'C12_f32toa_inf_return'],
 'witness': {'unwind': 12},
 'assumptions': ['|(float)d| < 2^31, i.e. |d| < 2147483584 = 2^31 - 64, for finite arguments (larger finite doubles either hit the int32 cast or overflow binary32 and render as inf): the supported magnitude range of the property; taken from the code (integer part goes through an int32_t cast); the finite values beyond it are the region of known finding C12_f32toa_range',
                 'IEEE-754 binary32/binary64 arithmetic in round-to-nearest-even, FLT_EVAL_METHOD 0 (cbmc x86_64 model; what gcc/clang generate for x86_64 SSE2 and for AArch64)'],
} @*/
#include "vc.h"
#include <math.h>
#include <string.h>
#include "c12_ftoa_harness.h"
#include "igris/util/numconvert.c"

void harness(void)
{
    WIT(uint64_t, dbits); /* the argument, as a bit pattern: all 2^64 of them */
    WIT(int8_t, prec);    /* every precision */
    WIT(uint, k);         /* ghost index: arbitrary, so a statement about buf[k] is a statement about every character */
    WIT(uint, at_end);    /* alignment of the exact-size window, see C12_EXACT_BUF */
    double d = c12_f64(dbits);
    int d_special = ((dbits >> 52) & 0x7ffu) == 0x7ffu;                          /* infinity or NaN */
    int big = !d_special && !(d > -2147483584.0 && d < 2147483584.0);           /* finite, |(float)d| >= 2^31 */
    C12_RANGE_REGION(big);
    uint32_t bits = c12_bits32((float)d); /* the binary32 value that is rendered */
#define FTOA_CALL(b, p) igris_ftoa(d, b, p)
    C12_FTOA_CHECK(bits, big, prec, k, at_end, "ftoa");
}
