/*@unit {
 'kind': 'proof', 'mode': 'legacy',
 'functions': ['debug_printdec_uint64', 'debug_print', 'debug_write', 'debug_strlen'],
 'clauses': 'contract of contracts/c12_dprint_contracts.h for every uint64_t x and every state of the observing acceptor (digit counters below 2^31): the function emits exactly the decimal digits of x (C12_NDIG64(x) characters, all in 0..9; one 0 for x == 0) and nothing else; all accesses inside its 24-byte scratch array',
 'enforce': 'debug_printdec_uint64',
 'unwindset': ['debug_printdec_uint64.0:21', 'debug_strlen.0:22', 'debug_write.0:22'],
 'complete_unwinding': 'digit loop <= 20 iterations (2^64 - 1 has 20 decimal digits), debug_strlen and the library debug_write over that text <= 21: unwound with unwinding assertions',
 'solver': 'kissat',
 'witness': {'unwind': 8},
 'trusted': ['debug_putchar is the platform hook (dprint.h: implemented outside the library); the unit supplies the observing acceptor c12_sink for it'],
 'note': 'debug_printdec_uint64 is anchored in C07 (integer rendering); this unit proves only what the C12 float printer needs from it, in the vocabulary of the C12 observer',
} @*/
#include "vc.h"
#include "c12_dprint.h"
#include <igris/dprint.h>
void debug_putchar(char c) { c12_sink(c); } /* platform hook = observer */
#include "igris/dprint/dprint_manually.c"   /* the library's own (weak) debug_write */
#include "c12_dprint_contracts.h"
#include "igris/dprint/dprint_func_impl.c"

void harness(void)
{
    WIT(uint64_t, x);
    WIT(uint, st);
    WIT(uint, on);
    WIT(uint, id);
    WIT(uint, fd);
    __CPROVER_assume(st <= C12_S_BAD && on <= 1000u && id < 0x7fffffffu && fd < 0x7fffffffu);
#ifdef WITNESS_MODE /* concretisation: small cases only */
    __CPROVER_assume(x < 100000u);
#endif
    g_st = st; g_on = on; g_id = id; g_fd = fd; g_minus = 0;
    debug_printdec_uint64(x);
    /* the contract once more as plain assertions: the concretisation / replay runs are compiled without
     * contract instrumentation and need something to check */
    __CPROVER_assert(!(st == C12_S_START || st == C12_S_SIGN || st == C12_S_INT) || (g_st == C12_S_INT && g_id == id + C12_NDIG64(x) && g_fd == fd),
                     "before the point: only digits emitted, integer digit count grows by the number of decimal digits of x");
    __CPROVER_assert(!(st == C12_S_DOT || st == C12_S_FRAC) || (g_st == C12_S_FRAC && g_fd == fd + C12_NDIG64(x) && g_id == id),
                     "behind the point: only digits emitted, fraction digit count grows by the number of decimal digits of x");
    CANARY("dprint_uint64 harness end reachable");
}
