/*@unit {
 'kind': 'proof', 'mode': 'dfcc',
 'functions': ['igris_u64toa'],
 'clauses': 'for every uint64 value and the given base: text == reference rendering (digits 0-9A-Z, most significant first, no leading zeros), NUL terminated, returned pointer at the NUL, all accesses inside an object of exactly len+1 bytes',
 'params': {'BASE': [10]},
 'params_thorough': {'BASE': [2, 3, 4, 5, 6, 7, 8, 9, 10, 11, 12, 13, 14, 15, 16, 17, 18, 19, 20, 21, 22, 23, 24, 25, 26, 27, 28, 29, 30, 31, 32, 33, 34, 35, 36]},
 'defines': ['UPPER=1'],
 'inject': [
  {'file': 'igris/util/numconvert.c', 'func': 'igris_u64toa', 'ghost': 'g_q = g_mag; g_i = 0;', 'at': 'after', 'anchor': 'int16_t remainder = 0;'},
  {'file': 'igris/util/numconvert.c', 'func': 'igris_u64toa', 'loop': 0, 'expect': 'ud /= base',
   'assigns': 'p, remainder, ud, g_q, g_i, g_refc, __CPROVER_object_whole(buf)',
   'invariants': ['__CPROVER_same_object(p, buf) && p == p1 + g_i',
                  'ud == g_q',
                  'g_i < g_len && SPEC_LEN_IS(g_q, g_len - g_i)',
                  'g_j < g_i ==> p1[g_j] == g_refc',
                  'g_neg ==> buf[0] == 45'],
   'decreases': 'g_len - g_i'},
  {'file': 'igris/util/numconvert.c', 'func': 'igris_u64toa', 'loop': 0, 'at': 'body-begin',
   'ghost': 'g_refc = (g_i == g_j) ? spec_digit_char((unsigned)(g_q % BASE), UPPER) : g_refc; g_q = g_q / BASE; g_i = g_i + 1;'},
  {'file': 'igris/util/numconvert.c', 'func': 'igris_u64toa', 'at': 'after', 'anchor': 'char tmp;',
   'ghost': 'g_s = p1; g_n = (unsigned)(p - p1); g_ma = g_k < g_n ? p1[g_k] : 0; g_mb = g_k < g_n ? p1[g_n - 1 - g_k] : 0;'},
  {'file': 'igris/util/numconvert.c', 'func': 'igris_u64toa', 'loop': 1, 'expect': 'p1 < p2',
   'assigns': 'p1, p2, tmp, __CPROVER_object_whole(buf)',
   'invariants': ['__CPROVER_same_object(p1, buf) && __CPROVER_same_object(p2, buf)',
                  'p1 >= g_s && 2 * (p1 - g_s) <= g_n',
                  'p2 == g_s + ((long)g_n - 1 - (p1 - g_s))',
                  'g_k < g_n ==> g_s[g_k] == ((g_k < p1 - g_s || g_k + (p1 - g_s) > g_n - 1) ? g_mb : g_ma)',
                  'g_s[g_n] == 0',
                  'g_neg ==> buf[0] == 45'],
   'decreases': '(long)g_n - 2 * (p1 - g_s)'},
 ],
} @*/
#include "vc.h"
#include "c07_radix.h"
/* ghost state of the co-simulated reference (d_0 = v mod b, v_1 = v div b, ... until 0) */
uint64_t g_mag, g_q;
unsigned g_i, g_len, g_j, g_neg, g_n, g_k;
char g_refc, g_ma, g_mb, *g_s;
#include "igris/util/numconvert.c"

void harness(void)
{
    WIT(uint64_t, v);
    WIT(uint, k); /* ghost index: arbitrary, so a statement about buf[k] is a statement about every character */
    spec_radix_init(BASE);
    unsigned len = spec_text_len(0, v, BASE);
    char *buf = NEW_OBJ((size_t)len + 1); /* exactly the digits and the NUL: one more write fails a bounds obligation */
    __CPROVER_assume(k <= len);
    g_mag = v; g_len = len; g_neg = 0;
    g_k = k; g_j = len - 1 - k;

    char *r = igris_u64toa(v, buf, BASE);

    __CPROVER_assert(r == buf + len, "u64toa: returned pointer is at the terminator");
    __CPROVER_assert(k == len ? buf[k] == 0 : buf[k] == g_refc, "u64toa: k-th character equals the reference rendering (NUL at k == len)");
    CANARY("u64toa harness end reachable");
}
