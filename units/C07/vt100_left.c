/*@unit {
 'kind': 'proof', 'mode': 'plain',
 'functions': ['vt100_left', 'igris_i32toa', 'igris_i64toa'],
 'clauses': 'vt100_left(buf, n) writes ESC [ <canonical decimal text of n> D NUL for every int n (negative included, as igris_i32toa renders it), returns the length without the NUL, and touches exactly that many bytes plus the NUL',
 'defines': ['UPPER=0', 'BASE=10'],
 'unwindset': ['igris_i64toa.0:66', 'igris_i64toa.1:34'],
 'complete_unwinding': 'digit loop of igris_i64toa: at most 64 iterations (base 2, 64-bit value); unwound 66 times, reversal loop at most 32 swaps: unwound 34 times, both with unwinding assertions; in addition an asserted per-base bound (digits of the largest magnitude of the type) stops symbolic execution early',
 'assumptions': ['little-endian LP64 model of cbmc (x86_64): int 32 bit, long 64 bit'],
 'inject': [
  {'file': 'igris/util/numconvert.c', 'func': 'igris_i64toa', 'ghost': 'g_q = g_mag; g_i = 0;', 'at': 'after', 'anchor': 'int16_t remainder = 0;'},
  {'file': 'igris/util/numconvert.c', 'func': 'igris_i64toa', 'loop': 0, 'at': 'body-begin',
   'ghost': '__CPROVER_assert(g_i < g_maxlen, "digit loop: never more iterations than the largest magnitude of the type has digits"); __CPROVER_assume(g_i < g_maxlen); __CPROVER_assert(ud == g_q, "lock-step: the value being divided is the quotient of the reference (first iteration: the magnitude per the spec)"); g_refc = (g_i == g_j) ? spec_digit_char((unsigned)(ud % BASE), UPPER) : g_refc; g_q = ud / BASE; g_i = g_i + 1;'},
  {'file': 'igris/util/numconvert.c', 'func': 'igris_i64toa', 'at': 'before', 'anchor': "*p = '\\0';",
   'ghost': '__CPROVER_assert(g_i == g_len && p == buf + g_neg + g_len, "digit loop emitted exactly len digits (len per the spec: least n with mag < base^n) and p is behind them"); __CPROVER_assume(g_i == g_len && p == buf + g_neg + g_len);'},
  {'file': 'igris/util/numconvert.c', 'func': 'igris_i64toa', 'at': 'after', 'anchor': 'char tmp;', 'ghost': 'g_t = 0;'},
  {'file': 'igris/util/numconvert.c', 'func': 'igris_i64toa', 'loop': 1, 'at': 'body-begin',
   'ghost': '__CPROVER_assert(2 * g_t < g_maxlen, "reversal loop: never more than maxlen/2 swaps"); __CPROVER_assume(2 * g_t < g_maxlen); g_t = g_t + 1;'},
 ],
 'witness': {'unwind': 70},
 'fallback': 'ghost-free',   # the witness-mode harness recomputes its reference without the ghost statements
} @*/
/* derived from i32toa.c (same injected ghost code): vt100_left calls igris_i32toa(arg, buf + 2, 10) */
#include "vc.h"
#include <limits.h>
#include "c07_toa.h"
#include "igris/util/numconvert.c"
#include <igris/defs/vt100.h>

void harness(void)
{
    WIT(int, v);
    WIT(uint, k);      /* ghost index into the escape sequence */
    WIT(uint, at_end); /* alignment of the exact-size window inside the array, see SPEC_EXACT_BUF */
    spec_radix_init(BASE);
    int neg = v < 0;
    uint64_t mag = spec_magnitude((int64_t)v);
    unsigned len = spec_radix_len(mag, BASE);
    unsigned total = (unsigned)neg + len;  /* characters of the number */
    unsigned seq = 2 + total + 1;          /* ESC [ number D */
    SPEC_EXACT_BUF(arr, buf, seq + 1, at_end != 0);
    __CPROVER_assume(k <= seq);
    g_maxlen = spec_radix_len((uint64_t)1 << 31, BASE);
    g_mag = mag; g_len = len; g_neg = (unsigned)neg;
    unsigned kn = k - 2; /* position inside the number */
    g_k = (k >= 2 + (unsigned)neg && k < 2 + total) ? kn - (unsigned)neg : len;
    g_j = len - 1 - g_k;

    int r = vt100_left(buf, v);

#ifdef WITNESS_MODE
    char expect = k == 0 ? '\x1B' : k == 1 ? '[' : k == seq - 1 ? 'D' : k == seq ? '\0' : spec_text_char(neg, mag, BASE, UPPER, kn);
#else
    __CPROVER_assert(g_i == len, "vt100_left: as many digits as the reference");
    char expect = k == 0 ? '\x1B' : k == 1 ? '[' : k == seq - 1 ? 'D' : k == seq ? '\0' : kn < (unsigned)neg ? '-' : g_refc;
#endif
    __CPROVER_assert(r == (int)seq, "vt100_left: returns the length of the sequence without the NUL");
    __CPROVER_assert(buf[k] == expect, "vt100_left: ESC [ <decimal> D NUL, k-th character");
    CANARY("vt100_left harness end reachable");
}
