/*@unit {
 'kind': 'proof', 'mode': 'plain',
 'functions': ['igris_u64toa', 'igris_atou64'],
 'clauses': 'round trip: for every uint64 value, igris_atou64(igris_u64toa(v)) in the same base returns v and *end is at the NUL; the text lives in an object of exactly len+1 bytes (no over-read by the parser)',
 'params': {'BASE': [10, 16]},
 'params_thorough': {'BASE': [2, 3, 4, 5, 6, 7, 8, 9, 10, 11, 12, 13, 14, 15, 16, 17, 18, 19, 20, 21, 22, 23, 24, 25, 26, 27, 28, 29, 30, 31, 32, 33, 34, 35, 36]},
 'defines': ['UPPER=1'],
 'unwindset': ['igris_u64toa.0:66', 'igris_u64toa.1:34', 'igris_atou64.0:66'],
 'complete_unwinding': 'all three loops are bounded by the number of digits of a 64-bit value (<= 64)',
 'kf': ['C07_atou_end', 'C07_atou_base_digits', 'C07_hex2half_lowercase'],
 'kf_probe_case': {'C07_atou_end': {'BASE': 10}, 'C07_atou_base_digits': {'BASE': -1}, 'C07_hex2half_lowercase': {'BASE': -1}},
 'inject': [
  {'file': 'igris/util/numconvert.c', 'func': 'igris_u64toa', 'ghost': 'g_i = 0;', 'at': 'after', 'anchor': 'int16_t remainder = 0;'},
  {'file': 'igris/util/numconvert.c', 'func': 'igris_u64toa', 'loop': 0, 'at': 'body-begin',
   'ghost': '__CPROVER_assert(g_i < g_maxlen, "digit loop: never more iterations than the largest magnitude of the type has digits"); __CPROVER_assume(g_i < g_maxlen); g_i = g_i + 1;'},
  {'file': 'igris/util/numconvert.c', 'func': 'igris_u64toa', 'at': 'after', 'anchor': 'char tmp;', 'ghost': 'g_t = 0;'},
  {'file': 'igris/util/numconvert.c', 'func': 'igris_u64toa', 'loop': 1, 'at': 'body-begin',
   'ghost': '__CPROVER_assert(2 * g_t < g_maxlen, "reversal loop: never more than maxlen/2 swaps"); __CPROVER_assume(2 * g_t < g_maxlen); g_t = g_t + 1;'},
  {'file': 'igris/util/numconvert.c', 'func': 'igris_atou64', 'at': 'func-begin', 'ghost': 'g_t = 0;'},
  {'file': 'igris/util/numconvert.c', 'func': 'igris_atou64', 'loop': 0, 'at': 'body-begin',
   'ghost': '__CPROVER_assume(KF_C07_atou_base_digits != 1 || SPEC_IS_DIGIT_OF(c, base)); __CPROVER_assume(KF_C07_hex2half_lowercase != 1 || !(c >= 97 && c <= 122)); __CPROVER_assert(g_t < g_maxlen, "parser loop: never more iterations than digits"); __CPROVER_assume(g_t < g_maxlen); g_t = g_t + 1;'},
  {'file': 'igris/util/numconvert.c', 'func': 'igris_atou64', 'at': 'before', 'anchor': 'if (end)',
   'ghost': '__CPROVER_assume(KF_C07_atou_base_digits != 1 || !SPEC_IS_DIGIT_OF(*buf, base));'},
 ],
 'witness': {'unwind': 70},
} @*/
#include "vc.h"
#include "c07_toa.h"
#include "igris/util/numconvert.c"

void harness(void)
{
    WIT(uint64_t, v);
    WIT(uint, at_end);
    WIT(uint, want_end);
    spec_radix_init(BASE);
    unsigned len = spec_radix_len(v, BASE);
    SPEC_EXACT_BUF(arr, buf, len + 1, at_end != 0);
    g_maxlen = spec_radix_len(UINT64_MAX, BASE);
    __CPROVER_assume(KF_C07_atou_end == 0 ? 1 : KF_C07_atou_end == 1 ? !(want_end != 0) : (want_end != 0));

    char *r = igris_u64toa(v, buf, BASE);
    char *end = 0;
    uint64_t back = igris_atou64(buf, BASE, want_end ? &end : 0);

    __CPROVER_assert(back == v, "round trip: parsing the rendered text returns the original value");
    __CPROVER_assert(!want_end || end == r, "round trip: *end is at the terminator");
    CANARY("roundtrip_u64 harness end reachable");
}
