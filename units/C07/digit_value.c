/*@unit {
 'kind': 'proof', 'mode': 'plain',
 'functions': ['hex2half', 'half2hex', 'hex2byte', 'igris_isdigit', 'igris_isxdigit', 'igris_isalpha', 'igris_isalnum', 'igris_isupper', 'igris_islower', 'igris_toupper', 'igris_tolower', 'igris_isspace', 'igris_isblank'],
 'clauses': 'the digit alphabet the parsers rely on: hex2half(c) is the digit value of every alphanumeric character (0-9 -> 0..9, a-z and A-Z -> 10..35: igris_atou32/64 use it for bases up to 36); half2hex is its inverse on 0..15 (upper case); hex2byte(hi, lo) == 16*value(hi) + value(lo) for hex digits; the igris_isX and igris_toX classifiers agree with ISO C 7.4 in the "C" locale for every int argument in the unsigned char range and EOF',
 'kf': ['C18_hex2half_lowercase'],
 'witness': {'unwind': 2},
} @*/
#include "vc.h"
#include "c07_radix.h"
#include <igris/util/ctype.h>
#include <igris/util/hexascii.h>

void harness(void)
{
    WIT(char, c);
    WIT(char, lo);
    WIT(uint8_t, n);
    WIT(int, i);
    /* known finding C18_hex2half_lowercase (shared with property C18): lower-case letters */
    __CPROVER_assume(KF_C18_hex2half_lowercase == 0 ? 1 : KF_C18_hex2half_lowercase == 1 ? !((c >= 'a' && c <= 'z') || (lo >= 'a' && lo <= 'z')) : (c >= 'a' && c <= 'z'));

    if (SPEC_DIGIT_VALUE(c) != SPEC_NODIGIT)
        __CPROVER_assert(hex2half(c) == SPEC_DIGIT_VALUE(c), "hex2half: digit value of every alphanumeric character, either case");
    if (n < 16) {
        __CPROVER_assert(half2hex(n) == spec_digit_char(n, 1), "half2hex: upper-case hex digit of a nibble");
        __CPROVER_assert(hex2half(half2hex(n)) == n, "hex2half inverts half2hex");
    }
    if (SPEC_IS_DIGIT_OF(c, 16) && SPEC_IS_DIGIT_OF(lo, 16))
        __CPROVER_assert(hex2byte(c, lo) == 16 * SPEC_DIGIT_VALUE(c) + SPEC_DIGIT_VALUE(lo), "hex2byte: 16*value(hi) + value(lo)");

    /* ISO C 7.4, "C" locale; argument representable as unsigned char or EOF */
    __CPROVER_assume(i >= -1 && i <= 255);
    int up = i >= 'A' && i <= 'Z', low = i >= 'a' && i <= 'z', dig = i >= '0' && i <= '9';
    __CPROVER_assert(!!igris_isdigit(i) == dig, "isdigit: 0-9");
    __CPROVER_assert(!!igris_isxdigit(i) == (dig || (i >= 'a' && i <= 'f') || (i >= 'A' && i <= 'F')), "isxdigit: 0-9a-fA-F");
    __CPROVER_assert(!!igris_isupper(i) == up && !!igris_islower(i) == low, "isupper / islower");
    __CPROVER_assert(!!igris_isalpha(i) == (up || low) && !!igris_isalnum(i) == (up || low || dig), "isalpha / isalnum");
    __CPROVER_assert(igris_toupper(i) == (low ? i - 'a' + 'A' : i) && igris_tolower(i) == (up ? i - 'A' + 'a' : i), "toupper / tolower");
    __CPROVER_assert(!!igris_isspace(i) == (i == ' ' || (i >= '\t' && i <= '\r')), "isspace: space, \\t \\n \\v \\f \\r");
    __CPROVER_assert(!!igris_isblank(i) == (i == ' ' || i == '\t'), "isblank: space, tab");
    CANARY("digit_value harness end reachable");
}
