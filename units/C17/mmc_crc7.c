/*@unit {
 'kind': 'proof', 'mode': 'legacy',
 'functions': ['igris_mmc_crc7'],
 'clauses': 'igris_mmc_crc7(message,length) == CRC-7/MMC (x^7+x^3+1, MSB first, INIT 0) of message[0..length), for every content and length 0..255; result < 128; reads only message[0..length); writes nothing',
 'inject': [
   {'file': 'igris/util/crc.c', 'func': 'igris_mmc_crc7', 'loop': 0, 'expect': 'for (',
    'assigns': 'i, crc, g_i, g_reg',
    'invariants': ['g_i <= g_n && g_n == length && i == g_i',
                   'g_reg <= 0x7F && crc == (uint8_t)(g_reg << 1)'],
    'decreases': 'g_n - g_i'},
   {'file': 'igris/util/crc.c', 'func': 'igris_mmc_crc7', 'ghost': 'g_reg = SPEC_MMC7_BYTE(g_reg, g_data[g_i]); g_i++;', 'at': 'body-begin', 'loop': 0},
 ],
 'unwindset': ['igris_mmc_crc7.0:9', 'spec_crc_byte.0:9'],
 'complete_unwinding': 'inner bit loop of igris_mmc_crc7 (8 rounds) and the 8-round loop of the reference are unwound completely (unwinding assertions on)',
 'fallback': 'ghost-free',
 'witness': {'unwind': 330, 'defines': ['VC_WIT_MAXOBJ=40']},   # lengths up to 40 bytes = 320 bit steps: covers a single-pass loop over the bit stream too
} @*/
#include "vc.h"
#include "c17_crc_ref.h"
const uint8_t *g_data; /* ghost: the message object */
size_t g_n;            /* ghost: its length */
size_t g_i;            /* ghost: number of bytes folded so far */
uint32_t g_reg;        /* ghost: reference register (7 bits) */
#include "igris/util/crc.c"

void harness(void)
{
    WIT(uint8_t, n);
    WIT_ARR(uint8_t, content, 40);
    __CPROVER_assume(n <= VC_MAXOBJ); /* no restriction in proof mode (2^40 > range of the length type); small sizes in witness mode */
    uint8_t *data = NEW_OBJ_FB(n); /* exact size: a read outside data[0..n) fails (fixed size in the cbmc fallback run, see vc.h) */
    FILL(data, (size_t)n, content);
    WIT(size_t, k);
    uint8_t at_k = k < n ? data[k] : 0;
    g_data = data; g_n = n; g_i = 0;
    g_reg = 0; /* INIT of CRC-7/MMC */

    uint8_t r = igris_mmc_crc7(data, n);

#if !VC_FALLBACK
    __CPROVER_assert(g_i == n, "reference folded exactly message[0..n), in order");
    __CPROVER_assert(r == g_reg && r < 128, "igris_mmc_crc7 == reference CRC-7/MMC of message[0..n)");
#endif
#ifdef WITNESS_MODE
    /* direct reference over the (small, concrete) message: does not depend on the injected ghost fold, so it also
       decides the bounded fallback run when the loop the ghost statements anchor in has been restructured */
    __CPROVER_assert(r == (uint8_t)spec_crc_fold(7, 0x09u, 0, 0, data, n) && r < 128, "igris_mmc_crc7 == reference CRC-7/MMC (direct fold)");
#endif
    __CPROVER_assert(!(k < n) || data[k] == at_k, "igris_mmc_crc7 does not modify the message");
    CANARY("mmc_crc7 harness end reachable");
}
