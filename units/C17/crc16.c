/*@unit {
 'kind': 'proof', 'mode': 'legacy',
 'functions': ['igris_crc16'],
 'clauses': 'igris_crc16(data,length,seed) == CRC-16/CCITT (x^16+x^12+x^5+1, MSB first, no reflection) of data[0..length) continued from the running value seed, for every seed, content and length 0..65535; reads only data[0..length); writes nothing',
 'inject': [
   {'file': 'igris/util/crc.c', 'func': 'igris_crc16', 'loop': 0, 'expect': 'while (length',
    'assigns': 'length, data_p, crc, x, g_i, g_reg',
    'invariants': ['g_i <= g_n && g_n <= 65535 && length == g_n - g_i',
                   '__CPROVER_same_object(data_p, g_data) && data_p == g_data + g_i',
                   'g_reg <= 0xFFFF && crc == g_reg'],
    'decreases': 'g_n - g_i'},
   {'file': 'igris/util/crc.c', 'func': 'igris_crc16', 'ghost': 'g_reg = SPEC_CCITT16_BYTE(g_reg, g_data[g_i]); g_i++;', 'at': 'body-begin', 'loop': 0},
 ],
 'unwindset': ['spec_crc_byte.0:9'],
 'complete_unwinding': 'the 8-round loop of the reference is unwound completely (unwinding assertions on)',
 'fallback': 'ghost-free',
 'witness': {'unwind': 10},
} @*/
#include "vc.h"
#include "c17_crc_ref.h"
const uint8_t *g_data; /* ghost: the message object */
size_t g_n;            /* ghost: its length */
size_t g_i;            /* ghost: number of bytes folded so far */
uint32_t g_reg;        /* ghost: reference register */
#include "igris/util/crc.c"

void harness(void)
{
    WIT(uint16_t, n);
    WIT(uint16_t, seed);
    WIT_ARR(uint8_t, content, 6);
    __CPROVER_assume(n <= VC_MAXOBJ); /* no restriction in proof mode (2^40 > range of the length type); small sizes in witness mode */
    uint8_t *data = NEW_OBJ(n); /* exact size: a read outside data[0..n) fails */
    FILL(data, (size_t)n, content);
    WIT(size_t, k);
    uint8_t at_k = k < n ? data[k] : 0;
    g_data = data; g_n = n; g_i = 0;
    g_reg = seed;

    uint16_t r = igris_crc16(data, n, seed);

#if !VC_FALLBACK
    __CPROVER_assert(g_i == n, "reference folded exactly data[0..n), in order");
    __CPROVER_assert(r == g_reg, "igris_crc16 == reference CRC-16/CCITT of data[0..n) from seed");
#endif
#ifdef WITNESS_MODE
    /* direct reference over the (small, concrete) message: does not depend on the injected ghost fold, so it also
       decides the bounded fallback run when the loop the ghost statements anchor in has been restructured */
    __CPROVER_assert(r == (uint16_t)spec_crc_fold(16, 0x1021u, 0, seed, data, n), "igris_crc16 == reference CRC-16/CCITT (direct fold)");
#endif
    __CPROVER_assert(!(k < n) || data[k] == at_k, "igris_crc16 does not modify the message");
    CANARY("crc16 harness end reachable");
}
