/*@unit {
 'kind': 'bounded', 'bound': 'message length n <= 12 bytes (3 words), every split point, every content and seed',
 'mode': 'plain',
 'functions': ['igris_crc32'],
 'clauses': 'bounded stand-in, real code against real code without any reference: igris_crc32(data+split, n-split, igris_crc32(data, split, seed)) == igris_crc32(data, n, seed) for every split that is a multiple of 4. The unbounded statement is unit crc32_continue; this unit exists to exhibit known finding C17_crc32_piecewise as a concrete value difference (probe region split % 4 != 0) and to cross-check the fold argument end to end. Object has 3 spare bytes (tail over-read is the other finding)',
 'unwind': 4,
 'kf': ['C17_crc32_piecewise'],
 'witness': {'unwind': 4, 'defines': ['VC_WIT_N=12']},
} @*/
#include "vc.h"
#include "igris/util/crc.c"

void harness(void)
{
    WIT(uint32_t, n);
    WIT(uint32_t, split);
    WIT(uint32_t, seed);
    WIT_ARR(uint8_t, content, 15);
    __CPROVER_assume(n <= 12 && split <= n);
    __CPROVER_assume(KF_C17_crc32_piecewise == 0 ? 1 : KF_C17_crc32_piecewise == 1 ? split % 4 == 0 : split % 4 != 0);
    uint8_t *data = NEW_OBJ((size_t)n + 3);
    FILL(data, (size_t)n + 3, content);

    uint32_t one = igris_crc32(data, n, seed);
    uint32_t r1 = igris_crc32(data, split, seed);
    uint32_t two = igris_crc32(data + split, n - split, r1);

    __CPROVER_assert(two == one, "igris_crc32 in two pieces with the running value as seed == igris_crc32 in one shot");
    CANARY("crc32_piecewise_direct harness end reachable");
}
