/*@unit {
 'kind': 'proof', 'mode': 'legacy',
 'functions': ['igris_crc32'],
 'clauses': 'igris_crc32(data,length,seed) == reference CRC-32 (poly 0x04C11DB7, MSB first, no reflection, no final xor) of data[0..length) taken as little-endian 32-bit words, a last group of 1..3 bytes zero-extended, continued from the running value seed, for every seed, content and length 0..2^32-1; reads only data[0..length); writes nothing',
 'inject': [
   {'file': 'igris/util/crc.c', 'func': 'igris_crc32', 'loop': 0, 'expect': 'for (',
    'assigns': 'i, crc, g_i, g_reg',
    'invariants': ['g_i <= g_n && g_n == g_off + bodySize && g_i == g_off + i',
                   'crc == g_reg'],
    'decreases': 'g_n - g_i'},
   {'file': 'igris/util/crc.c', 'func': 'igris_crc32',
    'ghost': 'g_reg = spec_crc32_word(g_reg, g_data[4 * g_i], g_data[4 * g_i + 1], g_data[4 * g_i + 2], g_data[4 * g_i + 3]); g_i++;',
    'at': 'body-begin', 'loop': 0},
 ],
 'unwindset': ['spec_crc_byte.0:9'],
 'complete_unwinding': 'the 8-round loop of the reference is unwound completely (unwinding assertions on)',
 'kf': ['C17_crc32_tail_overread'],
 'cbmc_flags': ['--sat-solver', 'cadical'],
 'witness': {'unwind': 10},
 'native_probes': [{'n': 4, 'mis': 1, 'seed': 0, 'k': 0, 'content': '{1, 2, 3, 4, 5, 6}'}, {'n': 4, 'mis': 2, 'seed': 7, 'k': 0, 'content': '{1, 2, 3, 4, 5, 6}'},
                   {'n': 5, 'mis': 3, 'seed': 0, 'k': 0, 'content': '{1, 2, 3, 4, 5, 6}'}, {'n': 6, 'mis': 1, 'seed': 0, 'k': 0, 'content': '{1, 2, 3, 4, 5, 6}'}],
 'bound': 'native probes: 4 sample messages (lengths 4, 4, 5, 6) at misaligned start addresses (1, 2, 3 bytes past a 16-byte boundary) under clang -fsanitize=address,undefined: stands in for the clause that no typed wide load is made through the message pointer',
} @*/
#include "vc.h"
#include "c17_crc_ref.h"
const uint8_t *g_data; /* ghost: the message object */
size_t g_off;          /* ghost: word index in g_data of the piece being fed (0: one shot) */
size_t g_n;            /* ghost: word index of the end of the whole words of the piece */
size_t g_i;            /* ghost: number of words folded so far */
uint32_t g_reg;        /* ghost: reference register */
#include "igris/util/crc.c"

void harness(void)
{
    WIT(uint32_t, n);
    WIT(uint32_t, seed);
    WIT_ARR(uint8_t, content, 6);
    /* known finding C17_crc32_tail_overread: a 1..3-byte tail is fetched as a whole 32-bit word */
    __CPROVER_assume(KF_C17_crc32_tail_overread == 0 ? 1 : KF_C17_crc32_tail_overread == 1 ? n % 4 == 0 : n % 4 != 0);
    __CPROVER_assume(n <= VC_MAXOBJ); /* no restriction in proof mode (2^40 > range of the length type); small sizes in witness mode */
    /* the message may start at any alignment: mis in 0..3 bytes into an exact-size object ('no routine needs an aligned
     * buffer'; cbmc has no alignment check - the native probes of this unit run misaligned starts under UBSan) */
    WIT(size_t, mis);
    __CPROVER_assume(mis <= 3);
    uint8_t *base = NEW_OBJ((size_t)n + mis);
    uint8_t *data = base + mis; /* exact size at the end: a read beyond data[n-1] fails; mis == 0: a read before data[0] fails */
    FILL(data, (size_t)n, content);
    WIT(size_t, k);
    uint8_t at_k = k < n ? data[k] : 0;
    g_data = data; g_off = 0; g_n = n / 4; g_i = 0;
    g_reg = seed;

    uint32_t r = igris_crc32(data, n, seed);

    __CPROVER_assert(g_i == n / 4, "reference folded exactly the n/4 whole words of data, in order");
    uint32_t t = n % 4, b = n - t;
    uint32_t expect = t == 0 ? g_reg
                             : spec_crc32_word(g_reg, data[b], t > 1 ? data[b + 1] : 0, t > 2 ? data[b + 2] : 0, 0);
    __CPROVER_assert(r == expect, "igris_crc32 == reference CRC-32 of data[0..n) by little-endian words, zero-extended tail, from seed");
    __CPROVER_assert(!(k < n) || data[k] == at_k, "igris_crc32 does not modify the message");
    CANARY("crc32 harness end reachable");
}
