/*@unit {
 'kind': 'proof', 'mode': 'legacy',
 'functions': ['igris_crc8'],
 'clauses': 'igris_crc8 fed data[0..split) and then data[split..n) with the first result as seed == the reference fold over the whole data[0..n) from seed (= the one-shot value by unit crc8), for every split <= n <= 255, seed and content; each call reads only its own piece',
 'inject': [
   {'file': 'igris/util/crc.c', 'func': 'igris_crc8', 'loop': 0, 'expect': 'while (len',
    'assigns': 'len, addr, crc, g_i, g_reg',
    'invariants': ['g_i <= g_n && g_n <= 255 && len == g_n - g_i',
                   '__CPROVER_same_object(addr, g_data) && addr == g_data + g_i',
                   'g_reg <= 0xFF && crc == SPEC_REFLECT8(g_reg)'],
    'decreases': 'g_n - g_i'},
   {'file': 'igris/util/crc.c', 'func': 'igris_crc8', 'ghost': 'g_reg = SPEC_DOW8_BYTE(g_reg, g_data[g_i]); g_i++;', 'at': 'body-begin', 'loop': 0},
 ],
 'unwindset': ['igris_crc8.0:9', 'spec_crc_byte.0:9'],
 'complete_unwinding': 'inner bit loop of igris_crc8 (8 rounds) and the 8-round loops of the reference are unwound completely (unwinding assertions on)',
 'witness': {'unwind': 10},
} @*/
#include "vc.h"
#include "c17_crc_ref.h"
const uint8_t *g_data; /* ghost: the message object */
size_t g_n;            /* ghost: end of the piece being fed */
size_t g_i;            /* ghost: number of bytes folded so far (never reset between the two calls) */
uint32_t g_reg;        /* ghost: reference register (never reset between the two calls) */
#include "igris/util/crc.c"

void harness(void)
{
    WIT(uint8_t, n);
    WIT(uint8_t, split);
    WIT(uint8_t, seed);
    WIT_ARR(uint8_t, content, 6);
    __CPROVER_assume(split <= n); /* a split point of the message */
    __CPROVER_assume(n <= VC_MAXOBJ); /* no restriction in proof mode (2^40 > range of the length type); small sizes in witness mode */
    uint8_t *data = NEW_OBJ(n); /* exact size: a read outside data[0..n) fails */
    FILL(data, (size_t)n, content);
    g_data = data; g_i = 0;
    g_reg = SPEC_DOW8_REG_OF(seed);

    g_n = split;
    uint8_t r1 = igris_crc8(data, split, seed);
    __CPROVER_assert(g_i == split && r1 == SPEC_DOW8_OUT(g_reg), "first piece: running value == reference over data[0..split)");

    g_n = n;
    uint8_t r2 = igris_crc8(data + split, (uint8_t)(n - split), r1);

    __CPROVER_assert(g_i == n, "reference folded exactly data[0..n), in order, across both calls");
    __CPROVER_assert(r2 == SPEC_DOW8_OUT(g_reg), "igris_crc8 fed in two pieces with the running value as seed == one-shot reference over data[0..n) from seed");
    CANARY("igris_crc8 piecewise harness end reachable");
}
