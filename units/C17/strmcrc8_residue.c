/*@unit {
 'kind': 'proof', 'mode': 'plain',
 'functions': ['igris_strmcrc8'],
 'clauses': 'residue lemma (shared with C04): igris_strmcrc8 of a running value R fed the byte R leaves 0, for all 256 R -- hence a message followed by its own streaming CRC-8 leaves 0 whatever the seed and the message (the running value after the message is some R; the next byte is that R); conversely the only byte that leaves 0 after R is R itself (a corrupted CRC byte is always detected)',
 'unwind': 9,
 'complete_unwinding': 'the bit loop of igris_strmcrc8 has exactly 8 rounds; --unwind 9 with unwinding assertions',
 'witness': {'unwind': 9},
} @*/
#include "vc.h"
#include <igris/util/crc.h>

void harness(void)
{
    WIT(uint8_t, run); /* running value after an arbitrary message from an arbitrary seed */
    WIT(uint8_t, other);
    uint8_t crc = run;

    igris_strmcrc8(&crc, (char)run);
    __CPROVER_assert(crc == 0, "residue: strmcrc8 of the running value R fed R is 0, for every R");

    crc = run;
    igris_strmcrc8(&crc, (char)other);
    __CPROVER_assert(crc != 0 || other == run, "only the byte R itself leaves residue 0 after running value R");
    CANARY("strmcrc8_residue harness end reachable");
}
