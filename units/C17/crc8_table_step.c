/*@unit {
 'kind': 'proof', 'mode': 'plain',
 'functions': ['igris_crc8_table', 'igris_crc8'],
 'clauses': 'lemma table-driven == bit-serial, directly on the two real routines: for all 65536 (running value, byte) pairs igris_crc8_table(&b,1,s) == igris_crc8(&b,1,s) == one reference Dallas CRC-8 byte step; and each of the 32 entries of dscrc2x16_table is the reference CRC-8 of the byte i (low-nibble half) resp. i<<4 (high-nibble half) from seed 0, i.e. the table is the one the definition prescribes. Equality on whole messages: units crc8 and crc8_table prove both routines equal to the same reference fold',
 'unwind': 17,
 'complete_unwinding': 'length loops run once (len == 1), bit loops 8 rounds, table walk 16 rounds; --unwind 17 with unwinding assertions',
 'witness': {'unwind': 17},
} @*/
#include "vc.h"
#include "c17_crc_ref.h"
#include "igris/util/crc.c"

void harness(void)
{
    WIT(uint8_t, run);
    WIT(uint8_t, byte);
    uint8_t *b = NEW_OBJ(1);
    *b = byte;

    uint8_t rt = igris_crc8_table(b, 1, run);
    uint8_t rb = igris_crc8(b, 1, run);
    uint8_t ref = SPEC_DOW8_OUT(SPEC_DOW8_BYTE(SPEC_DOW8_REG_OF(run), byte));

    __CPROVER_assert(rt == rb, "one byte: table-driven CRC-8 == bit-serial CRC-8 for every (running value, byte)");
    __CPROVER_assert(rb == ref, "one byte: bit-serial CRC-8 == reference Dallas CRC-8 step");

    for (unsigned i = 0; i < 16; i++) {
        __CPROVER_assert(dscrc2x16_table[i] == SPEC_DOW8_OUT(SPEC_DOW8_BYTE(0, (uint8_t)i)), "table[i] == reference CRC-8 of byte i from 0");
        __CPROVER_assert(dscrc2x16_table[16 + i] == SPEC_DOW8_OUT(SPEC_DOW8_BYTE(0, (uint8_t)(i << 4))), "table[16+i] == reference CRC-8 of byte i<<4 from 0");
    }
    CANARY("crc8_table_step harness end reachable");
}
