/*@unit {
 'kind': 'proof', 'mode': 'plain',
 'functions': ['igris_strmcrc8'],
 'clauses': 'one call of igris_strmcrc8(&crc,c) == eight bit steps of the reference CRC-8 x^8+x^5+x^4+1, MSB first, on the running value, for all 65536 (running value, byte) pairs (char signedness included); touches only the one byte *crc',
 'unwind': 9,
 'complete_unwinding': 'the bit loop of igris_strmcrc8 and the loop of the reference have exactly 8 rounds; --unwind 9 with unwinding assertions',
 'witness': {'unwind': 9},
} @*/
#include "vc.h"
#include "c17_crc_ref.h"
#include <igris/util/crc.h>

void harness(void)
{
    WIT(uint8_t, run);
    WIT(char, c);
    uint8_t *crc = NEW_OBJ(1); /* exact size: the routine may touch this one byte only */
    *crc = run;

    igris_strmcrc8(crc, c);

    __CPROVER_assert(*crc == SPEC_STRM8_BYTE(run, (uint8_t)c), "igris_strmcrc8 step == 8 reference bit steps (poly 0x31, MSB first)");
    CANARY("strmcrc8 harness end reachable");
}
