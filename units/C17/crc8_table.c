/*@unit {
 'kind': 'proof', 'mode': 'legacy',
 'functions': ['igris_crc8_table'],
 'clauses': 'igris_crc8_table(addr,len,seed) == Dallas/Maxim CRC-8 (x^8+x^5+x^4+1, REFIN=REFOUT=1) of addr[0..len) continued from seed, for every seed, content and len 0..255 -- the same reference unit crc8 proves igris_crc8 equal to, hence table-driven == bit-serial on every input; reads only addr[0..len) and the 32-entry table; writes nothing',
 'inject': [
   {'file': 'igris/util/crc.c', 'func': 'igris_crc8_table', 'loop': 0, 'expect': 'while (len',
    'assigns': 'len, addr, crc, g_i, g_reg',
    'invariants': ['g_i <= g_n && g_n <= 255 && len == g_n - g_i',
                   '__CPROVER_same_object(addr, g_data) && addr == g_data + g_i',
                   'g_reg <= 0xFF && crc == SPEC_REFLECT8(g_reg)'],
    'decreases': 'g_n - g_i'},
   {'file': 'igris/util/crc.c', 'func': 'igris_crc8_table', 'ghost': 'g_reg = SPEC_DOW8_BYTE(g_reg, g_data[g_i]); g_i++;', 'at': 'body-begin', 'loop': 0},
 ],
 'unwindset': ['spec_crc_byte.0:9'],
 'complete_unwinding': 'the 8-round loops of the reference are unwound completely (unwinding assertions on)',
 'fallback': 'ghost-free',
 'witness': {'unwind': 10},
} @*/
#include "vc.h"
#include "c17_crc_ref.h"
const uint8_t *g_data; /* ghost: the message object */
size_t g_n;            /* ghost: its length */
size_t g_i;            /* ghost: number of bytes folded so far */
uint32_t g_reg;        /* ghost: reference register (normal orientation) */
#include "igris/util/crc.c"

void harness(void)
{
    WIT(uint8_t, n);
    WIT(uint8_t, seed);
    WIT_ARR(uint8_t, content, 6);
    __CPROVER_assume(n <= VC_MAXOBJ); /* no restriction in proof mode (2^40 > range of the length type); small sizes in witness mode */
    uint8_t *data = NEW_OBJ(n); /* exact size: a read outside data[0..n) fails */
    FILL(data, (size_t)n, content);
    WIT(size_t, k);
    uint8_t at_k = k < n ? data[k] : 0;
    g_data = data; g_n = n; g_i = 0;
    g_reg = SPEC_DOW8_REG_OF(seed);

    uint8_t r = igris_crc8_table(data, n, seed);

#if !VC_FALLBACK
    __CPROVER_assert(g_i == n, "reference folded exactly data[0..n), in order");
    __CPROVER_assert(r == SPEC_DOW8_OUT(g_reg), "igris_crc8_table == reference Dallas CRC-8 of data[0..n) from seed");
#endif
#ifdef WITNESS_MODE
    /* direct reference over the (small, concrete) message: does not depend on the injected ghost fold, so it also
       decides the bounded fallback run when the loop the ghost statements anchor in has been restructured */
    __CPROVER_assert(r == (uint8_t)spec_crc_out(8, 1, spec_crc_fold(8, 0x31u, 1, SPEC_DOW8_REG_OF(seed), data, n)), "igris_crc8_table == reference Dallas CRC-8 (direct fold)");
#endif
    __CPROVER_assert(!(k < n) || data[k] == at_k, "igris_crc8_table does not modify the message");
    CANARY("crc8_table harness end reachable");
}
