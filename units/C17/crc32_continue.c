/*@unit {
 'kind': 'proof', 'mode': 'legacy',
 'functions': ['igris_crc32'],
 'clauses': 'piecewise feeding of igris_crc32, from the fold form: a call on ANY piece data[start..start+len) of a message, with ANY running value as seed, advances one and the same word-wise reference fold over the message by exactly len/4 words (and returns it, a 1..3-byte end of the piece zero-extended), provided the piece starts at a multiple of 4. Chaining calls whose pieces are contiguous, each a multiple of 4 long except the last, therefore reproduces the one-shot value (the ghost state at the end of one call is the ghost state the next call starts from); start = 0 is the one-shot case. Pieces starting at other offsets are known finding C17_crc32_piecewise. Object has 3 spare bytes so that the other finding (tail over-read) does not interfere; values only',
 'inject': [
   {'file': 'igris/util/crc.c', 'func': 'igris_crc32', 'loop': 0, 'expect': 'for (',
    'assigns': 'i, crc, g_i, g_reg',
    'invariants': ['g_i <= g_n && g_n == g_off + bodySize && g_i == g_off + i',
                   'crc == g_reg'],
    'decreases': 'g_n - g_i'},
   {'file': 'igris/util/crc.c', 'func': 'igris_crc32',
    'ghost': 'g_reg = spec_crc32_word(g_reg, g_data[4 * g_i], g_data[4 * g_i + 1], g_data[4 * g_i + 2], g_data[4 * g_i + 3]); g_i++;',
    'at': 'body-begin', 'loop': 0},
 ],
 'unwindset': ['spec_crc_byte.0:9'],
 'complete_unwinding': 'the 8-round loop of the reference is unwound completely (unwinding assertions on)',
 'kf': ['C17_crc32_piecewise'],
 'cbmc_flags': ['--sat-solver', 'cadical'],
 'witness': {'unwind': 10},
} @*/
#include "vc.h"
#include "c17_crc_ref.h"
const uint8_t *g_data; /* ghost: the whole message object */
size_t g_off;          /* ghost: word index in g_data of the piece being fed */
size_t g_n;            /* ghost: word index of the end of the whole words of the piece */
size_t g_i;            /* ghost: number of message words folded so far */
uint32_t g_reg;        /* ghost: reference register */
#include "igris/util/crc.c"

void harness(void)
{
    WIT(uint32_t, n);     /* message length */
    WIT(uint32_t, start); /* the piece fed by this call: data[start..start+len) */
    WIT(uint32_t, len);
    WIT(uint32_t, run);   /* running value: reference register after the words before the piece */
    WIT_ARR(uint8_t, content, 9);
    __CPROVER_assume(n <= VC_MAXOBJ); /* no restriction in proof mode (2^40 > range of the length type); small sizes in witness mode */
    __CPROVER_assume(start <= n && len <= n - start);
    /* known finding C17_crc32_piecewise: only pieces that start on a word boundary of the message continue its CRC */
    __CPROVER_assume(KF_C17_crc32_piecewise == 0 ? 1 : KF_C17_crc32_piecewise == 1 ? start % 4 == 0 : start % 4 != 0);
    uint8_t *data = NEW_OBJ((size_t)n + 3); /* 3 spare bytes: see clauses */
    FILL(data, (size_t)n + 3, content);
    g_data = data;
    g_off = start / 4; g_i = start / 4; /* the fold has consumed the words before the piece ... */
    g_reg = run;                        /* ... and left this register */
    g_n = start / 4 + len / 4;

    uint32_t r = igris_crc32(data + start, len, run);

    __CPROVER_assert(g_i == start / 4 + len / 4, "the fold over the message advanced by exactly the len/4 whole words of the piece");
    uint32_t t = len % 4, b = start / 4 * 4 + (len - t); /* first byte after the whole words, by message word index */
    uint32_t expect = t == 0 ? g_reg
                             : spec_crc32_word(g_reg, data[b], t > 1 ? data[b + 1] : 0, t > 2 ? data[b + 2] : 0, 0);
    __CPROVER_assert(r == expect, "igris_crc32 on a piece with the running value as seed == the message's reference fold continued over the piece");
    CANARY("crc32_continue harness end reachable");
}
