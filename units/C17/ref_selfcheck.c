/*@unit {
 'kind': 'proof', 'mode': 'plain',
 'functions': [],
 'clauses': 'the reference itself (spec/c17_crc_ref.h), independently of igris: its five instances give the published check values of the CRC catalogue for the message "123456789" (CRC-8/NRSC-5 0xF7 = poly 0x31 MSB-first init 0xFF, CRC-8/MAXIM-DOW 0xA1, CRC-16/IBM-3740 0x29B1 and CRC-16/XMODEM 0x31C3, CRC-7/MMC 0x75, CRC-32/MPEG-2 0x0376E6E7); the loop-free SPEC_REFLECT8 used inside loop invariants equals spec_crc_reflect(.,8) for all 256 values and reflection is an involution; the reference step is linear over GF(2) in (register, byte) (what makes a CRC a CRC)',
 'unwind': 33,
 'cbmc_flags': ['--sat-solver', 'cadical'],
 'complete_unwinding': 'all loops here have constant bounds <= 32 (9 message bytes, 8 bits, width <= 32 reflect); --unwind 33 with unwinding assertions',
 'witness': {'unwind': 33},
} @*/
#include "vc.h"
#include "c17_crc_ref.h"

void harness(void)
{
    static const uint8_t msg[9] = {'1', '2', '3', '4', '5', '6', '7', '8', '9'};
    __CPROVER_assert(spec_crc_fold(8, 0x31u, 0, 0xFFu, msg, 9) == 0xF7u, "CRC-8/NRSC-5 check value");
    __CPROVER_assert(spec_crc_out(8, 1, spec_crc_fold(8, 0x31u, 1, 0, msg, 9)) == 0xA1u, "CRC-8/MAXIM-DOW check value");
    __CPROVER_assert(spec_crc_fold(16, 0x1021u, 0, 0xFFFFu, msg, 9) == 0x29B1u, "CRC-16/IBM-3740 (CCITT-FALSE) check value");
    __CPROVER_assert(spec_crc_fold(16, 0x1021u, 0, 0, msg, 9) == 0x31C3u, "CRC-16/XMODEM check value");
    __CPROVER_assert(spec_crc_fold(7, 0x09u, 0, 0, msg, 9) == 0x75u, "CRC-7/MMC check value");
    __CPROVER_assert(spec_crc_fold(32, 0x04C11DB7u, 0, 0xFFFFFFFFu, msg, 9) == 0x0376E6E7u, "CRC-32/MPEG-2 check value");

    WIT(uint8_t, v);
    __CPROVER_assert(SPEC_REFLECT8(v) == spec_crc_reflect(v, 8), "SPEC_REFLECT8 == spec_crc_reflect(.,8)");
    __CPROVER_assert(SPEC_REFLECT8(SPEC_REFLECT8(v)) == v, "reflection is an involution");

    WIT(uint32_t, r1);
    WIT(uint32_t, r2);
    WIT(uint8_t, b1);
    WIT(uint8_t, b2);
    __CPROVER_assert(SPEC_CRC32_BYTE(r1 ^ r2, b1 ^ b2) == (SPEC_CRC32_BYTE(r1, b1) ^ SPEC_CRC32_BYTE(r2, b2)), "reference byte step is GF(2)-linear (width 32)");
    __CPROVER_assert(SPEC_STRM8_BYTE((r1 ^ r2) & 0xFF, b1 ^ b2) == (SPEC_STRM8_BYTE(r1 & 0xFF, b1) ^ SPEC_STRM8_BYTE(r2 & 0xFF, b2)), "reference byte step is GF(2)-linear (width 8)");
    CANARY("ref_selfcheck harness end reachable");
}
