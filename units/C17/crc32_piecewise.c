/*@unit {
 'kind': 'proof', 'mode': 'legacy',
 'functions': ['igris_crc32'],
 'clauses': 'igris_crc32 fed data[0..split) and then data[split..n) with the first result as seed == the reference over the whole data[0..n) from seed (= the one-shot value by units crc32 / crc32_padded), for every n, every split <= n that is a multiple of 4, seed and content: the mechanical two-call form of what unit crc32_continue states per call (thorough tier only: two word-step equivalences plus the tail in one SAT instance, 30-90 s). Splits that are not multiples of 4 are known finding C17_crc32_piecewise (the first piece gets zero-extended). Object has 3 spare bytes so that the other finding (tail over-read) does not interfere; values only',
 'inject': [
   {'file': 'igris/util/crc.c', 'func': 'igris_crc32', 'loop': 0, 'expect': 'for (',
    'assigns': 'i, crc, g_i, g_reg',
    'invariants': ['g_i <= g_n && g_n == g_off + bodySize && g_i == g_off + i',
                   'crc == g_reg'],
    'decreases': 'g_n - g_i'},
   {'file': 'igris/util/crc.c', 'func': 'igris_crc32',
    'ghost': 'g_reg = spec_crc32_word(g_reg, g_data[4 * g_i], g_data[4 * g_i + 1], g_data[4 * g_i + 2], g_data[4 * g_i + 3]); g_i++;',
    'at': 'body-begin', 'loop': 0},
 ],
 'unwindset': ['spec_crc_byte.0:9'],
 'complete_unwinding': 'the 8-round loop of the reference is unwound completely (unwinding assertions on)',
 'kf': ['C17_crc32_piecewise'],
 'tier': 'thorough', 'timeout': 200,
 'cbmc_flags': ['--sat-solver', 'cadical'],
 'witness': {'unwind': 10},
} @*/
#include "vc.h"
#include "c17_crc_ref.h"
const uint8_t *g_data; /* ghost: the message object */
size_t g_off;          /* ghost: word index in g_data of the piece being fed (0: one shot) */
size_t g_n;            /* ghost: word index of the end of the whole words of the piece */
size_t g_i;            /* ghost: number of words folded so far */
uint32_t g_reg;        /* ghost: reference register */
#include "igris/util/crc.c"

void harness(void)
{
    WIT(uint32_t, n);
    WIT(uint32_t, split);
    WIT(uint32_t, seed);
    WIT_ARR(uint8_t, content, 9);
    __CPROVER_assume(split <= n); /* a split point of the message */
    /* known finding C17_crc32_piecewise: only word-aligned split points continue the same CRC */
    __CPROVER_assume(KF_C17_crc32_piecewise == 0 ? 1 : KF_C17_crc32_piecewise == 1 ? split % 4 == 0 : split % 4 != 0);
    __CPROVER_assume(n <= VC_MAXOBJ); /* no restriction in proof mode (2^40 > range of the length type); small sizes in witness mode */
    uint8_t *data = NEW_OBJ((size_t)n + 3); /* 3 spare bytes: see clauses */
    FILL(data, (size_t)n + 3, content);
    g_data = data; g_i = 0;
    g_reg = seed;

    g_off = 0; g_n = split / 4;
    uint32_t r1 = igris_crc32(data, split, seed);

    g_off = split / 4; g_n = split / 4 + (n - split) / 4;
    uint32_t r2 = igris_crc32(data + split, n - split, r1);

    __CPROVER_assert(g_i == n / 4, "reference folded exactly the n/4 whole words of data, in order, across both calls");
    uint32_t t = n % 4, b = n - t;
    uint32_t expect = t == 0 ? g_reg
                             : spec_crc32_word(g_reg, data[b], t > 1 ? data[b + 1] : 0, t > 2 ? data[b + 2] : 0, 0);
    __CPROVER_assert(r2 == expect, "igris_crc32 fed in two pieces with the running value as seed == one-shot reference over data[0..n) from seed");
    CANARY("crc32 piecewise harness end reachable");
}
