/*@unit {
 'kind': 'proof', 'mode': 'legacy',
 'functions': ['strtoumax'],
 'platform': 'emulated ILP32 (unsigned long = 32 bit, uintmax_t = 64 bit): the targets igris is built for; `long` is #defined to `int` around the inclusion of strtoumax.c, which only affects its four (unsigned long) casts',
 'clauses': 'strtoumax on an ILP32 target (32-bit unsigned long, emulated): ISO 7.22.1.4 for every text and the given base: white space, sign, 0x/0 prefix, value, clamping to the limits of uintmax_t with ERANGE, *endptr = first unconsumed character (nptr when no digits); reads only characters an ISO parser has to inspect (text object of arbitrary exact size); text not modified',
 'params': {'BASE': [10, 16]},
 'params_thorough': {'BASE': [0, 2, 8, 10, 16, 36]},
 'inject': [
   {'file': 'compat/libc/inttypes/strtoumax.c', 'func': 'strtoumax', 'loop': 0, 'expect': 'isspace',
    'assigns': 's, c, g_i',
    'invariants': ['s == (const char *)g_t + g_i', 'g_i < g_n'],
    'decreases': 'g_n - g_i'},
   {'file': 'compat/libc/inttypes/strtoumax.c', 'func': 'strtoumax', 'ghost': 'spec_strto_ws_step();', 'at': 'body-end', 'loop': 0},
   {'file': 'compat/libc/inttypes/strtoumax.c', 'func': 'strtoumax', 'ghost': 'spec_strto_head(base, 64, 0, KF_C11_strto_0x_nohex);',
    'at': 'before', 'anchor': "if (c == '-')"},
   {'file': 'compat/libc/inttypes/strtoumax.c', 'func': 'strtoumax', 'loop': 1, 'expect': 'acc = 0, any = 0',
    'assigns': 's, c, acc, any, g_i, g_val, g_sat, g_any',
    'invariants': ['s == (const char *)g_t + g_i + 1',
                   'g_i < g_n',
                   'c == (int)((const char *)g_t)[g_i]',
                   'any >= -1 && any <= 1',
                   '(any != 0) == (g_any != 0)',
                   '(any < 0) == (g_sat != 0)',
                   'g_val <= g_cap', 'g_any == 0 ==> g_val == 0',
                   'any >= 0 ==> acc == (uintmax_t)g_val'],
    'decreases': 'g_n - g_i'},
   {'file': 'compat/libc/inttypes/strtoumax.c', 'func': 'strtoumax', 'ghost': 'spec_strto_digit_step(); spec_strto_kf_above_u32(KF_C11_strtoumax_ulong_cast);', 'at': 'body-begin', 'loop': 1},
 ],
 'kf': ['C11_strto_0x_nohex', 'C11_strtoumax_ulong_cast'], 'kf_probe_case': {'C11_strto_0x_nohex': {'BASE': 99}, 'C11_strtoumax_ulong_cast': {'BASE': 10}},
 'witness': {'unwind': 9},
 'fallback': 'ghost-free',   # c11_strto_harness.h runs the reference machine as a plain loop there
 'assumptions': ['strto*: every character the ISO 7.22.1.4 automaton has to inspect lies inside the text object (SPEC_NEED in spec/c11_strto_ref.h; satisfied by every NUL-terminated string and by the object that ends exactly at the first unconsumable character)'],
} @*/
#include "vc.h"
#include "c11_libc_env.h"
#include "c11_strto_ref.h"
#include <igris/util/errno.h> /* strtoumax.c calls SET_ERRNO without including its header (see NOTES.md) */
#define strtoumax vc_strtoumax
#define long int /* ILP32 emulation for the casts inside strtoumax.c */
#include "compat/libc/inttypes/strtoumax.c"
#undef long
#undef strtoumax

#define STRTO_FN vc_strtoumax
#define STRTO_T uintmax_t
#define STRTO_SIGNED 0
#define STRTO_SETS_ERANGE 1
#include "c11_strto_harness.h"

void harness(void)
{
    WIT(size_t, n);
    WIT_ARR(uchar, content, 6);
    WIT(uchar, want_end);
    WIT(size_t, k);
    strto_check(n, content, want_end, k);
}
