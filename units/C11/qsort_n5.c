/*@unit {
 'kind': 'bounded', 'mode': 'plain',
 'bound': 'nmemb = 5 (induction step on top of the cases 0..4 of qsort_bounded); recursive calls through qsort\'s own contract for strictly smaller arrays (induction over nmemb, spec/c11_qsort_harness.h); element size 1 (unsigned char order) or 4 (int order), every rand() result (all pivot choices), arbitrary contents incl. duplicates',
 'functions': ['qsort', 'swap'],
 'clauses': 'ISO 7.22.5.2: afterwards the array is sorted w.r.t. the comparator and is a permutation of its input (multiset equality through an arbitrary probe value); every compar argument and every memcpy block lies inside the array (or is a private copy); terminates within the unwinding bounds',
 'params': {'SIZE': [1, 4], 'NMEMB': [5]}, 'tier': 'thorough', 'solver': 'kissat',
  'unwind': 8, 'unwindset': ['vc_qsort.0:8', 'vc_qsort.1:8', 'vc_qsort.2:5', 'vc_memcpy.2:5'],
 'complete_unwinding': 'all loops are bounded by nmemb; --unwinding-assertions prove that the bounds suffice',
 'timeout': 300,
 'kf': ['C11_qsort_j_before_base'], 'kf_probe_case': {'C11_qsort_j_before_base': {'probed_by': 'qsort_bounded'}},
 'witness': {'unwind': 8, 'unwindset': ['vc_qsort.0:8', 'vc_qsort.1:8', 'vc_qsort.2:5', 'vc_memcpy.2:5']},
 'trusted': ['memcpy = the shim memcpy (compat/libc/string/memcpy.c, real code, byte loop unwound) behind a range-checking wrapper; rand() = arbitrary int per call'],
} @*/
#include "vc.h"
#include "c11_libc_env.h"
#include "c11_qsort_harness.h"
#define memcpy vc_memcpy
#include "compat/libc/string/memcpy.c"
#undef memcpy
#define memcpy q_memcpy
#define qsort(a, b, c, d) QS_SEL_##a, b, c, d)
#define rand vc_rand
#include "compat/libc/stdlib/qsort.c"
#undef qsort
#undef rand
#undef memcpy

void harness(void)
{
    WIT(size_t, nmemb);
    WIT_ARR(elem_t, content, 6);
    WIT_ARR(int, rnd, 8);
    WIT(elem_t, probe);
    __CPROVER_assume(nmemb == NMEMB);
    char *obj = NEW_OBJ(Q_PAD + nmemb * sizeof(elem_t));
    elem_t *a = (elem_t *)(obj + Q_PAD);
    for (size_t i = 0; i < nmemb; i++)
        a[i] = content[i];
    g_rnd = rnd;
    g_q_base = (const char *)a;
    g_q_bytes = nmemb * sizeof(elem_t);

    vc_qsort(a, nmemb, sizeof(elem_t), q_cmp);

    for (size_t i = 0; i + 1 < nmemb; i++)
        __CPROVER_assert(a[i] <= a[i + 1], "qsort: result is ordered by the comparator");
    size_t before = 0, after = 0;
    for (size_t i = 0; i < nmemb; i++) {
        before += (content[i] == probe);
        after += (a[i] == probe);
    }
    __CPROVER_assert(before == after, "qsort: result is a permutation of the input (every value occurs as often as before)");
    CANARY("qsort harness end reachable");
}
