/*@unit {
 'kind': 'proof', 'mode': 'plain',
 'functions': ['rand', 'srand'],
 'clauses': 'ISO 7.22.2.1: for every seed (any srand argument, any number of earlier calls) rand() returns a value in [0, RAND_MAX] and involves no undefined operation - this is what qsort relies on for `rand() % nmemb`',
 'witness': {'unwind': 2},
} @*/
#include "vc.h"
#include "c11_libc_env.h"
#define rand vc_rand
#define srand vc_srand
#define rand_r vc_rand_r
#include "compat/libc/stdlib/rand.c"
#undef rand
#undef srand
#undef rand_r

void harness(void)
{
    WIT(uint, s);
    vc_srand(s);      /* seed becomes an arbitrary unsigned int ... */
    int r0 = vc_rand(); /* ... after which it is < 204814687 for ever: two calls cover both shapes of the state */
    int r1 = vc_rand();
    __CPROVER_assert(r0 >= 0 && r0 <= RAND_MAX, "rand: first value after srand in [0, RAND_MAX]");
    __CPROVER_assert(r1 >= 0 && r1 <= RAND_MAX, "rand: later values in [0, RAND_MAX]");
    CANARY("rand harness end reachable");
}
