/*@unit {
 'kind': 'bounded', 'mode': 'plain',
 'bound': 'nmemb = NMEMB in 0..5 (quick), 0..6 (thorough), element size 1 (unsigned char order) or 4 (int order), every rand() result (all pivot choices), arbitrary contents incl. duplicates',
 'functions': ['qsort', 'swap'],
 'clauses': 'ISO 7.22.5.2: afterwards the array is sorted w.r.t. the comparator and is a permutation of its input (multiset equality through an arbitrary probe value); every access inside the array; compar only ever gets pointers to array elements or to the private pivot copy',
 'params': {'SIZE': [1, 4], 'NMEMB': [0, 1, 2, 3, 4, 5]},
 'params_thorough': {'SIZE': [1, 4], 'NMEMB': [0, 1, 2, 3, 4, 5, 6]},
 'unwind': 8, 'cbmc_flags': ['--unwindset', 'vc_qsort:5'],
 'complete_unwinding': 'all loops and the recursion are bounded by nmemb; --unwinding-assertions prove that 8 iterations / 5 nested activations suffice',
 'timeout': 300,
 'witness': {'unwind': 8},
 'trusted': ['memcpy = the shim memcpy (compat/libc/string/memcpy.c, real code, byte loop unwound); rand() = arbitrary int per call'],
} @*/
#include "vc.h"
#include "c11_libc_env.h"
#define memcpy vc_memcpy
#include "compat/libc/string/memcpy.c"
#define qsort vc_qsort
#define rand vc_rand
#include "compat/libc/stdlib/qsort.c"
#undef qsort
#undef rand

static const char *g_q_base;
static size_t g_q_bytes;
static const int *g_rnd;
static unsigned g_rnd_pos;
int vc_rand(void) { return g_rnd[g_rnd_pos++ & 7]; }

/* comparator by contract: a pointer into the array must point at an element (inside, aligned); any other
 * pointer must be a private copy (qsort's pivot `key`), i.e. a different object */
static void q_arg_ok(const void *p)
{
    const char *q = (const char *)p;
#ifdef REPLAY
    if (q >= g_q_base - 64 && q < g_q_base + g_q_bytes + 64)
        __CPROVER_assert(q >= g_q_base && (size_t)(q - g_q_base) + SIZE <= g_q_bytes && (size_t)(q - g_q_base) % SIZE == 0, "qsort: compar argument points to an element inside the array");
#else
    if (__CPROVER_same_object(q, g_q_base))
        __CPROVER_assert(__CPROVER_POINTER_OFFSET(q) >= 0 && (size_t)__CPROVER_POINTER_OFFSET(q) + SIZE <= g_q_bytes && (size_t)__CPROVER_POINTER_OFFSET(q) % SIZE == 0, "qsort: compar argument points to an element inside the array");
#endif
}
#if SIZE == 1
typedef unsigned char elem_t;
#else
typedef int elem_t;
#endif
static int q_cmp(const void *a, const void *b)
{
    q_arg_ok(a);
    q_arg_ok(b);
    elem_t x = *(const elem_t *)a, y = *(const elem_t *)b;
    return (x > y) - (x < y);
}

void harness(void)
{
    WIT(size_t, nmemb);
    WIT_ARR(elem_t, content, 6);
    WIT_ARR(int, rnd, 8);
    WIT(elem_t, probe);
    __CPROVER_assume(nmemb == NMEMB);
    elem_t *a = NEW_OBJ(nmemb * sizeof(elem_t));
    for (size_t i = 0; i < nmemb; i++)
        a[i] = content[i];
    g_rnd = rnd;
    g_q_base = (const char *)a;
    g_q_bytes = nmemb * sizeof(elem_t);

    vc_qsort(a, nmemb, sizeof(elem_t), q_cmp);

    for (size_t i = 0; i + 1 < nmemb; i++)
        __CPROVER_assert(a[i] <= a[i + 1], "qsort: result is ordered by the comparator");
    size_t before = 0, after = 0;
    for (size_t i = 0; i < nmemb; i++) {
        before += (content[i] == probe);
        after += (a[i] == probe);
    }
    __CPROVER_assert(before == after, "qsort: result is a permutation of the input (every value occurs as often as before)");
    CANARY("qsort harness end reachable");
}
