/*@unit {
 'kind': 'proof', 'mode': 'legacy',
 'functions': ['atol'],
 'clauses': 'ISO 7.22.1.2: atol(text) == strtol(text, NULL, 10) for every text whose value is representable in long (white space, sign, decimal digits, stops at the first non-digit); no signed overflow on the way; reads only characters an ISO parser has to inspect; text not modified',
 'inject': [
   {'file': 'compat/libc/stdlib/atol.c', 'func': 'atol', 'loop': 0, 'expect': 'isspace',
    'assigns': 'p',
    'invariants': ['__CPROVER_same_object(p, g_t)',
                   '__CPROVER_POINTER_OFFSET(p) >= 0 && (size_t)__CPROVER_POINTER_OFFSET(p) <= g_ws'],
    'decreases': 'g_ws - (size_t)__CPROVER_POINTER_OFFSET(p)'},
   {'file': 'compat/libc/stdlib/atol.c', 'func': 'atol',
    'ghost': 'spec_ato_ws_done((size_t)(p - 1 - g_t)); spec_strto_head(10, ATO_BITS, 1, 0);',
    'at': 'after', 'anchor': 'sign = c;'},
   {'file': 'compat/libc/stdlib/atol.c', 'func': 'atol', 'loop': 1, 'expect': 'isdigit',
    'assigns': 'p, c, total, g_i, g_val, g_sat, g_any',
    'invariants': ['p == g_t + g_i + 1', 'g_i < g_n', 'c == (int)g_t[g_i]',
                   'g_sat == 0', 'g_val <= g_cap', 'total >= 0', '(spec_wide)(unsigned long)total == g_val'],
    'decreases': 'g_n - g_i'},
   {'file': 'compat/libc/stdlib/atol.c', 'func': 'atol', 'ghost': 'spec_ato_digit_step(ATO_BITS, KF_C11_atol_min);', 'at': 'body-begin', 'loop': 1},
 ],
 'kf': ['C11_atol_min'],
 'witness': {'unwind': 16, 'defines': ['VC_WIT_MAXOBJ=13']}, 'fallback': 'ghost-free',
 'assumptions': ['ato*: the text has g_ws (arbitrary) leading white-space characters followed by a character that is not white space, all inside the object; every further character the ISO automaton has to inspect lies inside the object (SPEC_NEED)',
                 'ato*: the value of the text is representable in the result type (ISO 7.22.1.2p1: otherwise undefined)'],
} @*/
#include "vc.h"
#include "c11_libc_env.h"
#include "c11_strto_ref.h"
#define ATO_BITS 64
#define atol vc_atol
#define atoi vc_atoi
#include "compat/libc/stdlib/atol.c"
#undef atol
#undef atoi

void harness(void)
{
    WIT(size_t, n);
    WIT(size_t, ws);
    WIT_ARR(uchar, content, 13);
    WIT(size_t, k);
    __CPROVER_assume(n >= 1 && n <= VC_MAXOBJ);
    uchar *t = NEW_OBJ(n);
    FILL(t, n, content);
    uchar at_k = k < n ? t[k] : 0;
    spec_strto_reset(t, n);
    g_ws = ws;
    __CPROVER_assume(g_ws < n && !spec_isspace(t[g_ws]));

    long r = vc_atol((const char *)t);

#if !VC_FALLBACK
    __CPROVER_assert(g_i < n && spec_strto_stopped(), "reference machine stands on the first character that is not a decimal digit");
    __CPROVER_assert(KF_C11_atol_min == 2 || (long long)r == spec_strto_signed_result(ATO_BITS), "ISO 7.22.1.2: atol(text) == strtol(text, NULL, 10)");
#endif
#ifdef WITNESS_MODE
    {   /* direct reference over the small concrete text (independent of the injected ghost automaton): ISO strtol(text, NULL, 10) */
        size_t q = 0; int neg = 0; unsigned __int128 v = 0;
        while (q < n && spec_isspace(t[q])) q++;
        if (q < n && (t[q] == '-' || t[q] == '+')) { neg = t[q] == '-'; q++; }
        while (q < n && t[q] >= '0' && t[q] <= '9') { v = v * 10 + (unsigned)(t[q] - '0'); q++; }
        unsigned __int128 lim = ((unsigned __int128)1 << (64 - 1)) - (neg ? 0 : 1);
        if (q < n && v <= lim)      /* representable, and the text ends inside the object */
            __CPROVER_assert((__int128)r == (neg ? -(__int128)v : (__int128)v), "result == ISO strtol(text, NULL, 10) (direct reference)");
    }
#endif
    __CPROVER_assert(!(k < n) || t[k] == at_k, "the text is not modified");
    CANARY("atol harness end reachable");
}
