/*@unit {
 'kind': 'proof', 'mode': 'legacy',
 'functions': ['strtoul'],
 'clauses': 'ISO 7.22.1.4 for every text and the given base: white space, sign, 0x/0 prefix, value, clamping to the limits of unsigned long with ERANGE, *endptr = first unconsumed character (nptr when no digits); reads only characters an ISO parser has to inspect (text object of arbitrary exact size); text not modified',
 'params': {'BASE': [0, 2, 8, 10, 16, 36]},
 'params_thorough': {'BASE': [0, 2, 3, 4, 5, 6, 7, 8, 9, 10, 11, 12, 13, 14, 15, 16, 17, 18, 19, 20, 21, 22, 23, 24, 25, 26, 27, 28, 29, 30, 31, 32, 33, 34, 35, 36]},
 'inject': [
   {'file': 'compat/libc/stdlib/strtoul.c', 'func': 'strtoul', 'loop': 0, 'expect': 'isspace',
    'assigns': 's, c, g_i',
    'invariants': ['s == (const char *)g_t + g_i', 'g_i < g_n'],
    'decreases': 'g_n - g_i'},
   {'file': 'compat/libc/stdlib/strtoul.c', 'func': 'strtoul', 'ghost': 'spec_strto_ws_step();', 'at': 'body-end', 'loop': 0},
   {'file': 'compat/libc/stdlib/strtoul.c', 'func': 'strtoul', 'ghost': 'spec_strto_head(base, 64, 0, KF_C11_strto_0x_nohex);',
    'at': 'before', 'anchor': "if (c == '-')"},
   {'file': 'compat/libc/stdlib/strtoul.c', 'func': 'strtoul', 'loop': 1, 'expect': 'acc = 0, any = 0',
    'assigns': 's, c, acc, any, g_i, g_val, g_sat, g_any',
    'invariants': ['s == (const char *)g_t + g_i + 1',
                   'g_i < g_n',
                   'c == (int)((const char *)g_t)[g_i]',
                   'any >= -1 && any <= 1',
                   '(any != 0) == (g_any != 0)',
                   '(any < 0) == (g_sat != 0)',
                   'g_val <= g_cap', 'g_any == 0 ==> g_val == 0',
                   'any >= 0 ==> acc == (unsigned long)g_val'],
    'decreases': 'g_n - g_i'},
   {'file': 'compat/libc/stdlib/strtoul.c', 'func': 'strtoul', 'ghost': 'spec_strto_digit_step();', 'at': 'body-begin', 'loop': 1},
 ],
 'kf': ['C11_strto_0x_nohex'], 'kf_probe_case': {'C11_strto_0x_nohex': {'BASE': 16}},
 'witness': {'unwind': 9},
 'fallback': 'ghost-free',   # c11_strto_harness.h runs the reference machine as a plain loop there
 'assumptions': ['strto*: every character the ISO 7.22.1.4 automaton has to inspect lies inside the text object (SPEC_NEED in spec/c11_strto_ref.h; satisfied by every NUL-terminated string and by the object that ends exactly at the first unconsumable character)'],
} @*/
#include "vc.h"
#include "c11_libc_env.h"
#include "c11_strto_ref.h"
#define strtoul vc_strtoul
#include "compat/libc/stdlib/strtoul.c"
#undef strtoul

#define STRTO_FN vc_strtoul
#define STRTO_T unsigned long
#define STRTO_SIGNED 0
#define STRTO_SETS_ERANGE 1
#include "c11_strto_harness.h"

void harness(void)
{
    WIT(size_t, n);
    WIT_ARR(uchar, content, 6);
    WIT(uchar, want_end);
    WIT(size_t, k);
    strto_check(n, content, want_end, k);
}
