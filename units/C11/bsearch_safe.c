/*@unit {
 'kind': 'proof', 'mode': 'legacy',
 'functions': ['bsearch'],
 'clauses': 'for every nmemb (0 included), the given element size and ANY comparator results: terminates, every compar call gets (key, pointer to an element inside the array) - so nothing outside the array is ever handed out for dereferencing -, result is NULL or a pointer to an element of the array; array and key not modified by bsearch itself',
 'params': {'SIZE': [1, 2, 3, 4, 8, 32]}, 'solver': 'kissat', 'timeout': 900,
 'params_thorough': {'SIZE': [1, 2, 3, 4, 5, 6, 8, 10, 12, 16, 24, 28, 30, 32]},   # the other sizes in 1..32 need 20-30+ min each (division by a non power of two) and are not run
 'inject': [
   {'file': 'compat/libc/stdlib/bsearch.c', 'func': 'bsearch', 'ghost': 'g_bl = 0; g_bd = nmemb; g_sr_idx = 0;', 'at': 'func-begin'},
   {'file': 'compat/libc/stdlib/bsearch.c', 'func': 'bsearch', 'loop': 0, 'expect': 'left + size < right',
    'assigns': 'left, right, mid, g_bl, g_bd, g_bm, g_sr_idx',
    'invariants': ['__CPROVER_same_object(left, base) && __CPROVER_same_object(right, base)',
                   'g_bd >= 1 && g_bl < nmemb && g_bd <= nmemb - g_bl && g_sr_idx == g_bl',
                   '__CPROVER_POINTER_OFFSET(left) >= 0 && __CPROVER_POINTER_OFFSET(left) < __CPROVER_POINTER_OFFSET(right) && (size_t)__CPROVER_POINTER_OFFSET(right) <= nmemb * size',
                   '(size_t)__CPROVER_POINTER_OFFSET(left) == g_bl * size',
                   '(size_t)(__CPROVER_POINTER_OFFSET(right) - __CPROVER_POINTER_OFFSET(left)) == g_bd * size'],
    'decreases': 'g_bd'},
   {'file': 'compat/libc/stdlib/bsearch.c', 'func': 'bsearch', 'ghost': 'g_bm = g_bl + (g_bd >> 1); g_sr_idx = g_bm;',
    'at': 'after', 'anchor_re': r'\bmid\s*=[^;=][^;]*;'},
   {'file': 'compat/libc/stdlib/bsearch.c', 'func': 'bsearch', 'ghost': 'if (right == mid) { g_bd = g_bd >> 1; } else { g_bd = g_bd - (g_bd >> 1); g_bl = g_bm; } g_sr_idx = g_bl;',
    'at': 'body-end', 'loop': 0},
 ],
 'kf': ['C11_bsearch_empty', 'C11_bsearch_argorder'],
 'kf_probe_case': {'C11_bsearch_empty': {'SIZE': 4}, 'C11_bsearch_argorder': {'SIZE': 4}},
 'witness': {'unwind': 6},
 'trusted': ['comparator = contract stub vc_cmp: asserts its precondition (arguments are (key, element inside the array)), reads the first and last byte of both arguments, returns an arbitrary int'],
 'assumptions': ['bsearch: nmemb * size is the exact size of the array object and does not exceed 2^40 bytes; key is an object of `size` bytes distinct from the array'],
} @*/
#include "vc.h"
#include "c11_libc_env.h"
#include "c11_search_stub.h"
/* ghost: element index of left and mid, element count between left and right (byte offsets are these times size;
 * `right` itself is never needed as a product, which keeps the step obligation within reach of the SAT back end
 * for element sizes that are not powers of two) */
static size_t g_bl, g_bd, g_bm;
#define bsearch vc_bsearch
#define upper_bound vc_upper_bound
#define lower_bound vc_lower_bound
#include "compat/libc/stdlib/bsearch.c"
#undef bsearch

void harness(void)
{
    WIT(size_t, nmemb);
    WIT_ARR(uchar, content, 6);
    WIT_ARR(uchar, keybytes, 6);
    WIT(size_t, k);
    size_t size = SIZE;
#ifdef WITNESS_MODE
    __CPROVER_assume(nmemb <= 6 / SIZE);
#else
    __CPROVER_assume(nmemb <= VC_MAXOBJ / SIZE);
#endif
    /* known findings: (1) the empty array, (2) see vc_cmp in c11_search_stub.h */
    __CPROVER_assume(KF_C11_bsearch_empty == 0 ? 1 : KF_C11_bsearch_empty == 1 ? nmemb != 0 : nmemb == 0);
    uchar *arr = NEW_OBJ(nmemb * size);
    uchar *key = NEW_OBJ(size);
    FILL(arr, nmemb * size, content);
#ifdef WITNESS_MODE
    for (size_t i = 0; i < size && i < 6; i++)
        key[i] = keybytes[i];
#endif
    uchar at_k = k < nmemb * size ? arr[k] : 0;
    g_sr_base = (const char *)arr;
    g_sr_nmemb = nmemb;
    g_sr_size = size;
    g_sr_key = key;
    g_sr_swapped_ok = (KF_C11_bsearch_argorder == 1);

    void *r = vc_bsearch(key, arr, nmemb, size, vc_cmp_any);

    __CPROVER_assert(r == 0 || (g_bl < nmemb && (char *)r == (char *)arr + g_bl * size), "bsearch: result is NULL or points to an element of the array");
    __CPROVER_assert(!(k < nmemb * size) || arr[k] == at_k, "bsearch does not modify the array");
    CANARY("bsearch harness end reachable");
}
