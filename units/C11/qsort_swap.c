/*@unit {
 'kind': 'proof', 'mode': 'dfcc',
 'functions': ['swap'],
 'replace': ['memcpy'],
 'clauses': 'qsort.c swap(fst, snd, size): exchanges the two size-byte blocks (any size >= 1, blocks anywhere inside one array), writes nothing else, VLA temp[size] accessed within bounds, every memcpy call satisfies the ISO 7.24.2.1 precondition (valid, non-overlapping blocks)',
 'inject': [
   {'file': 'compat/libc/stdlib/qsort.c', 'func': 'swap', 'ghost': 'g_memcpy_v = g_memcpy_k < size ? ((const char *)snd)[g_memcpy_k] : 0;', 'at': 'before', 'anchor': 'memcpy(temp, snd, size);'},
   {'file': 'compat/libc/stdlib/qsort.c', 'func': 'swap', 'ghost': 'g_memcpy_v = g_memcpy_k < size ? ((const char *)fst)[g_memcpy_k] : 0;', 'at': 'before', 'anchor': 'memcpy(snd, fst, size);'},
   {'file': 'compat/libc/stdlib/qsort.c', 'func': 'swap', 'ghost': 'g_memcpy_v = g_memcpy_k < size ? temp[g_memcpy_k] : 0;', 'at': 'before', 'anchor': 'memcpy(fst, temp, size);'},
 ],
 'kf': ['C11_qsort_swap_self'],
 'fallback': 'ghost-free',
 'witness': {'unwind': 24, 'defines': ['VC_WIT_MAXOBJ=22'], 'fallback_replace': []},
 'trusted': ['memcpy through the ISO 7.24.2.1 contract of contracts/libc_contracts.h (proved for the shim memcpy by C08 libc_memcpy_contract)'],
 'assumptions': ['swap: both blocks lie inside the same array object; they are disjoint or (known finding C11_qsort_swap_self) identical - the only two situations qsort creates'],
} @*/
#include "vc.h"
#include "c11_libc_env.h"
#include "libc_contracts.h"
#define qsort vc_qsort
#include "compat/libc/stdlib/qsort.c"
#undef qsort

void harness(void)
{
    WIT(size_t, total);
    WIT(size_t, size);
    WIT(size_t, off1);
    WIT(size_t, off2);
    WIT(size_t, k);
    WIT(size_t, m);
    WIT_ARR(uchar, content, 22);
    __CPROVER_assume(total <= VC_MAXOBJ && size >= 1 && size <= total);
    __CPROVER_assume(off1 <= total - size && off2 <= total - size);
    /* qsort swaps two different elements (disjoint blocks) or - known finding - an element with itself */
    int self = (off1 == off2);
    int disjoint = (off1 + size <= off2 || off2 + size <= off1);
    __CPROVER_assume(KF_C11_qsort_swap_self == 0 ? (disjoint || self) : KF_C11_qsort_swap_self == 1 ? disjoint : self);
#if VC_FALLBACK
    /* bounded fallback run (no contracts, cbmc's byte-level memcpy model): an object of symbolic size makes that
     * run exhaust memory, so the array has the fixed size VC_WIT_MAXOBJ there; the blocks are still anywhere inside */
    __CPROVER_assume(total == VC_MAXOBJ);
    uchar *a = NEW_OBJ(VC_MAXOBJ);
#else
    uchar *a = NEW_OBJ(total);
#endif
    FILL(a, total, content);
    __CPROVER_assume(k < size);
    __CPROVER_assume(m < total && !(m >= off1 && m < off1 + size) && !(m >= off2 && m < off2 + size));
    uchar old1 = a[off1 + k], old2 = a[off2 + k], oldm = a[m];
    g_memcpy_k = k;

    swap(a + off1, a + off2, size);

    __CPROVER_assert(a[off1 + k] == old2, "swap: first block now holds the old second block");
    __CPROVER_assert(a[off2 + k] == old1, "swap: second block now holds the old first block");
    __CPROVER_assert(a[m] == oldm, "swap: no byte outside the two blocks changes");
    CANARY("swap harness end reachable");
}
