/*@unit {
 'kind': 'bounded', 'mode': 'plain',
 'bound': 'nmemb <= 8, int elements (size 4), array sorted ascending with arbitrary duplicates, arbitrary int key',
 'functions': ['bsearch'],
 'clauses': 'ISO 7.22.5.1: returns a pointer to an element comparing equal to the key if and only if one exists (NULL otherwise); every compar call gets (key, element inside the array)',
 'inject': [
   {'file': 'compat/libc/stdlib/bsearch.c', 'func': 'bsearch', 'ghost': 'g_bl = 0; g_bd = nmemb; g_sr_idx = 0;', 'at': 'func-begin'},
   {'file': 'compat/libc/stdlib/bsearch.c', 'func': 'bsearch', 'ghost': 'g_bm = g_bl + (g_bd >> 1); g_sr_idx = g_bm;',
    'at': 'after', 'anchor_re': r'\bmid\s*=[^;=][^;]*;'},
   {'file': 'compat/libc/stdlib/bsearch.c', 'func': 'bsearch', 'ghost': 'if (right == mid) { g_bd = g_bd >> 1; } else { g_bd = g_bd - (g_bd >> 1); g_bl = g_bm; } g_sr_idx = g_bl;',
    'at': 'body-end', 'loop': 0},
 ],
 'unwindset': ['vc_bsearch.0:5'], 'unwind': 10, 'solver': 'kissat',
 'kf': ['C11_bsearch_empty', 'C11_bsearch_argorder'],
 'kf_probe_case': {'C11_bsearch_argorder': {'probed_by': 'bsearch_safe'}, 'C11_bsearch_empty': {'probed_by': 'bsearch_safe'}},
 'witness': {'unwind': 10, 'unwindset': ['vc_bsearch.0:5']},
 'assumptions': ['bsearch_result: the array is sorted consistently with the comparator (ISO 7.22.5.1p2)'],
} @*/
#include "vc.h"
#include "c11_libc_env.h"
#include "c11_search_stub.h"
static size_t g_bl, g_bd, g_bm; /* ghost element indices, see bsearch_safe.c */
#define bsearch vc_bsearch
#define upper_bound vc_upper_bound
#define lower_bound vc_lower_bound
#include "compat/libc/stdlib/bsearch.c"
#undef bsearch

void harness(void)
{
    WIT(size_t, nmemb);
    WIT_ARR(int, content, 8);
    WIT(int, keyval);
    __CPROVER_assume(nmemb <= 8);
    __CPROVER_assume(KF_C11_bsearch_empty == 0 ? 1 : KF_C11_bsearch_empty == 1 ? nmemb != 0 : nmemb == 0);
    int *arr = NEW_OBJ(nmemb * sizeof(int));
    for (size_t i = 0; i < nmemb; i++)
        arr[i] = content[i];
    for (size_t i = 0; i + 1 < nmemb; i++)
        __CPROVER_assume(arr[i] <= arr[i + 1]); /* ISO 7.22.5.1p2: sorted w.r.t. the comparator */
    int *key = NEW_OBJ(sizeof(int));
    *key = keyval;
    g_sr_base = (const char *)arr;
    g_sr_nmemb = nmemb;
    g_sr_size = sizeof(int);
    g_sr_key = key;
    g_sr_swapped_ok = (KF_C11_bsearch_argorder == 1);

    int *r = vc_bsearch(key, arr, nmemb, sizeof(int), vc_cmp_int_key);

    int present = 0;
    for (size_t i = 0; i < nmemb; i++)
        if (arr[i] == keyval)
            present = 1;
    if (r) {
        __CPROVER_assert(g_bl < nmemb && r == arr + g_bl, "bsearch: a non-NULL result points to an element of the array");
        __CPROVER_assert(*r == keyval, "bsearch: the element returned compares equal to the key");
    }
    __CPROVER_assert((r != 0) == (present != 0), "bsearch: non-NULL if and only if an element equal to the key exists");
    for (size_t i = 0; i < nmemb; i++)
        __CPROVER_assert(arr[i] == content[i], "bsearch does not modify the array");
    CANARY("bsearch_result harness end reachable");
}
