/*@unit {
 'kind': 'proof', 'mode': 'plain',
 'functions': [],
 'clauses': 'the oracle spec/c06_iso_printf.h reproduces fixed ISO C renderings (hand-checked against 7.21.6.1 and identical to what the host C library prints): flags, width, precision, sign, #-forms, zero value with zero precision, %c of a null byte, %s with precision, extreme values; and iso_layout_locate / seg_char agree with the total length.  (The full cross-check against the host printf -- 1e6 directive/value combinations, 3e5 random formats -- is native: units/C06/native/oracle_vs_host.c, refparse_vs_host.c.)',
 'unwind': 40, 'object_bits': 12,
 'complete_unwinding': 'oracle loops have constant bounds (22 digits, 5 segments); text comparison loops run over string literals of at most 24 characters',
} @*/
#include "vc.h"
#include <limits.h>
#include "c06_iso_printf.h"

/* the rendering of (flags,width,prec,conv,u / s) is exactly `want` */
static int same(unsigned fl, long long w, int hp, long long p, int conv, unsigned long long u, const char *s, long long nb, const char *want, int n)
{
    struct iso_layout L = iso_layout_of(fl, w, hp, p, conv, u, s, nb); /* iso_len / iso_char_at are exactly these two calls on it */
    if (iso_layout_len(&L) != n)
        return 0;
    for (int k = 0; k < n; k++)
        if (iso_layout_char_at(&L, k) != (unsigned char)want[k])
            return 0;
    return iso_layout_char_at(&L, n) == -1;
}
#define T(fl, w, hp, p, conv, u, want) __CPROVER_assert(same(fl, w, hp, p, conv, (unsigned long long)(u), 0, 0, want, (int)sizeof(want) - 1), "ISO rendering: " #fl " w=" #w " p=" #hp "/" #p " %" #conv " of " #u " is " want)
#define TS(fl, w, hp, p, str, nb, want) __CPROVER_assert(same(fl, w, hp, p, 's', 0, str, nb, want, (int)sizeof(want) - 1), "ISO rendering: %s of " str " is " want)

void harness(void)
{
    T(0, 0, 0, 0, 'd', 42, "42");
    T(0, 5, 0, 0, 'd', 42, "   42");
    T(ISO_F_MINUS, 5, 0, 0, 'd', 42, "42   ");
    T(ISO_F_ZERO, 5, 0, 0, 'd', -42LL, "-0042");
    T(ISO_F_ZERO | ISO_F_MINUS, 5, 0, 0, 'd', -42LL, "-42  ");
    T(0, 0, 1, 5, 'd', -42LL, "-00042");
    T(ISO_F_PLUS, 0, 1, 5, 'd', 42, "+00042");
    T(0, 0, 1, 0, 'd', 0, "");
    T(0, 3, 1, 0, 'd', 0, "   ");
    T(ISO_F_PLUS, 0, 1, 0, 'i', 0, "+");
    T(ISO_F_PLUS, 0, 0, 0, 'd', 0, "+0");
    T(ISO_F_SPACE, 0, 0, 0, 'd', 42, " 42");
    T(ISO_F_SPACE | ISO_F_PLUS, 0, 0, 0, 'd', 42, "+42");
    T(ISO_F_ZERO, 8, 1, 3, 'd', 42, "     042");
    T(ISO_F_ZERO, 8, 1, 1, 'd', 42, "      42");
    T(0, 0, 0, 0, 'd', LLONG_MIN, "-9223372036854775808");
    T(0, 0, 0, 0, 'd', -2147483648LL, "-2147483648");
    T(0, 0, 0, 0, 'u', ULLONG_MAX, "18446744073709551615");
    T(ISO_F_PLUS | ISO_F_SPACE, 0, 0, 0, 'u', 7, "7");
    T(0, 0, 0, 0, 'o', ULLONG_MAX, "1777777777777777777777");
    T(ISO_F_HASH, 0, 0, 0, 'o', 8, "010");
    T(ISO_F_HASH, 0, 1, 3, 'o', 8, "010");
    T(ISO_F_HASH, 0, 1, 5, 'o', 8, "00010");
    T(ISO_F_HASH, 0, 0, 0, 'o', 0, "0");
    T(ISO_F_HASH, 0, 1, 0, 'o', 0, "0");
    T(0, 0, 1, 0, 'o', 0, "");
    T(ISO_F_HASH | ISO_F_ZERO, 5, 0, 0, 'o', 8, "00010");
    T(0, 0, 0, 0, 'x', 255, "ff");
    T(0, 0, 0, 0, 'X', 255, "FF");
    T(ISO_F_HASH, 0, 0, 0, 'x', 255, "0xff");
    T(ISO_F_HASH, 0, 0, 0, 'X', 255, "0XFF");
    T(ISO_F_HASH, 0, 0, 0, 'x', 0, "0");
    T(ISO_F_HASH, 0, 1, 0, 'x', 0, "");
    T(ISO_F_HASH, 0, 1, 5, 'x', 255, "0x000ff");
    T(ISO_F_HASH | ISO_F_ZERO, 8, 0, 0, 'x', 255, "0x0000ff");
    T(ISO_F_HASH, 8, 0, 0, 'x', 255, "    0xff");
    T(ISO_F_HASH | ISO_F_MINUS, 8, 0, 0, 'x', 255, "0xff    ");
    T(0, 0, 0, 0, 'x', ULLONG_MAX, "ffffffffffffffff");
    T(0, 0, 0, 0, 'c', 'A', "A");
    T(0, 3, 0, 0, 'c', 'A', "  A");
    T(ISO_F_MINUS, 3, 0, 0, 'c', 'A', "A  ");
    T(0, 0, 0, 0, 'c', 0, "\0");
    T(0, 2, 0, 0, 'c', 0x100, " \0");
    T(0, 0, 0, 0, 'p', 0x1234, "0x0000000000001234");
    T(0, 20, 0, 0, 'p', 0, "  0x0000000000000000");
    T(ISO_F_MINUS, 20, 0, 0, 'p', ULLONG_MAX, "0xffffffffffffffff  ");
    TS(0, 0, 0, 0, "abc", 3, "abc");
    TS(0, 5, 0, 0, "abc", 3, "  abc");
    TS(ISO_F_MINUS, 5, 0, 0, "abc", 3, "abc  ");
    TS(0, 0, 1, 2, "abc", 2, "ab");
    TS(0, 4, 1, 0, "abc", 0, "    ");
    TS(0, 0, 0, 0, "", 0, "");
    /* locate / seg_len / seg_char consistency on an arbitrary position of an arbitrary integer layout */
    WIT(uint, fl);
    WIT(int, w);
    WIT(int, p);
    WIT(ullong, v);
    WIT(llong, k);
    __CPROVER_assume(w >= 0 && p >= 0 && fl < 64);
    struct iso_layout L = iso_int_layout(fl & 31, w, (fl & 32) != 0, p, 16, 0, 0, v);
    long long j = -7;
    int seg = iso_layout_locate(&L, k, &j);
    long long before = 0;
    for (int s = 0; s < 5; s++)
        if (s < seg)
            before += iso_layout_seg_len(&L, s);
    __CPROVER_assert((seg < 0) == (k < 0 || k >= iso_layout_len(&L)), "locate: a position is inside the text iff it is below the total length");
    __CPROVER_assert(seg < 0 || (j >= 0 && j < iso_layout_seg_len(&L, seg) && before + j == k), "locate: position == lengths of the earlier segments + offset");
    __CPROVER_assert(L.lpad >= 0 && L.zeros >= 0 && L.nbody >= 0 && L.rpad >= 0 && L.plen >= 0 && iso_layout_len(&L) >= w, "layout: segment lengths are not negative, total at least the width");
    CANARY("oracle_selfcheck end reachable");
}
