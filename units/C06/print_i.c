/*@unit {
 'kind': 'proof', 'mode': 'legacy',
 'functions': ['print_i'],
 'clauses': 'd/i, u, o, x/X and the %p call of print_i: for every 64-bit value, every flag set (- + space # 0, upper case), every width >= 0 and every precision >= 0 or none: return value == ISO length, number of callback calls == return value, the k-th character handed to the callback == k-th character of the ISO text (arbitrary k); digits are built inside buff[23] only (every access checked); no signed overflow',
 'params': {'CONV': ['CONV_D', 'CONV_U', 'CONV_O', 'CONV_X', 'CONV_P']},
 'include': ['igris/util'],
 'solver': 'kissat',
 'unwind': 24,
 'complete_unwinding': 'digit loop (do..while (u)): at most 22 iterations (64-bit value, base 8); prefix loop: at most 2; digit output loop (while (len--)): at most 22; strlen of the 0..2 character prefix literal (cbmc library model): at most 3; oracle loops: constant bound 22.  All unwound 24 times with unwinding assertions.  The three padding loops (bounded by width/precision) are closed by injected invariants.',
 'inject': [
  {'file': 'igris/util/printf_impl.c', 'func': 'print_i', 'at': 'before', 'anchor': 'for (; space_count; --space_count)',
   'ghost': 'g_c1 = g_count; g_n1 = space_count; g_g1 = g_got;'},
  {'file': 'igris/util/printf_impl.c', 'func': 'print_i', 'loop': 1, 'expect': 'for (; space_count; --space_count)',
   'assigns': 'space_count, g_count, g_got',
   'invariants': ['0 <= space_count && space_count <= g_n1',
                  'g_count == g_c1 + (g_n1 - space_count)',
                  'g_k < g_c1 ==> g_got == g_g1',
                  '(g_c1 <= g_k && g_k < g_count) ==> g_got == 32'],
   'decreases': 'space_count'},
  {'file': 'igris/util/printf_impl.c', 'func': 'print_i', 'at': 'before', 'anchor': 'while (zero_count--)',
   'ghost': 'g_c3 = g_count; g_n3 = zero_count; g_g3 = g_got;'},
  {'file': 'igris/util/printf_impl.c', 'func': 'print_i', 'loop': 3, 'expect': 'while (zero_count--)',
   'assigns': 'zero_count, g_count, g_got',
   'invariants': ['0 <= zero_count && zero_count <= g_n3',
                  'g_count == g_c3 + (g_n3 - zero_count)',
                  'g_k < g_c3 ==> g_got == g_g3',
                  '(g_c3 <= g_k && g_k < g_count) ==> g_got == 48'],
   'decreases': 'zero_count'},
  {'file': 'igris/util/printf_impl.c', 'func': 'print_i', 'at': 'before', 'anchor': 'while (len--)',
   'ghost': 'g_c4 = g_count; g_n4 = len; g_g4 = g_got; g_s4 = str;'},
  {'file': 'igris/util/printf_impl.c', 'func': 'print_i', 'loop': 4, 'expect': 'while (len--)',
   'assigns': 'len, str, g_count, g_got',
   'invariants': ['0 <= len && len <= g_n4',
                  '__CPROVER_same_object(str, g_s4) && __CPROVER_POINTER_OFFSET(str) == __CPROVER_POINTER_OFFSET(g_s4) + (g_n4 - len)',
                  'g_count == g_c4 + (g_n4 - len)',
                  'g_k < g_c4 ==> g_got == g_g4',
                  '(g_c4 <= g_k && g_k < g_count) ==> g_got == (int)g_s4[g_k - g_c4]'],
   'decreases': 'len'},
  {'file': 'igris/util/printf_impl.c', 'func': 'print_i', 'at': 'before', 'anchor': 'while (space_count--)',
   'ghost': 'g_c5 = g_count; g_n5 = space_count; g_g5 = g_got;'},
  {'file': 'igris/util/printf_impl.c', 'func': 'print_i', 'loop': 5, 'expect': 'while (space_count--)',
   'assigns': 'space_count, g_count, g_got',
   'invariants': ['0 <= space_count && space_count <= g_n5',
                  'g_count == g_c5 + (g_n5 - space_count)',
                  'g_k < g_c5 ==> g_got == g_g5',
                  '(g_c5 <= g_k && g_k < g_count) ==> g_got == 32'],
   'decreases': 'space_count'},
 ],
 'kf': ['C06_neg_narrowing', 'C06_prec_minus_prefix', 'C06_prec0_val0', 'C06_hash_zero', 'C06_zero_flag_with_prec'],
 'kf_probe_case': {'C06_neg_narrowing': {'CONV': 'CONV_D'}, 'C06_prec_minus_prefix': {'CONV': 'CONV_D'},
                   'C06_prec0_val0': {'CONV': 'CONV_U'}, 'C06_hash_zero': {'CONV': 'CONV_X'},
                   'C06_zero_flag_with_prec': {'CONV': 'CONV_O'}},
 'assumptions': ['print_i call-site facts of __printf: width >= 0 (MAX(width, 0)); min_len >= 0; min_len == 0 when OPS_PREC_IS_GIVEN is clear (precision = atoi of a non-digit, or a negative `*` argument reset to 0); (base, is_signed) is (10,1) for d/i, (10,0) u, (8,0) o, (16,0) x/X; OPS_SPEC_UPPER_CASE only for X; %p: min_len = 2*sizeof(void*)+2, ops | WITH_SPEC | ZERO_PAD, base 16 (that __printf passes exactly these is proved by the fetch_* units)',
                 'the ISO text has at most INT_MAX characters (the int return value cannot report more; C11 7.21.6.1p14/15)'],
 'witness': {'unwind': 24},
} @*/
#include "vc.h"
#include "c06_env.h"
#include "c06_iso_printf.h"
/* ghost snapshots taken by the injected statements in front of the three padding loops */
long long g_c1, g_n1, g_c3, g_n3, g_c4, g_n4, g_c5, g_n5;
int g_g1, g_g3, g_g4, g_g5;
const char *g_s4;
#include "igris/util/printf_impl.c"

#define CONV_D 0
#define CONV_U 1
#define CONV_O 2
#define CONV_X 3
#define CONV_P 4

void harness(void)
{
    WIT(ullong, v);
    WIT(uint, ops_in);
    WIT(int, width);
    WIT(int, prec);
    WIT(llong, k);
    const uint flagbits = OPS_FLAG_LEFT_ALIGN | OPS_FLAG_WITH_SIGN | OPS_FLAG_EXTRA_SPACE | OPS_FLAG_WITH_SPEC | OPS_FLAG_ZERO_PAD;
    /* the bits print_i looks at; the OPS_LEN_* bits are arbitrary (print_i must not depend on them) */
    uint ops = ops_in;
    int base = CONV == CONV_O ? 8 : (CONV == CONV_X || CONV == CONV_P) ? 16 : 10;
    int is_signed = CONV == CONV_D;
    int min_len = prec;
    __CPROVER_assume(width >= 0 && prec >= 0);
    if (CONV != CONV_X)
        __CPROVER_assume(!(ops & OPS_SPEC_UPPER_CASE));
    int has_prec = (ops & OPS_PREC_IS_GIVEN) != 0;
    struct iso_layout L;
    if (CONV == CONV_P) {
        /* the %p call of __printf */
        v = (size_t)v;
        min_len = (int)(sizeof(void *) * 2 + 2);
        ops |= OPS_FLAG_WITH_SPEC | OPS_FLAG_ZERO_PAD;
        L = iso_ptr_layout(C06_ISO_FLAGS(ops_in), width, v);
    } else {
        __CPROVER_assume(has_prec || prec == 0);
        L = iso_int_layout(C06_ISO_FLAGS(ops), width, has_prec, prec, (unsigned)base, is_signed, (ops & OPS_SPEC_UPPER_CASE) != 0, v);
    }
    long long want = iso_layout_len(&L);
    __CPROVER_assume(want <= INT_MAX);

    /* known-finding regions, each a predicate over (conversion, ops, precision, value) */
    int nat = iso_ndigits(L.mag, (unsigned)base); /* significant digits of |v| (0 for v == 0) */
    int code_len = nat ? nat : 1;                 /* digits the do-while produces */
    int sign_or_0x = CONV == CONV_D ? ((llong)v < 0 || (ops & (OPS_FLAG_WITH_SIGN | OPS_FLAG_EXTRA_SPACE)))
                     : CONV == CONV_X ? (ops & OPS_FLAG_WITH_SPEC) != 0 : 0;
    int plen_code = CONV == CONV_D ? (sign_or_0x ? 1 : 0) : CONV == CONV_X ? (sign_or_0x ? 2 : 0)
                    : CONV == CONV_O ? ((ops & OPS_FLAG_WITH_SPEC) ? 1 : 0) : 0;
#define R_NEG_NARROWING (CONV == CONV_D && (llong)v < -2147483647LL)
#define R_PREC_MINUS_PREFIX ((CONV == CONV_D || CONV == CONV_X) && sign_or_0x && code_len < prec)
#define R_PREC0_VAL0 (CONV != CONV_P && has_prec && prec == 0 && v == 0)
#define R_HASH_ZERO ((CONV == CONV_X && (ops & OPS_FLAG_WITH_SPEC) && v == 0) || \
                     (CONV == CONV_O && (ops & OPS_FLAG_WITH_SPEC) && v == 0 && prec <= 1))
#define R_ZERO_FLAG_WITH_PREC (CONV != CONV_P && has_prec && (ops & OPS_FLAG_ZERO_PAD) && !(ops & OPS_FLAG_LEFT_ALIGN) && \
                               code_len >= prec && width > code_len + plen_code)
#define KF_REGION(kf, r) __CPROVER_assume((kf) == 0 ? 1 : (kf) == 1 ? !(r) : (r))
    KF_REGION(KF_C06_neg_narrowing, R_NEG_NARROWING);
    KF_REGION(KF_C06_prec_minus_prefix, R_PREC_MINUS_PREFIX);
    KF_REGION(KF_C06_prec0_val0, R_PREC0_VAL0);
    KF_REGION(KF_C06_hash_zero, R_HASH_ZERO);
    KF_REGION(KF_C06_zero_flag_with_prec, R_ZERO_FLAG_WITH_PREC);

    g_count = 0;
    g_k = k;
    g_got = -2;

    int ret = print_i(iso_recorder, 0, v, is_signed, width, min_len, ops, base);

    __CPROVER_assert(ret == want, "print_i: return value == number of characters ISO C 7.21.6.1 prescribes for this directive and value");
    __CPROVER_assert(g_count == ret, "print_i: return value == number of characters handed to the callback");
    __CPROVER_assert(!(k >= 0 && k < want && k < g_count) || g_got == iso_layout_char_at(&L, k),
                     "print_i: k-th character handed to the callback == k-th character of the ISO text");
    CANARY("print_i harness end reachable");
}
