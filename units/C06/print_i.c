/*@unit {
 'kind': 'proof', 'mode': 'dfcc',
 'functions': ['print_i'],
 'clauses': 'd/i, u, o, x/X and the %p call of print_i: for every 64-bit value, every flag set (- + space # 0, upper case), every width >= 0 and every precision >= 0 or none: return value == ISO length == number of callback calls; each of the five output segments (left pad, sign/0x prefix, zeros, digits, right pad) has the length ISO C 7.21.6.1 prescribes and its j-th character (arbitrary segment and j) is the ISO one; digits are built inside buff[23] only (every access checked); no signed overflow',
 'params': {'CONV': ['CONV_D', 'CONV_U', 'CONV_O', 'CONV_X', 'CONV_P']},
 'include': ['igris/util'],
 'unwind': 24,
 'complete_unwinding': 'digit loop (do..while (u)): at most 22 iterations (64-bit value, base 8); prefix loop: at most 2; strlen of the 0..2 character prefix literal (cbmc library model): at most 3; oracle loops: constant bound 22.  All unwound 24 times with unwinding assertions.  The four loops bounded by width/precision/len are closed by injected invariants.',
 'ghost_calls': ['iso_digit_char'],
 'inject': [
  {'file': 'igris/util/printf_impl.c', 'func': 'print_i', 'loop': 0, 'expect': 'while (u)',
   'assigns': 'ch, str, u, __CPROVER_object_whole(buff), g_q, g_i, g_refc',
   'invariants': ['0 <= g_i && g_i < g_nd && g_nd <= ISO_MAXDIG',
                  '__CPROVER_same_object(str, buff) && __CPROVER_POINTER_OFFSET(str) == PRINT_I_BUFF_SZ - 1 - g_i',
                  'u == g_q',
                  'G_LEN_IS(u, g_nd - g_i)',
                  '(0 <= g_w && g_w < g_i) ==> buff[PRINT_I_BUFF_SZ - 2 - g_w] == g_refc'],
   'decreases': 'g_nd - g_i'},
  {'file': 'igris/util/printf_impl.c', 'func': 'print_i', 'loop': 0, 'at': 'body-begin',
   'ghost': 'g_refc = (g_i == g_w) ? iso_digit_char((unsigned)(u % base), (ops & OPS_SPEC_UPPER_CASE) != 0) : g_refc; g_q = g_q / (unsigned)base;'},
  {'file': 'igris/util/printf_impl.c', 'func': 'print_i', 'loop': 0, 'at': 'body-end', 'ghost': 'g_i = g_i + 1;'},
  {'file': 'igris/util/printf_impl.c', 'func': 'print_i', 'at': 'before', 'anchor': 'len = (int)(end - str);',
   'ghost': '__CPROVER_assert(g_i == g_nd, "print_i: as many digits produced as |v| has in this base (least n >= 1 with |v| < base^n)"); __CPROVER_assume(g_i == g_nd);'},
  {'file': 'igris/util/printf_impl.c', 'func': 'print_i', 'at': 'after', 'anchor': 'space_count = MAX(space_count, 0);',
   'ghost': '__CPROVER_assert(G_LAYOUT_IS_ISO(prefix_len, zero_count, len, space_count), "print_i: the computed layout (prefix, zero, digit and space counts) is the ISO layout of this directive and value"); __CPROVER_assume(G_LAYOUT_IS_ISO(prefix_len, zero_count, len, space_count));'},
  {'file': 'igris/util/printf_impl.c', 'func': 'print_i', 'at': 'before', 'anchor': 'for (; space_count; --space_count)',
   'ghost': 'g_seg = 0; g_pos = 0; g_c1 = g_count; g_n1 = space_count; g_g1 = g_got;'},
  {'file': 'igris/util/printf_impl.c', 'func': 'print_i', 'loop': 1, 'expect': 'for (; space_count; --space_count)',
   'assigns': 'space_count, g_count, g_pos, g_got',
   'invariants': ['0 <= space_count && space_count <= g_n1',
                  'g_pos == g_n1 - space_count && g_count == g_c1 + g_pos',
                  '(g_kseg == 0 && g_kj < g_pos) ? g_got == 32 : g_got == g_g1'],
   'decreases': 'space_count'},
  {'file': 'igris/util/printf_impl.c', 'func': 'print_i', 'at': 'before', 'anchor': 'while (prefix_len--)',
   'ghost': 'g_l0 = (g_seg == 0) ? g_pos : 0; g_seg = G_PREFIX_SEG; g_pos = 0;'},
  {'file': 'igris/util/printf_impl.c', 'func': 'print_i', 'at': 'before', 'anchor': 'while (zero_count--)',
   'ghost': 'g_l1 = (g_seg == 1) ? g_pos : 0; g_p3 = (g_seg == 2) ? g_pos : 0; g_seg = 2; g_pos = g_p3; g_c3 = g_count; g_n3 = zero_count; g_g3 = g_got;'},
  {'file': 'igris/util/printf_impl.c', 'func': 'print_i', 'loop': 3, 'expect': 'while (zero_count--)',
   'assigns': 'zero_count, g_count, g_pos, g_got',
   'invariants': ['0 <= zero_count && zero_count <= g_n3',
                  'g_pos == g_p3 + (g_n3 - zero_count) && g_count == g_c3 + (g_n3 - zero_count)',
                  '(g_kseg == 2 && g_kj < g_pos) ? g_got == 48 : g_got == g_g3'],
   'decreases': 'zero_count'},
  {'file': 'igris/util/printf_impl.c', 'func': 'print_i', 'at': 'before', 'anchor': 'while (len--)',
   'ghost': 'g_l2 = g_pos; g_seg = 3; g_pos = 0; g_c4 = g_count; g_n4 = len; g_g4 = g_got; g_s4 = str;'},
  {'file': 'igris/util/printf_impl.c', 'func': 'print_i', 'loop': 4, 'expect': 'while (len--)',
   'assigns': 'len, str, g_count, g_pos, g_got',
   'invariants': ['0 <= len && len <= g_n4',
                  '__CPROVER_same_object(str, g_s4) && __CPROVER_POINTER_OFFSET(str) == __CPROVER_POINTER_OFFSET(g_s4) + g_pos',
                  'g_pos == g_n4 - len && g_count == g_c4 + g_pos',
                  '(g_kseg == 3 && g_kj < g_pos) ? g_got == (int)g_s4[g_kj] : g_got == g_g4'],
   'decreases': 'len'},
  {'file': 'igris/util/printf_impl.c', 'func': 'print_i', 'at': 'before', 'anchor': 'while (space_count--)',
   'ghost': 'g_l3 = g_pos; g_seg = 4; g_pos = 0; g_c5 = g_count; g_n5 = space_count; g_g5 = g_got;'},
  {'file': 'igris/util/printf_impl.c', 'func': 'print_i', 'loop': 5, 'expect': 'while (space_count--)',
   'assigns': 'space_count, g_count, g_pos, g_got',
   'invariants': ['0 <= space_count && space_count <= g_n5',
                  'g_pos == g_n5 - space_count && g_count == g_c5 + g_pos',
                  '(g_kseg == 4 && g_kj < g_pos) ? g_got == 32 : g_got == g_g5'],
   'decreases': 'space_count'},
 ],
 'kf': ['C06_neg_narrowing', 'C06_prec_minus_prefix', 'C06_prec0_val0', 'C06_hash_zero', 'C06_zero_flag_with_prec'],
 'kf_probe_case': {'C06_neg_narrowing': {'CONV': 'CONV_D'}, 'C06_prec_minus_prefix': {'CONV': 'CONV_D'},
                   'C06_prec0_val0': {'CONV': 'CONV_U'}, 'C06_hash_zero': {'CONV': 'CONV_X'},
                   'C06_zero_flag_with_prec': {'CONV': 'CONV_O'}},
 'assumptions': ['print_i call-site facts of __printf: width >= 0 (MAX(width, 0)); min_len >= 0; min_len == 0 when OPS_PREC_IS_GIVEN is clear (precision = atoi of a non-digit, or a negative `*` argument reset to 0); (base, is_signed) is (10,1) for d/i, (10,0) u, (8,0) o, (16,0) x/X; OPS_SPEC_UPPER_CASE only for X; %p: precision and forced flag bits as in spec/c06_pform.h, base 16 (that __printf passes exactly these is proved by fetch_csp / parser)',
                 'the ISO text has at most INT_MAX characters (the int return value cannot report more)'],
 'trusted': ['segment-wise equality (same five lengths, same character at every (segment, offset)) implies equality of the two concatenated texts -- elementary, done outside the solver',
             'digits of |v|: defined by the positional recurrence q0 = |v|, digit(i) = q(i) mod base, q(i+1) = q(i) div base, co-simulated in lock-step inside the digit loop (as units/C07 do); the NUMBER of digits is compared with the independent oracle (least n with |v| < base^n), and witness/replay runs compare against the closed form (|v| div base^i) mod base'],
 'witness': {'unwind': 26},
} @*/
#include "vc.h"
#include "c06_env.h"
#include "c06_iso_printf.h"
/* ghost state written by the injected statements */
long long g_c1, g_n1, g_c3, g_n3, g_c4, g_n4, g_c5, g_n5; /* count / iterations at the start of a contracted loop */
int g_g1, g_g3, g_g4, g_g5;                               /* recorded character at that point */
const char *g_s4;                                         /* start of the digit text inside buff */
long long g_p3;                                           /* characters already in segment 2 when the zero loop starts (octal '#' prefix) */
long long g_l0, g_l1, g_l2, g_l3;                         /* lengths of the segments already finished */
unsigned long long g_q;                                   /* reference recurrence: current quotient */
int g_nd;                                                 /* digits of |v| per the oracle (least n >= 1 with |v| < base^n; 0 for value 0 with precision 0) */
unsigned long long g_pow[ISO_MAXDIG + 2];                 /* base^j, 0 when that exceeds 64 bits */
/* "q has exactly n digits": base^(n-1) <= q < base^n (n == 1 also covers q == 0); pure expression for invariants */
#define G_LEN_IS(q, n) ((n) >= 1 && (n) <= ISO_MAXDIG && ((n) == 1 || (q) >= g_pow[(n)-1]) && (g_pow[(n)] == 0 || (q) < g_pow[(n)]))
int g_i, g_w;                                             /* iterations so far; weight (power of base) of the ghost digit */
char g_refc;                                              /* reference digit character of weight g_w */
struct iso_layout g_L;                                    /* the ISO layout, computed by the harness before the call */
/* cut point after the counts are computed (asserted, then assumed: sound, and it lets the solver treat the
 * arithmetic and the output loops separately).  The code counts the '0' that '#' puts in front of an octal
 * number as a prefix; in the ISO layout it is the first of the leading zeros (same text). */
#define G_LAYOUT_IS_ISO(pl, zc, ln, sc)                                                              \
    ((CONV == CONV_O ? (g_L.plen == 0 && (pl) + (zc) == g_L.zeros) : ((pl) == g_L.plen && (zc) == g_L.zeros)) && \
     (ln) == g_L.nbody && (sc) == g_L.lpad + g_L.rpad)
/* segment label of the prefix loop: sign / 0x are segment 1; the "0" of '#' with o is the first leading zero */
#define G_PREFIX_SEG (CONV == CONV_O ? 2 : 1)
#define CONV_D 0
#define CONV_U 1
#define CONV_O 2
#define CONV_X 3
#define CONV_P 4
#include "igris/util/printf_impl.c"
#include "c06_pform.h"

void harness(void)
{
    WIT(ullong, v);
    WIT(uint, ops_in);
    WIT(int, width);
    WIT(int, prec);
    WIT(int, kseg);  /* ghost index: segment ... */
    WIT(llong, kj);  /* ... and offset inside it; both arbitrary */
    /* OPS_LEN_* bits stay arbitrary: print_i must not depend on them */
    uint ops = ops_in;
    int base = CONV == CONV_O ? 8 : (CONV == CONV_X || CONV == CONV_P) ? 16 : 10;
    int is_signed = CONV == CONV_D;
    int min_len = prec;
    __CPROVER_assume(width >= 0 && prec >= 0);
#ifdef WITNESS_MODE /* concretisation: the padding loops are unwound, keep them short */
    __CPROVER_assume(width <= 20 && prec <= 20);
#endif
    if (CONV != CONV_X)
        __CPROVER_assume(!(ops & OPS_SPEC_UPPER_CASE));
    int has_prec = (ops & OPS_PREC_IS_GIVEN) != 0;
    int upper = (ops & OPS_SPEC_UPPER_CASE) != 0;
    struct iso_layout L;
    if (CONV == CONV_P) {
        /* the %p call of __printf (form: spec/c06_pform.h) */
        v = (size_t)v;
        min_len = C06_P_MINLEN;
        ops = C06_P_OPS(ops);
        L = iso_ptr_layout(C06_ISO_FLAGS(ops_in), width, v);
    } else {
        __CPROVER_assume(has_prec || prec == 0);
        L = iso_int_layout(C06_ISO_FLAGS(ops), width, has_prec, prec, (unsigned)base, is_signed, upper, v);
    }
    g_L = L;
    long long want = iso_layout_len(&L);
    __CPROVER_assume(want <= INT_MAX);

    /* known-finding regions, each a predicate over (conversion, ops, precision, value) */
    int nat = iso_ndigits(L.mag, (unsigned)base); /* significant digits of |v| (0 for v == 0) */
    int code_len = nat ? nat : 1;                 /* digits of |v| when 0 is written as "0" */
    int sign_or_0x = CONV == CONV_D ? ((llong)v < 0 || (ops & (OPS_FLAG_WITH_SIGN | OPS_FLAG_EXTRA_SPACE)))
                     : CONV == CONV_X ? (ops & OPS_FLAG_WITH_SPEC) != 0 : 0;
    int plen_code = CONV == CONV_D ? (sign_or_0x ? 1 : 0) : CONV == CONV_X ? (sign_or_0x ? 2 : 0)
                    : CONV == CONV_O ? ((ops & OPS_FLAG_WITH_SPEC) ? 1 : 0) : 0;
#define R_NEG_NARROWING (CONV == CONV_D && (llong)v < -2147483647LL)
#define R_PREC_MINUS_PREFIX ((CONV == CONV_D || CONV == CONV_X) && sign_or_0x && code_len < prec)
#define R_PREC0_VAL0 (CONV != CONV_P && has_prec && prec == 0 && v == 0)
#define R_HASH_ZERO ((CONV == CONV_X && (ops & OPS_FLAG_WITH_SPEC) && v == 0) || \
                     (CONV == CONV_O && (ops & OPS_FLAG_WITH_SPEC) && v == 0 && prec <= 1))
#define R_ZERO_FLAG_WITH_PREC (CONV != CONV_P && has_prec && (ops & OPS_FLAG_ZERO_PAD) && !(ops & OPS_FLAG_LEFT_ALIGN) && \
                               code_len >= prec && width > code_len + plen_code)
#define KF_REGION(kf, r) __CPROVER_assume((kf) == 0 ? 1 : (kf) == 1 ? !(r) : (r))
    KF_REGION(KF_C06_neg_narrowing, R_NEG_NARROWING);
    KF_REGION(KF_C06_prec_minus_prefix, R_PREC_MINUS_PREFIX);
    KF_REGION(KF_C06_prec0_val0, R_PREC0_VAL0);
    KF_REGION(KF_C06_hash_zero, R_HASH_ZERO);
    KF_REGION(KF_C06_zero_flag_with_prec, R_ZERO_FLAG_WITH_PREC);

    /* ghost index: an arbitrary character of the ISO text */
    __CPROVER_assume(kseg >= 0 && kseg <= 4 && kj >= 0 && kj < iso_layout_seg_len(&L, kseg));
    g_count = 0; g_k = -1; g_seg = -1; g_pos = 0;
    g_kseg = kseg; g_kj = kj; g_got = -2;
    g_l0 = g_l1 = g_l2 = g_l3 = 0;
    g_q = L.mag; g_i = 0; g_refc = 0; g_nd = (int)L.nbody; /* ISO: digits of |v|; the single digit 0 for zero, none for zero with precision 0 */
    iso_pow_init(g_pow, (unsigned)base);
    g_w = kseg == 3 ? (int)(L.nbody - 1 - kj) : -1; /* weight of the kj-th most significant of nbody digits */

    int ret = print_i(iso_recorder, 0, v, is_signed, width, min_len, ops, base);
    long long l4 = g_seg == 4 ? g_pos : 0;

    /* CUT(c): assert c, then continue under c (sound: nothing is assumed that was not just asserted); it spares the
       solver re-deriving the segment equalities inside the sum below */
#define CUT(c, msg) do { __CPROVER_assert(c, msg); __CPROVER_assume(c); } while (0)
    CUT(g_l0 == L.lpad && l4 == L.rpad, "print_i: left / right space padding as ISO prescribes ('-' flag, width)");
    CUT(g_l1 == L.plen, "print_i: sign / 0x prefix has the ISO length");
    CUT(g_l2 == L.zeros && g_l3 == L.nbody, "print_i: number of leading zeros (precision, 0 flag, # with o) and of digits as ISO prescribes");
    __CPROVER_assert(ret == want, "print_i: return value == number of characters ISO C 7.21.6.1 prescribes for this directive and value");
    __CPROVER_assert(g_count == ret, "print_i: return value == number of characters handed to the callback");
#ifdef WITNESS_MODE
    int expect = iso_layout_seg_char(&L, kseg, kj); /* closed-form oracle */
#else
    int expect = kseg == 3 ? g_refc : iso_layout_seg_char(&L, kseg, kj);
#endif
    __CPROVER_assert(g_got == expect, "print_i: j-th character of segment s handed to the callback == the ISO text's (arbitrary s, j)");
    CANARY("print_i harness end reachable");
}
