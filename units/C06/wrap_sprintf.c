/*@unit {
 'kind': 'proof', 'mode': 'legacy',
 'functions': ['vsprintf', 'sprintf', 'sprint_printchar'],
 'clauses': 'vsprintf / sprintf (compat/libc/stdio/sprintf.c) on top of __printf as characterised by the other units (it hands n characters to the callback, one call each, in order, and returns n): the n characters land in s[0..n) in order (arbitrary index k), s[n] is the terminating null, nothing outside s[0..n] is written (exact-size object), the return value is n; sprintf passes format and arguments through to vsprintf and returns its value',
 'loop_contracts_in_unit': 1,
 'include': ['igris/util'],
 'assumptions': ['__printf is represented by its contract, written as a stub with a loop invariant: n callback calls (n arbitrary) with arbitrary characters, callback data passed unchanged, return value n -- the facts units print_i / print_s / parser* establish about the real __printf (return value == number of callback calls)',
                 'the destination has room for the text and its terminator (ISO 7.21.6.6: otherwise undefined); the object is exactly n+1 bytes'],
 'witness': {'unwind': 9},
} @*/
#include "vc.h"
#include <stdarg.h>
#include <stdio.h>
#define vsprintf vc_vsprintf
#define sprintf vc_sprintf
#define snprintf vc_snprintf
#include "compat/libc/stdio/sprintf.c"

size_t g_n;    /* how many characters __printf emits in this run (arbitrary) */
size_t g_k;    /* ghost index */
char g_ck;     /* the character emitted at position g_k */
char *g_buf;   /* the destination */
const char *g_fmt_seen;
char nondet_char(void);

/* contract of __printf as a stub (see 'assumptions') */
int __printf(void (*printchar_handler)(void *d, int c), void *printchar_data, const char *format, va_list args)
{
    size_t i = 0;
    g_fmt_seen = format;
    (void)args;
    while (i < g_n)
    __CPROVER_assigns(i, g_ck, ((struct sprint_char_handler_data *)printchar_data)->cursor, __CPROVER_object_whole(g_buf))
    __CPROVER_loop_invariant(i <= g_n)
    __CPROVER_loop_invariant(__CPROVER_same_object(((struct sprint_char_handler_data *)printchar_data)->cursor, g_buf) &&
                             (size_t)__CPROVER_POINTER_OFFSET(((struct sprint_char_handler_data *)printchar_data)->cursor) == i)
    __CPROVER_loop_invariant(!(g_k < i) || g_buf[g_k] == g_ck)
    __CPROVER_decreases(g_n - i)
    {
        char c = nondet_char();
        if (i == g_k)
            g_ck = c;
        printchar_handler(printchar_data, c);
        i++;
    }
    return (int)i;
}

static int call_vsprintf(char *s, const char *fmt, ...)
{
    va_list ap;
    va_start(ap, fmt);
    int r = vc_vsprintf(s, fmt, ap);
    va_end(ap);
    return r;
}

void harness(void)
{
    WIT(size_t, n);
    WIT(size_t, k);
    WIT(uint, via_sprintf);
    WIT_ARR(char, content, 7);
    static const char fmt[] = "f";
    __CPROVER_assume(n <= VC_MAXOBJ && n <= INT_MAX);
    char *s = NEW_OBJ(n + 1); /* exact: text and terminator, not a byte more */
    FILL(s, n + 1, content);
    g_n = n, g_k = k, g_buf = s, g_ck = 0, g_fmt_seen = 0;

    int r = via_sprintf ? vc_sprintf(s, fmt, 1, 2) : call_vsprintf(s, fmt, 1, 2);

    __CPROVER_assert(r >= 0 && (size_t)r == n, "v/sprintf: returns the number of characters __printf emitted");
    __CPROVER_assert(s[n] == 0, "v/sprintf: the text is terminated right after the last character");
    __CPROVER_assert(!(k < n) || s[k] == g_ck, "v/sprintf: the k-th emitted character is the k-th byte of the destination (arbitrary k)");
    __CPROVER_assert(g_fmt_seen == fmt, "v/sprintf: the format is passed through to __printf");
    CANARY("wrap_sprintf harness end reachable");
}
