/*@unit {
 'kind': 'proof', 'mode': 'legacy',
 'functions': ['__printf'],
 'replace': ['print_i', 'print_s'],
 'clauses': 'argument fetch of c, s, p: %c hands print_s the one-byte string made of (unsigned char)arg (so that, by the print_s proof, exactly that byte is written, padded to the width); %s hands print_s the argument pointer with width and precision; %p hands print_i the pointer value as an unsigned 64-bit number, base 16, with the fixed form 0x + 2*sizeof(void*) digits; width / precision through * as ISO prescribes; callback and data passed on; __printf returns what the conversion returned',
 'params': {'CONV': ['CONV_c', 'CONV_s', 'CONV_p']},
 'include': ['igris/util'],
 'unwind': 12,
 'complete_unwinding': 'literal formats of at most 5 characters: all loops of __printf and of the real shim atoi run over them',
 'kf': ['C06_neg_star_width', 'C06_char_nul'],
 'kf_probe_case': {'C06_neg_star_width': {'CONV': 'CONV_s'}, 'C06_char_nul': {'CONV': 'CONV_c'}},
 'assumptions': ['a `*` width argument is not INT_MIN', '%s: the argument is not a null pointer (undefined in ISO; igris prints (null))',
                 'varargs: cbmc model of va_arg on x86_64'],
 'trusted': ['atoi: the real shim code compat/libc/stdlib/atol.c runs on the literal format'],
 'witness': {'unwind': 12},
} @*/
#include "vc.h"
#include "c06_env.h"
#include "c06_print_contracts.h"
#define atol vc_atol
#define atoi vc_atoi
#include "compat/libc/stdlib/atol.c"
#include "igris/util/printf_impl.c"
#include "c06_pform.h"

#define CONV_c 'c'
#define CONV_s 's'
#define CONV_p 'p'

static int g_cbdata;
static int call(const char *fmt, ...)
{
    va_list ap;
    va_start(ap, fmt);
    int r = __printf(c06_event_recorder, &g_cbdata, fmt, ap);
    va_end(ap);
    return r;
}

#define STAR_W(w) (g_e_width == ((w) < 0 ? -(w) : (w)) && ((g_e_ops & C06_OPS_LEFT) != 0) == ((w) < 0))
#define STAR_P(p) (g_e_prec == ((p) < 0 ? 0 : (p)) && ((g_e_ops & C06_OPS_PREC) != 0) == ((p) >= 0))

void harness(void)
{
    WIT(int, a);
    WIT(int, w);
    WIT(int, p);
    WIT(uint, isnull);
    WIT_ARR(char, content, 2);
    int r;
    __CPROVER_assume(w != INT_MIN);
    __CPROVER_assume(KF_C06_neg_star_width == 0 ? 1 : KF_C06_neg_star_width == 1 ? !(w < 0) : (w < 0));
#if CONV == CONV_c
    __CPROVER_assume(KF_C06_char_nul == 0 ? 1 : KF_C06_char_nul == 1 ? !((uchar)a == 0) : ((uchar)a == 0));
    c06_events_reset(0);
    r = call("%c", a);
    __CPROVER_assert(g_ev == 1 && g_nlit == 0 && g_e_kind == C06_EV_STR, "%c: exactly one string conversion, no other output");
    __CPROVER_assert((uchar)g_e_s0 == (uchar)a && g_e_s0 != 0 && g_e_s1 == 0,
                     "%c: ISO 7.21.6.1p8 the int argument is converted to unsigned char and that character is written: print_s gets exactly this one byte (a null byte included)");
    __CPROVER_assert(g_e_width == 0 && (g_e_ops & C06_OPS_FMT_MASK) == 0, "%c: no width, no flags, no precision");
    __CPROVER_assert(g_e_h == c06_event_recorder && g_e_d == (void *)&g_cbdata && r == g_sum, "%c: callback passed on, count returned");
    c06_events_reset(0);
    r = call("%*c", w, a);
    __CPROVER_assert(g_ev == 1 && g_nlit == 0 && g_e_kind == C06_EV_STR, "%*c: exactly one string conversion");
    __CPROVER_assert((uchar)g_e_s0 == (uchar)a && g_e_s0 != 0 && g_e_s1 == 0, "%*c: print_s gets exactly the byte (unsigned char)arg");
    __CPROVER_assert(STAR_W(w) && !(g_e_ops & C06_OPS_PREC), "%*c: width (negative = - flag and positive width), no precision");
    __CPROVER_assert(r == g_sum, "%*c: count returned");
#elif CONV == CONV_s
    char *s = NEW_OBJ(2);
    FILL(s, 2, content);
    (void)isnull;
    c06_events_reset(0);
    r = call("%s", s);
    __CPROVER_assert(g_ev == 1 && g_nlit == 0 && g_e_kind == C06_EV_STR, "%s: exactly one string conversion, no other output");
    __CPROVER_assert(g_e_str == s, "%s: the argument pointer is what print_s reads from");
    __CPROVER_assert(g_e_width == 0 && g_e_prec == 0 && (g_e_ops & C06_OPS_FMT_MASK) == 0, "%s: no width, no precision, no flags");
    __CPROVER_assert(g_e_h == c06_event_recorder && g_e_d == (void *)&g_cbdata && r == g_sum, "%s: callback passed on, count returned");
    c06_events_reset(0);
    r = call("%*.*s", w, p, s);
    __CPROVER_assert(g_ev == 1 && g_nlit == 0 && g_e_kind == C06_EV_STR && g_e_str == s, "%*.*s: one string conversion of the argument");
    __CPROVER_assert(STAR_W(w), "%*.*s: ISO 7.21.6.1p5 a negative field width argument is taken as a - flag followed by a positive field width");
    __CPROVER_assert(STAR_P(p), "%*.*s: a negative precision argument is taken as if the precision were omitted");
    __CPROVER_assert((g_e_ops & (C06_OPS_FMT_MASK & ~(C06_OPS_LEFT | C06_OPS_PREC))) == 0 && r == g_sum, "%*.*s: no other flag, count returned");
#else
    char obj;
    void *ptr = isnull ? (void *)0 : (void *)&obj;
    c06_events_reset(0);
    r = call("%p", ptr);
    __CPROVER_assert(g_ev == 1 && g_nlit == 0 && g_e_kind == C06_EV_INT, "%p: exactly one integer conversion, no other output");
    __CPROVER_assert(g_e_u == (ullong)(size_t)ptr && g_e_signed == 0 && g_e_base == 16, "%p: the pointer value, unsigned, base 16");
    __CPROVER_assert(g_e_prec == g_c06_p_minlen && (g_e_ops & g_c06_p_set) == g_c06_p_set && (g_e_ops & g_c06_p_clr) == 0 && !(g_e_ops & C06_OPS_UPPER),
                     "%p: the fixed form 0x + 2*sizeof(void*) lower-case digits");
    __CPROVER_assert(g_e_width == 0 && !(g_e_ops & C06_OPS_LEFT), "%p: no width");
    __CPROVER_assert(g_e_h == c06_event_recorder && g_e_d == (void *)&g_cbdata && r == g_sum, "%p: callback passed on, count returned");
    c06_events_reset(0);
    r = call("%*p", w, ptr);
    __CPROVER_assert(g_ev == 1 && g_nlit == 0 && g_e_kind == C06_EV_INT && g_e_u == (ullong)(size_t)ptr && g_e_base == 16 && g_e_signed == 0, "%*p: one conversion of the pointer value");
    __CPROVER_assert(STAR_W(w), "%*p: width (negative = - flag and positive width)");
    __CPROVER_assert(g_e_prec == g_c06_p_minlen && r == g_sum, "%*p: fixed form, count returned");
#endif
    CANARY("fetch_csp harness end reachable");
}
