/*@unit {
 'kind': 'bounded', 'mode': 'legacy',
 'bound': 'format strings of at most FMTLEN characters (quick: 6, thorough: 9), every byte symbolic; at most 6 variadic arguments',
 'functions': ['__printf'],
 'replace': ['print_i', 'print_s', 'print_f'],
 'clauses': 'directive parser of __printf against the reference parser of the ISO grammar %[flags][width|*][.prec|.*][hh|h|l|ll|j|z|t]conv mixed with literal text and %%: same number of output events; the k-th event (arbitrary k) is the same literal character, or the same conversion with the same flags, width, precision, base, signedness, upper case and the argument converted as the length modifier prescribes, taken from the right variadic slot; return value == literal characters + what the conversions returned; the call-site preconditions of print_i / print_s hold; every loop of __printf (and of the real shim atoi it calls) ends within the format: unwinding assertions => formatting terminates, and every format byte read lies inside the string (exact-size object)',
 'params': {'FMTLEN': [6]},
 'params_thorough': {'FMTLEN': [9]},
 'include': ['igris/util'],
 'defines': ['C06_NO_STR_CONTENT'],
 'unwind': 12,
 'timeout': 900,
 'kf': ['C06_width_digits_loop', 'C06_neg_star_width'],
 'assumptions': ['the format is valid per the reference grammar (anything else is undefined behaviour in ISO C; what __printf does with it is not part of C06)',
                 'a `*` width argument is not INT_MIN',
                 'variadic arguments are modelled as 64-bit slots of which a directive reads the low bytes of its type (x86_64 ABI; cbmc reads the prefix of the slot object)',
                 'each replaced conversion returns at most INT_MAX/32 so that the int total cannot overflow (ISO: a total above INT_MAX cannot be reported)'],
 'trusted': ['atoi: the real shim code compat/libc/stdlib/atol.c runs on the symbolic format (also proved separately by units/C11/atoi.c)',
             'spec/c06_ref_parser.h as transcription of the ISO grammar (cross-checked natively against the host printf: units/C06/native/refparse_vs_host.c)'],
 'witness': {'unwind': 12},
} @*/
#include "vc.h"
#include "c06_env.h"
#include "c06_iso_printf.h"
#include "c06_print_contracts.h"
#include "c06_ref_parser.h"
#define atol vc_atol
#define atoi vc_atoi
#include "compat/libc/stdlib/atol.c"
#include "igris/util/printf_impl.c"

#define NSLOTS 6
static int g_cbdata;
static int call(const char *fmt, ...)
{
    va_list ap;
    va_start(ap, fmt);
    int r = __printf(c06_event_recorder, &g_cbdata, fmt, ap);
    va_end(ap);
    return r;
}

void harness(void)
{
    WIT_ARR(char, content, 10);
    WIT(ullong, a0);
    WIT(ullong, a1);
    WIT(ullong, a2);
    WIT(ullong, a3);
    WIT(ullong, a4);
    WIT(ullong, a5);
    WIT(llong, ksel);
    WIT(size_t, len);
    __CPROVER_assume(len <= FMTLEN);
    char *fmt = NEW_OBJ(len + 1); /* exact size: a read beyond the terminator fails */
#ifdef WITNESS_MODE
    for (size_t i = 0; i < len; i++) fmt[i] = content[i];
#endif
    fmt[len] = 0;
    ullong slots[NSLOTS] = {a0, a1, a2, a3, a4, a5};
    __CPROVER_assume(ksel >= 0);
    struct ref_result R = ref_parse(fmt, (int)len, slots, NSLOTS, ksel);
    __CPROVER_assume(R.valid && !R.star_int_min);
    __CPROVER_assume(KF_C06_width_digits_loop == 0 ? 1 : KF_C06_width_digits_loop == 1 ? !R.literal_digits : R.literal_digits);
    __CPROVER_assume(KF_C06_neg_star_width == 0 ? 1 : KF_C06_neg_star_width == 1 ? !R.negative_star_width : R.negative_star_width);

    c06_events_reset(ksel);
    int r = call(fmt, a0, a1, a2, a3, a4, a5);

    __CPROVER_assert(g_ev == R.nev, "same number of output events (literal characters and conversions) as the reference parser");
    __CPROVER_assert(g_nlit == R.nlit, "same number of literal characters (ordinary characters and %%)");
    __CPROVER_assert(r == g_nlit + g_sum, "return value == literal characters + what the conversions returned");
    if (ksel < R.nev) {
        const struct ref_event *E = &R.ev;
        unsigned ops_want = (E->flags & ISO_F_MINUS ? C06_OPS_LEFT : 0) | (E->flags & ISO_F_PLUS ? C06_OPS_SIGN : 0) |
                            (E->flags & ISO_F_SPACE ? C06_OPS_SPACE : 0) | (E->flags & ISO_F_HASH ? C06_OPS_SPEC : 0) |
                            (E->flags & ISO_F_ZERO ? C06_OPS_ZERO : 0) | (E->has_prec ? C06_OPS_PREC : 0) | (E->upper ? C06_OPS_UPPER : 0);
        __CPROVER_assert(g_e_kind == E->kind, "k-th event: same kind (literal / integer conversion / string conversion)");
        if (E->kind == REF_EV_CHAR)
            __CPROVER_assert((uchar)g_e_c == (uchar)E->c, "k-th event: the same literal character");
        else {
            __CPROVER_assert(g_e_width == E->width, "k-th event: field width as written (digits or * argument)");
            __CPROVER_assert(g_e_h == c06_event_recorder && g_e_d == (void *)&g_cbdata, "k-th event: callback and data passed on");
            if (E->conv == 'p') {
                __CPROVER_assert(g_e_u == E->u && g_e_base == 16 && g_e_signed == 0 && g_e_prec == (int)(2 * sizeof(void *) + 2) &&
                                 (g_e_ops & (C06_OPS_FMT_MASK & ~(C06_OPS_PREC))) == ((ops_want | C06_OPS_SPEC | C06_OPS_ZERO) & ~C06_OPS_PREC),
                                 "k-th event: %p takes the pointer from its slot, fixed 0x form");
            } else {
                __CPROVER_assert((g_e_ops & C06_OPS_FMT_MASK) == ops_want, "k-th event: flags, precision-given and upper-case bits as written");
                __CPROVER_assert(g_e_prec == E->prec, "k-th event: precision as written (digits, * argument, 0 when none)");
                if (E->kind == REF_EV_INT)
                    __CPROVER_assert(g_e_u == E->u && g_e_base == E->base && g_e_signed == E->is_signed,
                                     "k-th event: integer argument taken from the right slot and converted per length modifier; base and signedness of the conversion letter");
                else if (E->conv == 's')
                    __CPROVER_assert(E->u == 0 || g_e_str == (const char *)E->u, "k-th event: %s takes the pointer from its slot");
            }
        }
    }
    CANARY("parser harness end reachable");
}
