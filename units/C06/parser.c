/*@unit {
 'kind': 'bounded', 'mode': 'legacy',
 'bound': 'the format is ONE token: an ordinary character, %%, or one directive of at most DLEN characters from % to the conversion letter (7 here; unit parser_long: 10), every character symbolic; sequences of tokens are covered by unit parser_seq on concrete formats',
 'functions': ['__printf'],
 'replace': ['print_i', 'print_s', 'print_f'],
 'clauses': 'directive parser of __printf against the reference parser of the ISO grammar %[flags][width|*][.prec|.*][hh|h|l|ll|j|z|t]conv: for every valid token the code produces exactly one output event -- the literal character, or ONE call of print_i / print_s with the flags, width, precision, base, signedness and upper case the reference parser prescribes and the argument taken from the right variadic slot and converted as the length modifier says (requires clauses of the replaced callees, asserted at the call sites in __printf), with the callback and its data passed on; it stops exactly at the end of the token (the directive loop ends after one iteration: unwinding assertion) and every loop in between terminates within the token (unwinding assertions of the flag / digit / atoi loops) without reading a byte outside the exact-size format object; return value == literal characters + what the conversion returned',
 'params': {'DLEN': [7]},
 'include': ['igris/util'],
 'unwindset': ['__printf.0:9', '__printf.1:9', '__printf.2:9', '__printf.3:10', '__printf.4:3', '__printf.5:2', 'vc_atol.0:9', 'vc_atol.1:9'],
 'kf': ['C06_width_digits_loop', 'C06_neg_star_width'],
 'assumptions': ['the token is valid per the reference grammar (anything else is undefined behaviour in ISO C)',
                 'a `*` width argument is not INT_MIN',
                 'variadic arguments are modelled as three 64-bit slots of which a directive reads the low bytes of its type (x86_64 ABI; cbmc reads the prefix of the slot object)'],
 'trusted': ['atoi: the real shim code compat/libc/stdlib/atol.c runs on the symbolic format (also proved separately by units/C11/atoi.c)',
             'spec/c06_ref_parser.h as transcription of the ISO grammar (cross-checked natively against the host printf on 300000 random formats: units/C06/native/refparse_vs_host.c)'],
 'checks_extra': ['--pointer-overflow-check'],
 'timeout': 600,
} @*/
#include "c06_parser_harness.h"
