/*@unit {
 'kind': 'bounded', 'mode': 'legacy',
 'bound': 'four concrete formats that mix ordinary text, %% and two to four directives (flags, literal and * widths / precisions, all length modifiers, all conversions); the variadic arguments are symbolic',
 'functions': ['__printf'],
 'replace': ['print_i', 'print_s', 'print_f'],
 'clauses': 'sequencing in the directive loop of __printf: for each of the formats the sequence of output events (literal characters and conversion calls) is the one the reference parser derives -- same number of events, and the k-th event (arbitrary k) is the same character or the same conversion with the same flags / width / precision / base / signedness / upper case and the argument taken from the right variadic slot, converted per length modifier; return value == literal characters + what the conversions returned; all loops end within the format (unwinding assertions)',
 'params': {'FMT': [0, 1, 2, 3]},
 'include': ['igris/util'],
 'unwind': 24,
 'complete_unwinding': 'the formats are string literals of at most 22 characters: every loop of __printf and of the real shim atoi runs over them',
 'checks_extra': ['--pointer-overflow-check'],
 'kf': ['C06_width_digits_loop', 'C06_neg_star_width'],
 'kf_probe_case': {'C06_width_digits_loop': {'FMT': 3}, 'C06_neg_star_width': {'FMT': 1}},
 'assumptions': ['a `*` width argument is not INT_MIN',
                 'variadic arguments are modelled as 64-bit slots of which a directive reads the low bytes of its type (x86_64 ABI)',
                 'each replaced conversion returns at most INT_MAX/32 so that the int total cannot overflow'],
 'trusted': ['atoi: the real shim code compat/libc/stdlib/atol.c', 'spec/c06_ref_parser.h (cross-checked natively against the host printf)'],
} @*/
#include "vc.h"
#include "c06_env.h"
#include "c06_iso_printf.h"
#define C06_NO_STR_CONTENT
#include "c06_print_contracts.h"
#include "c06_ref_parser.h"
#define atol vc_atol
#define atoi vc_atoi
#include "compat/libc/stdlib/atol.c"
#include "igris/util/printf_impl.c"
#include "c06_pform.h"

#if FMT == 0
#define FORMAT "ab%%c%dx%s"
#elif FMT == 1
#define FORMAT "%*.*lld|%-#hhx %c."
#elif FMT == 2
#define FORMAT "%+ ju%0*zo%%%.*tX%p"
#elif KF_C06_width_digits_loop == 1
/* literal widths / precisions never return (known finding C06_width_digits_loop): while it is open this case
   runs the same directives with * instead; the probe run and the state after the repair use the digits */
#define FORMAT "%*d|%.*s|%0*lx"
#else
#define FORMAT "%5d|%.3s|%08.3lx"
#endif

#define NSLOTS 6
static int g_cbdata;
static int call(const char *fmt, ...)
{
    va_list ap;
    va_start(ap, fmt);
    int r = __printf(c06_event_recorder, &g_cbdata, fmt, ap);
    va_end(ap);
    return r;
}

void harness(void)
{
    WIT(ullong, a0);
    WIT(ullong, a1);
    WIT(ullong, a2);
    WIT(ullong, a3);
    WIT(ullong, a4);
    WIT(ullong, a5);
    WIT(llong, ksel);
    static const char fmt[] = FORMAT;
    ullong slots[NSLOTS] = {a0, a1, a2, a3, a4, a5};
    __CPROVER_assume(ksel >= 0);
    struct ref_result R = ref_parse(fmt, (int)(sizeof fmt - 1), slots, NSLOTS, ksel);
    __CPROVER_assert(R.valid, "the format of this case is of the grammar");
    __CPROVER_assume(!R.star_int_min);
    __CPROVER_assume(KF_C06_neg_star_width == 0 ? 1 : KF_C06_neg_star_width == 1 ? !R.negative_star_width : R.negative_star_width);

    c06_events_reset(ksel);
    int r = call(fmt, a0, a1, a2, a3, a4, a5);

    __CPROVER_assert(g_ev == R.nev, "same number of output events (literal characters and conversions) as the reference parser");
    __CPROVER_assert(g_nlit == R.nlit, "same number of literal characters (ordinary characters and %%)");
    __CPROVER_assert(r == g_nlit + g_sum, "return value == literal characters + what the conversions returned");
    if (ksel < R.nev) {
        const struct ref_event *E = &R.ev;
        unsigned ops_want = (E->flags & ISO_F_MINUS ? C06_OPS_LEFT : 0) | (E->flags & ISO_F_PLUS ? C06_OPS_SIGN : 0) |
                            (E->flags & ISO_F_SPACE ? C06_OPS_SPACE : 0) | (E->flags & ISO_F_HASH ? C06_OPS_SPEC : 0) |
                            (E->flags & ISO_F_ZERO ? C06_OPS_ZERO : 0) | (E->has_prec ? C06_OPS_PREC : 0) | (E->upper ? C06_OPS_UPPER : 0);
        __CPROVER_assert(g_e_kind == E->kind, "k-th event: same kind (literal / integer conversion / string conversion)");
        if (E->kind == REF_EV_CHAR)
            __CPROVER_assert((uchar)g_e_c == (uchar)E->c, "k-th event: the same literal character");
        else {
            __CPROVER_assert(g_e_width == E->width, "k-th event: field width as written (digits or * argument)");
            __CPROVER_assert(g_e_h == c06_event_recorder && g_e_d == (void *)&g_cbdata, "k-th event: callback and data passed on");
            if (E->conv == 'p') {
                __CPROVER_assert(g_e_u == E->u && g_e_base == 16 && g_e_signed == 0 && g_e_prec == g_c06_p_minlen &&
                                 (g_e_ops & (C06_OPS_FMT_MASK & ~(C06_OPS_PREC))) == (((ops_want | g_c06_p_set) & ~g_c06_p_clr) & ~C06_OPS_PREC),
                                 "k-th event: %p takes the pointer from its slot, fixed 0x form");
            } else {
                __CPROVER_assert((g_e_ops & C06_OPS_FMT_MASK) == ops_want, "k-th event: flags, precision-given and upper-case bits as written");
                __CPROVER_assert(g_e_prec == E->prec, "k-th event: precision as written (digits, * argument, 0 when none)");
                if (E->kind == REF_EV_INT)
                    __CPROVER_assert(g_e_u == E->u && g_e_base == E->base && g_e_signed == E->is_signed,
                                     "k-th event: integer argument taken from the right slot and converted per length modifier; base and signedness of the conversion letter");
                else if (E->conv == 's')
                    __CPROVER_assert(E->u == 0 || g_e_str == (const char *)E->u, "k-th event: %s takes the pointer from its slot");
            }
        }
    }
    CANARY("parser_seq harness end reachable");
}
