/*@unit {
 'kind': 'proof', 'mode': 'legacy',
 'functions': ['vfdprintf', 'fdprintf', 'file_printchar'],
 'clauses': 'vfdprintf / fdprintf (compat/libc/stdio/fdprintf.c) on top of __printf as characterised by the other units: every character __printf emits is handed to fdputc with the given descriptor, once, in order (arbitrary index k); the return value is the count when no fdputc call failed, else the first negative fdputc result; fdprintf passes format and arguments through',
 'loop_contracts_in_unit': 1,
 'include': ['igris/util'],
 'assumptions': ['__printf is represented by its contract, written as a stub with a loop invariant (see wrap_sprintf)',
                 'fdputc (descriptor layer, outside C06) is a stub returning an arbitrary int'],
 'witness': {'unwind': 9},
} @*/
#include "vc.h"
#include <stdarg.h>
#include <stdio.h>
int fdputc(int c, int fd); /* compat/libc/include/stdio.h:50 */
#define vfdprintf vc_vfdprintf
#define fdprintf vc_fdprintf
#include "compat/libc/stdio/fdprintf.c"

size_t g_n, g_k;
char g_ck;
size_t g_calls;
int g_got_c, g_got_fd, g_first_err, g_fd;
const char *g_fmt_seen;
char nondet_char(void);

int fdputc(int c, int fd)
{
    if (g_calls == g_k)
        g_got_c = c, g_got_fd = fd;
    g_calls++;
    int r = nondet_int();
    if (r < 0 && g_first_err == 0)
        g_first_err = r;
    return r;
}

/* contract of __printf as a stub */
int __printf(void (*printchar_handler)(void *d, int c), void *printchar_data, const char *format, va_list args)
{
    size_t i = 0;
    g_fmt_seen = format;
    (void)args;
    while (i < g_n)
    __CPROVER_assigns(i, g_ck, g_calls, g_got_c, g_got_fd, g_first_err, ((struct printchar_handler_data *)printchar_data)->errcode)
    __CPROVER_loop_invariant(i <= g_n && g_calls == i)
    __CPROVER_loop_invariant(((struct printchar_handler_data *)printchar_data)->errcode == g_first_err &&
                             ((struct printchar_handler_data *)printchar_data)->fd == g_fd)
    __CPROVER_loop_invariant(!(g_k < i) || (g_got_c == (int)g_ck && g_got_fd == g_fd))
    __CPROVER_decreases(g_n - i)
    {
        char c = nondet_char();
        if (i == g_k)
            g_ck = c;
        printchar_handler(printchar_data, c);
        i++;
    }
    return (int)i;
}

static int call_vfdprintf(int fd, const char *fmt, ...)
{
    va_list ap;
    va_start(ap, fmt);
    int r = vc_vfdprintf(fd, fmt, ap);
    va_end(ap);
    return r;
}

void harness(void)
{
    WIT(size_t, n);
    WIT(size_t, k);
    WIT(int, fd);
    WIT(uint, via_fdprintf);
    static const char fmt[] = "f";
    __CPROVER_assume(n <= INT_MAX);
#ifdef WITNESS_MODE
    __CPROVER_assume(n <= 6);
#endif
    g_n = n, g_k = k, g_ck = 0, g_calls = 0, g_got_c = -1, g_got_fd = -1, g_first_err = 0, g_fd = fd, g_fmt_seen = 0;

    int r = via_fdprintf ? vc_fdprintf(fd, fmt, 1, 2) : call_vfdprintf(fd, fmt, 1, 2);

    __CPROVER_assert(g_calls == n, "v/fdprintf: one fdputc call per emitted character");
    __CPROVER_assert(!(k < n) || (g_got_c == (int)g_ck && g_got_fd == fd), "v/fdprintf: the k-th emitted character goes to fdputc with the given descriptor (arbitrary k)");
    __CPROVER_assert(r == (g_first_err != 0 ? g_first_err : (int)n), "v/fdprintf: returns the count, or the first negative fdputc result");
    __CPROVER_assert(g_fmt_seen == fmt, "v/fdprintf: the format is passed through to __printf");
    CANARY("wrap_fdprintf harness end reachable");
}
