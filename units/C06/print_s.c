/*@unit {
 'kind': 'proof', 'mode': 'legacy',
 'functions': ['print_s'],
 'replace': ['vc_strlen', 'vc_strnlen'],
 'clauses': '%s (and the one-character string of %c): for every array, flag -, width >= 0, precision >= 0 or none: bytes are written up to the first null character or the precision, whichever comes first; left/right space padding to the width; return value == ISO length == number of callback calls; j-th character of every segment == the ISO one (arbitrary segment, j); the array is an exact-size object (first null + 1 bytes, or exactly `precision` bytes when unterminated), every read is checked against it',
 'include': ['igris/util'],
 'inject': [
  {'file': 'igris/util/printf_impl.c', 'func': 'print_s', 'at': 'before', 'anchor': 'space_count = width > len', 'ghost': 'g_r = len;'},
  {'file': 'igris/util/printf_impl.c', 'func': 'print_s', 'at': 'before', 'anchor': 'for (; space_count; --space_count)',
   'ghost': 'g_seg = 0; g_pos = 0; g_c0 = g_count; g_n0 = space_count; g_g0 = g_got;'},
  {'file': 'igris/util/printf_impl.c', 'func': 'print_s', 'loop': 0, 'expect': 'for (; space_count; --space_count)',
   'assigns': 'space_count, g_count, g_pos, g_got',
   'invariants': ['0 <= space_count && space_count <= g_n0',
                  'g_pos == g_n0 - space_count && g_count == g_c0 + g_pos',
                  '(g_kseg == 0 && g_kj < g_pos) ? g_got == 32 : g_got == g_g0'],
   'decreases': 'space_count'},
  {'file': 'igris/util/printf_impl.c', 'func': 'print_s', 'at': 'before', 'anchor': 'while (len--)',
   'ghost': 'g_l0 = (g_seg == 0) ? g_pos : 0; g_seg = 3; g_pos = 0; g_c1 = g_count; g_n1 = len; g_g1 = g_got; g_s1 = str;'},
  {'file': 'igris/util/printf_impl.c', 'func': 'print_s', 'loop': 1, 'expect': 'while (len--)',
   'assigns': 'len, str, g_count, g_pos, g_got',
   'invariants': ['0 <= len && len <= g_n1',
                  '__CPROVER_same_object(str, g_s1) && __CPROVER_POINTER_OFFSET(str) == __CPROVER_POINTER_OFFSET(g_s1) + g_pos',
                  'g_pos == g_n1 - len && g_count == g_c1 + g_pos',
                  '(g_kseg == 3 && g_kj < g_pos) ? g_got == (int)g_s1[g_kj] : g_got == g_g1'],
   'decreases': 'len'},
  {'file': 'igris/util/printf_impl.c', 'func': 'print_s', 'at': 'before', 'anchor': 'while (space_count--)',
   'ghost': 'g_l3 = g_pos; g_seg = 4; g_pos = 0; g_c2 = g_count; g_n2 = space_count; g_g2 = g_got;'},
  {'file': 'igris/util/printf_impl.c', 'func': 'print_s', 'loop': 2, 'expect': 'while (space_count--)',
   'assigns': 'space_count, g_count, g_pos, g_got',
   'invariants': ['0 <= space_count && space_count <= g_n2',
                  'g_pos == g_n2 - space_count && g_count == g_c2 + g_pos',
                  '(g_kseg == 4 && g_kj < g_pos) ? g_got == 32 : g_got == g_g2'],
   'decreases': 'space_count'},
 ],
 'kf': ['C06_s_prec_strlen'],
 'assumptions': ['print_s call-site facts of __printf: width >= 0, max_len >= 0, max_len == 0 when OPS_PREC_IS_GIVEN is clear',
                 'ISO 7.21.6.1p8 (s): the array contains a null character unless a precision is given that does not exceed its size',
                 'the index of the first null character fits int (print_s keeps strlen in an int; the int return value cannot report more anyway)',
                 'no null character before the declared first one: used at one index only, the prophecy `guess` of what strlen returns (assertions are made for guess == returned value, which exists for every real run)'],
 'trusted': ['contracts/c06_strnlen_contract.h restates what units/C08/strnlen.c proves about the real strnlen (only used after the repair of C06_s_prec_strlen)', 'segment-wise equality implies equality of the concatenated texts (see print_i)'],
 'canaries': 2,
 'witness': {'unwind': 10},
} @*/
#include "vc.h"
#include "c06_env.h"
#include "c06_iso_printf.h"
#include "c08_string.h" /* strlen -> vc_strlen with the contract proved by units/C08/strlen.c */
#include "c06_strnlen_contract.h" /* strnlen: only reached once the proposed repair of C06_s_prec_strlen is applied */
#ifdef WITNESS_MODE     /* concretisation / native run: the replaced callee is the real shim code */
#include "compat/libc/string/strlen.c"
#include "compat/libc/string/strnlen.c"
#endif
long long g_c0, g_n0, g_c1, g_n1, g_c2, g_n2;
int g_g0, g_g1, g_g2;
const char *g_s1;
long long g_l0, g_l3;
long long g_r; /* the number of bytes print_s decided to write (strlen, clamped by the precision) */
#include "igris/util/printf_impl.c"
/* keeps the symbol vc_strnlen in the program while the unrepaired print_s does not call it (never called itself) */
size_t c06_keep_strnlen(const char *s, size_t n) { return vc_strnlen(s, n); }

void harness(void)
{
    WIT(uint, ops);
    WIT(int, width);
    WIT(int, max_len);
    WIT(uint, term);   /* the array contains a null character */
    WIT(size_t, Ls);   /* ... the first one at index Ls */
    WIT(size_t, guess);
    WIT(int, kseg);
    WIT(llong, kj);
    WIT_ARR(char, content, 7);
    int has_prec = (ops & OPS_PREC_IS_GIVEN) != 0;
    __CPROVER_assume(width >= 0 && max_len >= 0 && (has_prec || max_len == 0));
#ifdef WITNESS_MODE
    __CPROVER_assume(width <= 6 && max_len <= 6);
#endif
    __CPROVER_assume(Ls <= VC_MAXOBJ && Ls <= INT_MAX);
    /* known finding: strlen runs over an unterminated array although the precision bounds what may be read */
    __CPROVER_assume(KF_C06_s_prec_strlen == 0 ? 1 : KF_C06_s_prec_strlen == 1 ? term != 0 : term == 0);
    size_t size, nbytes;
    if (term) {
        size = Ls + 1; /* exact: one byte past the terminator is outside the object */
        nbytes = has_prec && (size_t)max_len < Ls ? (size_t)max_len : Ls;
    } else {
        __CPROVER_assume(has_prec); /* ISO: without a precision the array shall contain a null character */
        size = (size_t)max_len;     /* exact: precision bytes and nothing else */
        nbytes = size;
    }
    char *s = NEW_OBJ(size);
    FILL(s, size, content);
    if (term)
        __CPROVER_assume(s[Ls] == 0);
    /* "no null character before": instantiated at the prophecy index only */
    __CPROVER_assume(!(guess < (term ? Ls : size)) || s[guess] != 0);
    g_strlen_L = Ls;   /* witness of the terminator for strlen's contract (none exists when !term) */
    g_strlen_k = guess;
    g_strnlen_L = term ? Ls : size; /* no terminator: any value >= the precision */
    g_strnlen_k = guess;

    struct iso_layout L = iso_str_layout(C06_ISO_FLAGS(ops), width, s, (long long)nbytes);
    long long want = iso_layout_len(&L);
    __CPROVER_assume(want <= INT_MAX);
    __CPROVER_assume(kseg >= 0 && kseg <= 4 && kj >= 0 && kj < iso_layout_seg_len(&L, kseg));
    int expect = iso_layout_seg_char(&L, kseg, kj);
    g_count = 0; g_k = -1; g_seg = -1; g_pos = 0; g_kseg = kseg; g_kj = kj; g_got = -2;
    g_l0 = g_l3 = 0; g_r = -1;

    int ret = print_s(iso_recorder, 0, s, width, max_len, ops);
    long long l4 = g_seg == 4 ? g_pos : 0;

    /* The "no null character before Ls" precondition is only available at index `guess`.  The scan inside print_s
       (strlen, clamped to the precision) stopped at r >= g_r; if g_r is below the precision (or there is none),
       r == g_r, and the run in which the prophecy guess == g_r is right exists for every real input: there
       s[g_r] != 0 unless g_r == Ls.  If g_r equals the precision nothing has to be known about r. */
    if (g_r == (long long)guess || (has_prec && g_r == (long long)max_len)) {
        CANARY("print_s: the run with the right prophecy is reachable");
        __CPROVER_assert(g_l3 == L.nbody, "print_s: bytes written == up to the first null character or the precision, whichever is first");
        __CPROVER_assert(g_l0 == L.lpad && l4 == L.rpad, "print_s: left / right space padding as ISO prescribes ('-' flag, width)");
        __CPROVER_assert(ret == want, "print_s: return value == number of characters ISO C 7.21.6.1 prescribes");
        __CPROVER_assert(g_count == ret, "print_s: return value == number of characters handed to the callback");
        __CPROVER_assert((uchar)g_got == (uchar)expect, "print_s: j-th character of segment s handed to the callback == the ISO text's (arbitrary s, j)");
    }
    CANARY("print_s harness end reachable");
}
