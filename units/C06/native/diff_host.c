/* Native differential test: the real igris __printf (included from /repo) against the host
 * C library's snprintf as ISO oracle.  Build: cc -I/repo -o diff_host diff_host.c -lm
 * Prints one line per deviating (format, argument) pair class. Not a vc unit. */
#define _GNU_SOURCE
#include <stdio.h>
#include <string.h>
#include <limits.h>
#include <signal.h>
#include <setjmp.h>
#include <unistd.h>
#include "igris/util/printf_impl.c"

static char out[4096]; static int outn;
static void rec(void *d, int c) { (void)d; if (outn < (int)sizeof out - 1) out[outn] = (char)c; outn++; }
static int call(const char *fmt, ...) { va_list ap; va_start(ap, fmt); outn = 0; int r = __printf(rec, 0, fmt, ap); va_end(ap); out[outn < 4095 ? outn : 4095] = 0; return r; }
static sigjmp_buf jb; static void onalarm(int s) { (void)s; siglongjmp(jb, 1); }
static int nbad, ntot;
#define CMP(fmt, ...) do { char ref[4096]; int rr = snprintf(ref, sizeof ref, fmt, __VA_ARGS__); ntot++; \
    if (sigsetjmp(jb, 1) == 0) { alarm(1); int r = call(fmt, __VA_ARGS__); alarm(0); \
      if (r != rr || outn != rr || memcmp(ref, out, rr)) { nbad++; if (verbose) printf("DEVIATION %-10s %-22s igris \"%s\" (ret %d, emitted %d)  host \"%s\" (ret %d)\n", fmt, #__VA_ARGS__, out, r, outn, ref, rr); } } \
    else { nbad++; if (verbose) printf("HANG      %-10s %-22s (no return within 1 s)  host \"%s\"\n", fmt, #__VA_ARGS__, ref); } } while (0)
int verbose = 1;
int main(void)
{
    signal(SIGALRM, onalarm);
    /* anticipated defects, one line each */
    CMP("%5d", 42);
    CMP("%.3d", 42);
    CMP("%.2s", "abcdef");
    CMP("%ld", -5000000000L);
    CMP("%lld", -5000000000LL);
    CMP("%ld", -4294967296L);
    CMP("%d", INT_MIN);
    CMP("%lld", LLONG_MIN);
    CMP("%.*d", 5, -42);
    CMP("%+.*d", 5, 42);
    CMP("%#.*x", 5, 255);
    CMP("%#.*o", 5, 8);
    CMP("%.*d", 0, 0);
    CMP("%.*x", 0, 0);
    CMP("%#.*o", 0, 0);
    CMP("%#x", 0);
    CMP("%#o", 0);
    CMP("%#X", 0);
    CMP("%0*.*d", 8, 3, 42);
    CMP("%0*.*d", 8, 1, 42);
    CMP("%c", 0);
    CMP("%*c", 3, 0);
    CMP("%*d", -5, 42);
    CMP("%*s", -5, "ab");
    CMP("%.*d", -1, 0);
    CMP("%-0*d", 6, 42);
    CMP("%0*d", 6, -42);
    CMP("%+d", 0);
    CMP("% d", 42);
    CMP("%+ d", 42);
    CMP("%hhd", 300);
    CMP("%hd", 70000);
    CMP("%hhu", 300);
    CMP("%hu", 70000);
    CMP("%zu", (size_t)-1);
    CMP("%zd", (ssize_t)-1);
    CMP("%td", (ptrdiff_t)-7);
    CMP("%jd", (intmax_t)-7);
    CMP("%ju", (uintmax_t)-7);
    CMP("%llu", ULLONG_MAX);
    CMP("%llo", ULLONG_MAX);
    CMP("%llX", ULLONG_MAX);
    CMP("%x%%%c|%s", 255, 'z', "s");
    CMP("%.*s", 0, "abc");
    CMP("%-*s|", 6, "abc");
    CMP("%*.*s|", 6, 2, "abc");
    printf("%d of %d comparisons deviate\n", nbad, ntot);
    /* %s with a precision and an unterminated array: run under ASan to see the over-read */
    return 0;
}
