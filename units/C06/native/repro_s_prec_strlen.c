/* C06_s_prec_strlen: %.3s of an array of exactly 3 bytes without terminator (legal: ISO C 7.21.6.1p8).
 * Build: clang -fsanitize=address -g -w -I/repo -o r repro_s_prec_strlen.c -lm && ./r
 * Unrepaired tree: AddressSanitizer heap-buffer-overflow READ in strlen called from print_s. */
#include <stdio.h>
#include <stdlib.h>
#include "igris/util/printf_impl.c"
static char out[64]; static int n;
static void rec(void *d, int c) { (void)d; out[n++] = (char)c; }
static int call(const char *fmt, ...) { va_list ap; va_start(ap, fmt); int r = __printf(rec, 0, fmt, ap); va_end(ap); return r; }
int main(void)
{
    char *a = malloc(3);
    a[0] = 'a', a[1] = 'b', a[2] = 'c';
    int r = call("%.*s", 3, a);
    out[n] = 0;
    printf("ret %d text \"%s\"\n", r, out);
    return !(r == 3);
}
