/* Native cross-check of the ISO oracle spec/c06_iso_printf.h against the host C library (glibc snprintf)
 * over a grid of flags x width x precision x conversion x value.  Not a vc unit (lives in a subdirectory).
 * Build: cc -I/verif/spec -o oracle_vs_host oracle_vs_host.c ; exit 0 = oracle agrees everywhere. */
#include <stdio.h>
#include <string.h>
#include <stdint.h>
#include "c06_iso_printf.h"

static const long long widths[] = {0, 1, 2, 3, 5, 8, 19, 20, 21, 22, 23, 24, 30};
static const long long precs[] = {-1, 0, 1, 2, 3, 5, 8, 19, 20, 21, 22, 23, 30}; /* -1: none */
static const unsigned long long vals[] = {0, 1, 7, 8, 9, 10, 15, 16, 42, 255, 4095, 65535, 2147483647ULL, 2147483648ULL,
    4294967295ULL, 4294967296ULL, 5000000000ULL, 0x7fffffffffffffffULL, 0x8000000000000000ULL, 0xffffffffffffffffULL,
    (unsigned long long)-1LL, (unsigned long long)-42LL, (unsigned long long)-2147483647LL, (unsigned long long)-2147483648LL,
    (unsigned long long)-2147483649LL, (unsigned long long)-4294967296LL, (unsigned long long)-5000000000LL, 1000000000000000000ULL,
    9999999999999999999ULL, 10000000000000000000ULL, 01000000000000000000000ULL, 0777777777777777777777ULL};
static const char convs[] = "diuoxX";
static const char *strs[] = {"", "a", "ab", "hello", "0123456789abcdefghij"};

int main(void)
{
    long n = 0, bad = 0;
    char fmt[64], ref[256];
    for (unsigned fl = 0; fl < 32; fl++)
        for (unsigned wi = 0; wi < sizeof widths / sizeof *widths; wi++)
            for (unsigned pi = 0; pi < sizeof precs / sizeof *precs; pi++)
            {
                char flags[8]; int f = 0;
                if (fl & ISO_F_MINUS) flags[f++] = '-';
                if (fl & ISO_F_PLUS) flags[f++] = '+';
                if (fl & ISO_F_SPACE) flags[f++] = ' ';
                if (fl & ISO_F_HASH) flags[f++] = '#';
                if (fl & ISO_F_ZERO) flags[f++] = '0';
                flags[f] = 0;
                char wp[32];
                if (precs[pi] >= 0) snprintf(wp, sizeof wp, "%lld.%lld", widths[wi], precs[pi]);
                else snprintf(wp, sizeof wp, "%lld", widths[wi]);
                if (widths[wi] == 0) memmove(wp, wp + 1, strlen(wp)); /* a leading 0 would be the flag */
                for (unsigned ci = 0; ci < 6; ci++)
                    for (unsigned vi = 0; vi < sizeof vals / sizeof *vals; vi++)
                    {
                        snprintf(fmt, sizeof fmt, "%%%s%sll%c", flags, wp, convs[ci]);
                        int rr = snprintf(ref, sizeof ref, fmt, vals[vi]);
                        long long len = iso_len(fl, widths[wi], precs[pi] >= 0, precs[pi] >= 0 ? precs[pi] : 0, convs[ci], vals[vi], 0, 0);
                        int ok = len == rr;
                        for (int k = 0; ok && k <= rr; k++)
                        {
                            int c = iso_char_at(k, fl, widths[wi], precs[pi] >= 0, precs[pi] >= 0 ? precs[pi] : 0, convs[ci], vals[vi], 0, 0);
                            ok = k < rr ? c == (unsigned char)ref[k] : c == -1;
                        }
                        n++;
                        if (!ok && bad++ < 20) printf("MISMATCH %s of %llu: host \"%s\" (%d) oracle len %lld\n", fmt, vals[vi], ref, rr, len);
                    }
                /* strings and characters ('0', '#', '+', ' ' are undefined for them: only '-') */
                if (fl & ~ISO_F_MINUS) continue;
                for (unsigned si = 0; si < sizeof strs / sizeof *strs; si++)
                {
                    snprintf(fmt, sizeof fmt, "%%%s%ss", flags, wp);
                    int rr = snprintf(ref, sizeof ref, fmt, strs[si]);
                    long long L = (long long)strlen(strs[si]);
                    long long nb = precs[pi] >= 0 && precs[pi] < L ? precs[pi] : L;
                    long long len = iso_len(fl, widths[wi], precs[pi] >= 0, precs[pi] >= 0 ? precs[pi] : 0, 's', 0, strs[si], nb);
                    int ok = len == rr;
                    for (int k = 0; ok && k <= rr; k++)
                    {
                        int c = iso_char_at(k, fl, widths[wi], precs[pi] >= 0, 0, 's', 0, strs[si], nb);
                        ok = k < rr ? c == (unsigned char)ref[k] : c == -1;
                    }
                    n++;
                    if (!ok && bad++ < 20) printf("MISMATCH %s of \"%s\": host \"%s\" (%d) oracle len %lld\n", fmt, strs[si], ref, rr, len);
                }
                if (precs[pi] >= 0) continue;
                for (int ch = 0; ch < 256; ch += 5)
                {
                    snprintf(fmt, sizeof fmt, "%%%s%sc", flags, wp);
                    int rr = snprintf(ref, sizeof ref, fmt, ch);
                    long long len = iso_len(fl, widths[wi], 0, 0, 'c', (unsigned long long)ch, 0, 0);
                    int ok = len == rr;
                    for (int k = 0; ok && k <= rr; k++)
                    {
                        int c = iso_char_at(k, fl, widths[wi], 0, 0, 'c', (unsigned long long)ch, 0, 0);
                        ok = k < rr ? c == (unsigned char)ref[k] : c == -1;
                    }
                    n++;
                    if (!ok && bad++ < 20) printf("MISMATCH %s of %d: host (%d) oracle len %lld\n", fmt, ch, rr, len);
                }
            }
    printf("%ld comparisons, %ld mismatches\n", n, bad);
    return bad != 0;
}
