/* Native cross-check of the reference parser spec/c06_ref_parser.h (+ the ISO oracle) against the host C
 * library: random formats of the grammar, random arguments; the text "reference parser events rendered by the
 * oracle" must be what the host snprintf prints.  Checks both the whole-format mode (event k for every k) and
 * the one-token mode (token after token).  Not a vc unit.
 * Build: cc -I/verif/spec -o refparse_vs_host refparse_vs_host.c ; exit 0 = agreement. */
#include <stdio.h>
#include <stdlib.h>
#include <string.h>
#include <stdint.h>
#include "c06_iso_printf.h"
#include "c06_ref_parser.h"

static unsigned long long rnd_state = 88172645463325252ULL;
static unsigned long long rnd(void) { rnd_state ^= rnd_state << 13; rnd_state ^= rnd_state >> 7; rnd_state ^= rnd_state << 17; return rnd_state; }
static const char *strs[] = {"", "x", "hello", "0123456789"};

/* render one event to out, return length */
static int render(const struct ref_event *E, char *out)
{
    if (E->kind == REF_EV_CHAR) { out[0] = (char)E->c; return 1; }
    const char *s = E->conv == 's' ? (const char *)(uintptr_t)E->u : 0;
    long long nb = 0;
    if (s) { nb = (long long)strlen(s); if (E->has_prec && E->prec < nb) nb = E->prec; }
    long long n = iso_len(E->flags, E->width, E->has_prec, E->prec, E->conv, E->u, s, nb);
    for (long long k = 0; k < n; k++) out[k] = (char)iso_char_at(k, E->flags, E->width, E->has_prec, E->prec, E->conv, E->u, s, nb);
    return (int)n;
}

int main(void)
{
    long bad = 0, n = 0;
    for (long it = 0; it < 300000; it++)
    {
        char fmt[64]; int f = 0; unsigned long long slots[6] = {0}; int ns = 0;
        int ntok = 1 + rnd() % 3;
        for (int t = 0; t < ntok && f < 40 && ns <= 3; t++)
        {
            unsigned r = rnd() % 10;
            if (r < 2) { fmt[f++] = "aZ 09.-"[rnd() % 7]; continue; }
            if (r == 2) { fmt[f++] = '%'; fmt[f++] = '%'; continue; }
            fmt[f++] = '%';
            int conv = "diuoxXcs"[rnd() % 8]; /* %p is implementation-defined on the host: excluded */
            int nfl = rnd() % 3;
            for (int j = 0; j < nfl; j++) { char c = "-+ #0"[rnd() % 5]; if ((conv == 'c' || conv == 's') && c != '-') continue; fmt[f++] = c; }
            r = rnd() % 3;
            if (r == 0) f += sprintf(fmt + f, "%d", (int)(1 + rnd() % 25));
            else if (r == 1) { fmt[f++] = '*'; slots[ns++] = (unsigned long long)(long long)((int)(rnd() % 41) - 20) | (rnd() << 32); }
            if (conv != 'c' && rnd() % 2)
            {
                fmt[f++] = '.'; r = rnd() % 3;
                if (r == 0) f += sprintf(fmt + f, "%d", (int)(rnd() % 25));
                else if (r == 1) { fmt[f++] = '*'; slots[ns++] = (unsigned long long)(long long)((int)(rnd() % 31) - 5) | (rnd() << 32); }
            }
            if (conv != 'c' && conv != 's')
            {
                const char *m[] = {"", "hh", "h", "l", "ll", "j", "z", "t"};
                f += sprintf(fmt + f, "%s", m[rnd() % 8]);
            }
            fmt[f++] = (char)conv;
            if (conv == 's') slots[ns++] = (unsigned long long)(uintptr_t)strs[rnd() % 4];
            else if (conv == 'c') slots[ns++] = (1 + rnd() % 255) | (rnd() << 32);
            else { unsigned long long v = rnd(); unsigned k = rnd() % 4; slots[ns++] = k == 0 ? v : k == 1 ? v % 1000 : k == 2 ? (unsigned long long)-(long long)(v % 100000) : 0; }
        }
        fmt[f] = 0;
        if (ns > 6) continue;
        char host[4096], mine[4096]; int m = 0;
        int hr = snprintf(host, sizeof host, fmt, slots[0], slots[1], slots[2], slots[3], slots[4], slots[5]);
        struct ref_result R0 = ref_parse(fmt, f, slots, 6, 0);
        int ok = R0.valid && !R0.star_int_min && R0.nargs == ns;
        for (long long k = 0; ok && k < R0.nev; k++) { struct ref_result R = ref_parse(fmt, f, slots, 6, k); m += render(&R.ev, mine + m); }
        ok = ok && m == hr && memcmp(host, mine, m) == 0;
        /* token mode */
        int pos = 0, ai = 0, m2 = 0; char mine2[4096];
        while (ok && fmt[pos]) { struct ref_result T = ref_token(fmt + pos, 30, slots + ai, 6 - ai); if (!T.valid || T.nev != 1) { ok = 0; break; } m2 += render(&T.ev, mine2 + m2); pos += T.consumed; ai += T.nargs; }
        ok = ok && m2 == hr && memcmp(host, mine2, m2) == 0 && ai == ns;
        n++;
        if (!ok && bad++ < 15) { mine[m] = 0; printf("MISMATCH \"%s\": host \"%s\" (%d) reference \"%s\" (%d) valid %d nargs %d/%d\n", fmt, host, hr, mine, m, R0.valid, R0.nargs, ns); }
    }
    /* formats outside the grammar must be rejected */
    const char *inv[] = {"%", "%5", "%-", "%.", "%l", "%hhh", "%q", "%5%", "%-%", "%lc", "%hs", "%lp", "%f", "%n", "%*5d", "%.*5d", "%d%", "a%ll"};
    unsigned long long z[6] = {0};
    for (unsigned i = 0; i < sizeof inv / sizeof *inv; i++)
        if (ref_parse(inv[i], (int)strlen(inv[i]), z, 6, 0).valid) { printf("ACCEPTED invalid \"%s\"\n", inv[i]); bad++; }
    printf("%ld formats compared, %ld mismatches\n", n, bad);
    return bad != 0;
}
