/*@unit {
 'kind': 'proof', 'mode': 'legacy',
 'functions': ['__printf'],
 'replace': ['print_i'],
 'clauses': 'argument fetch of d i u o x X for each length modifier (none hh h l ll j z t): exactly one call of print_i; the value passed is the ISO conversion of the va_arg (promoted argument converted to the modified type, then sign- or zero-extended); base / signedness / upper-case as the conversion letter says; width and precision given through * arrive as ISO prescribes (negative width = - flag and positive width, negative precision = none); the callback and its data are passed on; __printf returns what print_i returned.  Also proves the call-site preconditions the print_i unit assumes.',
 'params': {'CONV': ['CONV_d', 'CONV_i', 'CONV_u', 'CONV_o', 'CONV_x', 'CONV_X'], 'MOD': [0, 1, 2, 3, 4, 5, 6, 7]},
 'include': ['igris/util'],
 'unwind': 12,
 'complete_unwinding': 'the format is a string literal of at most 8 characters: the directive loop, the flag loop, the real shim atoi (white space and digit loops) and the default-case echo loop all run over it; unwound 12 times with unwinding assertions',
 'kf': ['C06_neg_star_width'],
 'kf_probe_case': {'C06_neg_star_width': {'CONV': 'CONV_d', 'MOD': 0}},
 'assumptions': ['a `*` width argument is not INT_MIN (its negation, which ISO prescribes, does not exist)',
                 'varargs: cbmc model of va_arg on x86_64 (each argument its own object of the promoted type)'],
 'trusted': ['atoi: the real shim code compat/libc/stdlib/atol.c runs on the literal format (proved separately by units/C11/atoi.c)'],
 'witness': {'unwind': 12},
} @*/
#include "vc.h"
#include "c06_env.h"
#include "c06_print_contracts.h"
#define atol vc_atol
#define atoi vc_atoi
#include "compat/libc/stdlib/atol.c"
#include "igris/util/printf_impl.c"
#include "c06_pform.h"

#define CONV_d 'd'
#define CONV_i 'i'
#define CONV_u 'u'
#define CONV_o 'o'
#define CONV_x 'x'
#define CONV_X 'X'
#if CONV == CONV_d
#define CONVSTR "d"
#elif CONV == CONV_i
#define CONVSTR "i"
#elif CONV == CONV_u
#define CONVSTR "u"
#elif CONV == CONV_o
#define CONVSTR "o"
#elif CONV == CONV_x
#define CONVSTR "x"
#else
#define CONVSTR "X"
#endif
#define IS_SIGNED (CONV == CONV_d || CONV == CONV_i)
#define BASE (CONV == CONV_o ? 8 : (CONV == CONV_x || CONV == CONV_X) ? 16 : 10)

/* ISO 7.21.6.1p7: the type the (promoted) argument is converted to before printing */
#if MOD == 0
#define MODSTR ""
typedef int styp; typedef unsigned utyp; typedef int sarg; typedef unsigned uarg;
#elif MOD == 1
#define MODSTR "hh"
typedef signed char styp; typedef unsigned char utyp; typedef int sarg; typedef unsigned uarg;
#elif MOD == 2
#define MODSTR "h"
typedef short styp; typedef unsigned short utyp; typedef int sarg; typedef unsigned uarg;
#elif MOD == 3
#define MODSTR "l"
typedef long styp; typedef unsigned long utyp; typedef long sarg; typedef unsigned long uarg;
#elif MOD == 4
#define MODSTR "ll"
typedef long long styp; typedef unsigned long long utyp; typedef long long sarg; typedef unsigned long long uarg;
#elif MOD == 5
#define MODSTR "j"
typedef intmax_t styp; typedef uintmax_t utyp; typedef intmax_t sarg; typedef uintmax_t uarg;
#elif MOD == 6
#define MODSTR "z"
typedef ssize_t styp; typedef size_t utyp; typedef ssize_t sarg; typedef size_t uarg;
#else
#define MODSTR "t"
typedef ptrdiff_t styp; typedef size_t utyp; typedef ptrdiff_t sarg; typedef size_t uarg;
#endif

static int g_cbdata;
static int call(const char *fmt, ...)
{
    va_list ap;
    va_start(ap, fmt);
    int r = __printf(c06_event_recorder, &g_cbdata, fmt, ap);
    va_end(ap);
    return r;
}

void harness(void)
{
    WIT(llong, a);
    WIT(int, w);
    WIT(int, p);
    /* the value ISO prints: the argument converted to the modified type, as a 64-bit pattern */
    ullong expect = IS_SIGNED ? (ullong)(llong)(styp)(sarg)a : (ullong)(utyp)(uarg)a;
    unsigned fmt_ops = CONV == CONV_X ? C06_OPS_UPPER : 0u;
    int r;

    c06_events_reset(0);
    if (IS_SIGNED)
        r = call("%" MODSTR CONVSTR, (sarg)a);
    else
        r = call("%" MODSTR CONVSTR, (uarg)a);
    __CPROVER_assert(g_ev == 1 && g_nlit == 0 && g_e_kind == C06_EV_INT, "plain directive: exactly one integer conversion, no other output");
    __CPROVER_assert(g_e_u == expect, "value passed to print_i == ISO conversion of the argument for this length modifier");
    __CPROVER_assert(g_e_signed == IS_SIGNED && g_e_base == BASE, "signedness and base of the conversion letter");
    __CPROVER_assert(g_e_width == 0 && g_e_prec == 0 && (g_e_ops & C06_OPS_FMT_MASK) == fmt_ops, "no width, no precision, no flags; upper case only for X");
    __CPROVER_assert(g_e_h == c06_event_recorder && g_e_d == (void *)&g_cbdata, "callback and callback data passed on");
    __CPROVER_assert(r == g_sum, "__printf returns what print_i returned");

    /* width and precision through `*` */
    __CPROVER_assume(w != INT_MIN);
    __CPROVER_assume(KF_C06_neg_star_width == 0 ? 1 : KF_C06_neg_star_width == 1 ? !(w < 0) : (w < 0));
    c06_events_reset(0);
    if (IS_SIGNED)
        r = call("%*.*" MODSTR CONVSTR, w, p, (sarg)a);
    else
        r = call("%*.*" MODSTR CONVSTR, w, p, (uarg)a);
    __CPROVER_assert(g_ev == 1 && g_nlit == 0 && g_e_kind == C06_EV_INT, "* directive: exactly one integer conversion, no other output");
    __CPROVER_assert(g_e_u == expect && g_e_signed == IS_SIGNED && g_e_base == BASE, "* directive: value, signedness, base");
    __CPROVER_assert(g_e_width == (w < 0 ? -w : w) && ((g_e_ops & C06_OPS_LEFT) != 0) == (w < 0),
                     "* width: ISO 7.21.6.1p5 a negative field width argument is taken as a - flag followed by a positive field width");
    __CPROVER_assert(g_e_prec == (p < 0 ? 0 : p) && ((g_e_ops & C06_OPS_PREC) != 0) == (p >= 0),
                     "* precision: ISO 7.21.6.1p5 a negative precision argument is taken as if the precision were omitted");
    __CPROVER_assert((g_e_ops & (C06_OPS_FMT_MASK & ~(C06_OPS_LEFT | C06_OPS_PREC))) == fmt_ops, "* directive: no other flag");
    __CPROVER_assert(r == g_sum, "* directive: __printf returns what print_i returned");
    CANARY("fetch_int harness end reachable");
}
