/*@unit {
 'kind': 'bounded', 'mode': 'plain', 'tier': 'thorough',
 'bound': 'pending list of at most NT timers (2 in the quick tier, 3 in the thorough tier) in an arbitrary sorted, well-linked state; one exec(now) in which thorough tier: ONE timer firing up to 4 times in one exec (catch-up: one firing per elapsed period, re-armed at previous deadline + interval, no drift after a long stall; ~10 min); loops unwound with unwinding assertions',
 'functions': ['timer_manager_basic::plan(tim)', 'timer_manager_basic::plan(tim,start,interval)', 'timer_manager_basic::exec', 'timer_manager_basic::empty',
               'timer_manager_basic::minimal_interval', 'timer_head_basic::is_planned', 'timer_head_basic::unplan'],
 'extract': ['units/C01/cxx_dlist_extract.py', 'units/C16/manager_extract.py'],
 'unwind': 7, 'params': {'NT': [1], 'MAXFIRE': [4]},
 'clauses': 'scheduler clauses of C16 on the real (extracted) timer_manager, bounded: after every plan() the pending list is sorted by deadline and holds exactly the planned timers; '
            'during exec(now) a callback never runs before its deadline, callbacks run in non-decreasing deadline order, each firing of a timer is at exactly its previous deadline + interval '
            '(no drift, one firing per elapsed period), a timer that unplans itself in its callback does not fire again, an unplanned timer never fires; after exec no planned timer is due; '
            'empty() and minimal_interval() agree with the reference (time to the earliest pending deadline)',
 'witness': {'unwind': 5},
 'timeout': 1200, 'mem_gb': 24, 'weight': 3,
 'assumptions': ['times in [-2^40, 2^40], intervals in [1, 2^40]', 'callbacks either leave the timer planned or unplan it (they do not re-plan other timers)',
                 'std::find_if over dlist iterators == first node satisfying the predicate (R8 stub in the recipe); single-threaded (system_lock removed)'],
} @*/
#include "vc.h"
#include "cxx/dlist_cxx.c"
#include "cxx/timer_manager_cxx.c"

#ifndef NT
#define NT 2
#endif
#ifndef MAXFIRE
#define MAXFIRE 1
#endif
static struct timer_head_basic tm[NT];
static struct timer_manager_basic mgr;
/* ghost record of the firings */
static int g_nfired; static int64_t g_last_deadline; static int g_order_ok = 1, g_due_ok = 1, g_drift_ok = 1, g_planned_ok = 1;
static int64_t g_now; static int64_t g_expect[NT]; static int g_selfunplan[NT]; static int g_fired[NT]; static int g_was_planned[NT];

static int idx_of(struct timer_head_basic *t) { return (int)(t - tm); }
void vc_timer_execute(struct timer_head_basic *t)
{
    int i = idx_of(t);
    int64_t deadline = t->_start + t->_interval;
    if (deadline > g_now) g_due_ok = 0;                          /* never before its deadline */
    if (g_nfired > 0 && deadline < g_last_deadline) g_order_ok = 0; /* non-decreasing deadline order */
    if (deadline != g_expect[i]) g_drift_ok = 0;                 /* previous deadline + interval exactly */
    if (!g_was_planned[i]) g_planned_ok = 0;                     /* an unplanned timer never fires */
    g_expect[i] = deadline + t->_interval;
    g_last_deadline = deadline; g_nfired++; g_fired[i]++;
    if (g_selfunplan[i]) { timer_head_unplan(t); g_was_planned[i] = 0; }
}

/* reference view of the pending list: sorted by deadline, holds exactly the planned timers */
static void check_list(const char *unused)
{
    int cnt = 0; int seen[NT]; for (int i = 0; i < NT; i++) seen[i] = 0;
    int64_t prev = 0;
    for (struct dlist_node *n = mgr.timer_list.list.next; n != &mgr.timer_list.list; n = n->next) {
        struct timer_head_basic *t = TIMER_OF(n);
        int i = idx_of(t);
        __CPROVER_assert(i >= 0 && i < NT && !seen[i], "pending list holds timers, each once");
        seen[i] = 1;
        __CPROVER_assert(n->next->prev == n && n->prev->next == n, "pending list is well linked");
        int64_t d = timer_head_finish(t);
        __CPROVER_assert(cnt == 0 || prev <= d, "pending list is sorted by deadline");
        prev = d; cnt++;
    }
    for (int i = 0; i < NT; i++)
        __CPROVER_assert(seen[i] == (g_was_planned[i] != 0) && timer_head_is_planned(&tm[i]) == (g_was_planned[i] != 0), "pending set == planned timers");
}

/* build an arbitrary sorted pending list of cnt <= NT distinct timers */
static void build(uchar cnt, const uchar *ord)
{
    timer_manager_ctor(&mgr);
    struct dlist_node *prev = &mgr.timer_list.list;
    for (int p = 0; p < NT; p++) {
        if (p >= cnt) break;
        __CPROVER_assume(ord[p] < NT);
        for (int q = 0; q < p; q++) __CPROVER_assume(ord[q] != ord[p]);
        struct dlist_node *n = &tm[ord[p]].lnk;
        prev->next = n; n->prev = prev; prev = n;
        g_was_planned[ord[p]] = 1;
        if (p > 0) __CPROVER_assume(timer_head_finish(&tm[ord[p - 1]]) <= timer_head_finish(&tm[ord[p]]));
    }
    prev->next = &mgr.timer_list.list; mgr.timer_list.list.prev = prev;
}


void harness(void)
{
    WIT_ARR(int64_t, start, NT); WIT_ARR(int64_t, interval, NT); WIT_ARR(uchar, ord, NT); WIT(uchar, cnt); WIT_ARR(uchar, selfun, NT);
    WIT(int64_t, now);
    const int64_t R = (int64_t)1 << 40;
    for (int i = 0; i < NT; i++) {
        __CPROVER_assume(start[i] >= -R && start[i] <= R && interval[i] >= 1 && interval[i] <= R);
        dlist_node_nsdmi(&tm[i].lnk); dlist_node_ctor(&tm[i].lnk);
        tm[i]._start = start[i]; tm[i]._interval = interval[i];
        g_selfunplan[i] = selfun[i] & 1; g_was_planned[i] = 0; g_fired[i] = 0;
    }
    __CPROVER_assume(cnt <= NT && now >= -R && now <= R);
    build(cnt, ord);
    int64_t earliest = 0; int any = 0;
    for (int i = 0; i < NT; i++) {
        g_expect[i] = tm[i]._start + tm[i]._interval;
        __CPROVER_assume(now < tm[i]._start + (MAXFIRE + 1) * tm[i]._interval);     /* bound: at most MAXFIRE firings per timer */
        if (g_was_planned[i] && (!any || g_expect[i] < earliest)) { earliest = g_expect[i]; any = 1; }
    }
    __CPROVER_assert(timer_manager_empty(&mgr) == !any, "empty() agrees with the reference");
    if (any) __CPROVER_assert(timer_manager_minimal_interval(&mgr, now) == earliest - now, "time to the next deadline agrees with the reference");
    g_now = now; g_nfired = 0;

    timer_manager_exec(&mgr, now);

    __CPROVER_assert(g_due_ok, "no callback ran before its deadline");
    __CPROVER_assert(g_order_ok, "callbacks ran in non-decreasing deadline order");
    __CPROVER_assert(g_drift_ok, "every firing was at exactly the previous deadline + interval (no drift, one firing per period)");
    __CPROVER_assert(g_planned_ok, "an unplanned timer never fired");
    check_list("after exec");
    for (int i = 0; i < NT; i++) {
        if (g_was_planned[i]) __CPROVER_assert(timer_head_finish(&tm[i]) > now, "every planned timer whose deadline has passed ran (none is still due)");
        if (g_selfunplan[i]) __CPROVER_assert(g_fired[i] <= 1, "a timer that unplans itself does not fire again");
    }
    CANARY("timer manager exec end reachable");
}
