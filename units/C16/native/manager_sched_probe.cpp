// Bounded native run of the REAL igris::timer_manager (igris/time/timer_manager.h, not the extraction) against a reference scheduler,
// under ASan/UBSan.  Stands in when a changed plan()/exec() is outside the extractor's dialect (bounded stand-in, never counted as proved).
// Bound: 3 timers, starts in {0, 3}, intervals in {2, 5, 7}; every sequence of 4 operations out of
//        { plan(t) for each t, unplan(t) for each t, exec(now += d) for d in {0, 1, 4, 11} }, callbacks that leave the timer planned,
//        and a second sweep in which timer 0 unplans itself and timer 1 in its callback.
// C16 clauses checked after every operation: a callback never runs before its deadline; callbacks within one exec run in non-decreasing
// deadline order; every firing is at exactly the previous deadline + interval; an unplanned timer never fires; after exec no planned timer
// is due; pending set / empty() / minimal_interval() equal the reference.
#include <igris/time/timer_manager.h>
#include <cstdio>
#include <cstdlib>
#include <cstdint>
#include <vector>

extern "C" void system_lock(void) {}
extern "C" void system_unlock(void) {}

static const int NT = 3;
struct ref_timer { bool planned; int64_t start, interval; };
static ref_timer ref[NT];
static int64_t g_now;
static int g_mode;                 // 1: timer 0's callback unplans itself and timer 1
static bool g_in_exec;
static int64_t g_last_deadline; static int g_fired_in_exec;
static int fails;
static void fail(const char *what, const char *ctx) { if (fails++ < 5) std::printf("FAIL: %s (%s)\n", what, ctx); }
static char ctxbuf[256];

struct probe_timer : public igris::timer_head
{
    int id = 0;
    void execute() override;
};
static probe_timer tm[NT];

void probe_timer::execute()
{
    ref_timer &r = ref[id];
    int64_t deadline = r.start + r.interval;
    if (!r.planned) fail("an unplanned timer fired", ctxbuf);
    if (finish() != deadline) fail("firing is not at the previous deadline + interval (drift)", ctxbuf);
    if (deadline > g_now) fail("callback ran before its deadline", ctxbuf);
    if (g_fired_in_exec && deadline < g_last_deadline) fail("callbacks of one exec not in non-decreasing deadline order", ctxbuf);
    // the reference: the fired timer must be the earliest planned one
    for (int j = 0; j < NT; j++)
        if (ref[j].planned && ref[j].start + ref[j].interval < deadline) fail("a planned timer with an earlier deadline was skipped", ctxbuf);
    g_last_deadline = deadline; g_fired_in_exec++;
    if (g_mode == 1 && id == 0)
    {
        unplan(); r.planned = false;
        tm[1].unplan(); ref[1].planned = false;
    }
    if (r.planned) r.start += r.interval;       // reference: a timer left planned by its callback is re-armed at previous deadline + interval
}

static void check_state(igris::timer_manager &m)
{
    bool any = false; int64_t earliest = 0;
    for (int j = 0; j < NT; j++)
    {
        if (tm[j].is_planned() != ref[j].planned) fail("pending set differs from the reference", ctxbuf);
        if (ref[j].planned && tm[j].finish() != ref[j].start + ref[j].interval) fail("deadline of a pending timer differs from the reference", ctxbuf);
        if (ref[j].planned && (!any || ref[j].start + ref[j].interval < earliest)) { earliest = ref[j].start + ref[j].interval; any = true; }
    }
    if (m.empty() != !any) fail("empty() differs from the reference", ctxbuf);
    if (any && m.minimal_interval(g_now) != earliest - g_now) fail("minimal_interval() differs from the reference", ctxbuf);
}

int main()
{
    static const int64_t starts[] = {0, 3}, intervals[] = {2, 5, 7}, steps[] = {0, 1, 4, 11};
    const int NOPS = 2 * NT + 4, LEN = 4;
    long runs = 0;
    for (g_mode = 0; g_mode < 2; g_mode++)
        for (int cfg = 0; cfg < 2 * 2 * 2 * 3; cfg++)          // starts of the 3 timers x interval rotation
        {
            int total = 1; for (int k = 0; k < LEN; k++) total *= NOPS;
            for (int code = 0; code < total; code++)
            {
                igris::timer_manager m;
                g_now = 0;
                for (int j = 0; j < NT; j++)
                {
                    tm[j].id = j; tm[j].unplan();
                    int64_t s = starts[(cfg >> j) & 1], iv = intervals[(j + cfg / 8) % 3];
                    tm[j].set_start(s); tm[j].set_interval(iv);
                    ref[j] = ref_timer{false, s, iv};
                }
                int c = code;
                for (int k = 0; k < LEN && fails == 0; k++, c /= NOPS)
                {
                    int op = c % NOPS;
                    std::snprintf(ctxbuf, sizeof ctxbuf, "mode %d cfg %d sequence %d step %d op %d", g_mode, cfg, code, k, op);
                    if (op < NT) { m.plan(tm[op]); ref[op].planned = true; }
                    else if (op < 2 * NT) { tm[op - NT].unplan(); ref[op - NT].planned = false; }
                    else
                    {
                        g_now += steps[op - 2 * NT];
                        g_fired_in_exec = 0;
                        m.exec(g_now);
                        for (int j = 0; j < NT; j++)
                            if (ref[j].planned && ref[j].start + ref[j].interval <= g_now) fail("a planned timer whose deadline has passed did not run", ctxbuf);
                    }
                    check_state(m);
                }
                for (int j = 0; j < NT; j++) tm[j].unplan();
                runs++;
                if (fails) { std::printf("%d clause violations (first shown), after %ld histories\n", fails, runs); return 1; }
            }
        }
    std::printf("ok: %ld histories\n", runs);
    return 0;
}
