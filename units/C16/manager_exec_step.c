/*@unit {
 'kind': 'proof', 'mode': 'plain',
 'functions': ['timer_manager_basic::exec', 'timer_manager_basic::plan(tim)', 'timer_head_basic::check', 'timer_head_basic::shift', 'timer_head_basic::unplan', 'timer_head_basic::is_planned'],
 'extract': ['units/C01/cxx_dlist_extract.py', 'units/C16/manager_extract.py'],
 'inject': [{'file': 'overlay:cxx/timer_manager_cxx.c', 'func': 'timer_manager_exec', 'ghost': 'g_exec_iter_end(self);', 'at': 'body-end', 'loop': 0}],
 'unwind': 5, 'params': {'NT': [1, 2]}, 'params_thorough': {'NT': [1, 2, 3]},
 'clauses': 'inductive step of the loop of exec(now), for an ARBITRARY pending list of at most NT timers that satisfies the loop invariant I (well linked, sorted by deadline, holds exactly the planned '
            'timers) with arbitrary starts, intervals (>= 1) and now - any number of periods overdue: one iteration either (a) leaves the loop without firing, and then no planned timer is due, or '
            '(b) fires exactly the head timer, which is due (never before its deadline) and has the smallest deadline of all planned timers; a timer left planned by its callback is re-armed at exactly '
            'the fired deadline + interval, a timer that unplans itself is gone; every other timer is untouched; I holds again and every pending deadline is >= the fired deadline (so the next firing is '
            'in non-decreasing deadline order). By induction over the iterations this gives the ordering, never-early, catch-up (one firing per elapsed period, no drift) and all-due-timers-run clauses '
            'of C16 for ANY number of firings in one exec; the bound is only the number of timers in the list (the loop body walks the list in plan())',
 'bound': 'at most NT timers in the pending list (2 in the quick tier, 3 in the thorough tier); the number of firings per exec is NOT bounded (inductive step)',
 'complete_unwinding': 'list walks bounded by NT <= 3 (unwinding assertions on)',
 'witness': {'unwind': 5},
 'timeout': 900, 'weight': 2,
 'assumptions': ['times in [-2^40, 2^40], intervals in [1, 2^40]', 'callbacks either leave the timer planned or unplan it (they do not re-plan other timers)',
                 'std::find_if over dlist iterators == first node satisfying the predicate (R8 stub in the recipe); single-threaded (system_lock removed)',
                 'termination of the catch-up loop is not part of this unit (bounded units manager_exec, manager_exec_catchup in the thorough tier run whole exec calls)'],
} @*/
#include "vc.h"
struct timer_manager_basic;
void g_exec_iter_end(struct timer_manager_basic *self);      /* ghost: injected at the end of the body of exec's loop */
#include "cxx/dlist_cxx.c"
#include "cxx/timer_manager_cxx.c"

#ifndef NT
#define NT 2
#endif
static struct timer_head_basic tm[NT];
static struct timer_manager_basic mgr;
/* ghost record of the firing of this iteration */
static int g_nfired; static int g_fired_i = -1; static int64_t g_fired_deadline; static int64_t g_now;
static int g_selfunplan[NT]; static int g_was_planned[NT]; static int64_t g_start0[NT], g_interval0[NT];
static int g_iter_end_seen;

static int idx_of(struct timer_head_basic *t) { return (int)(t - tm); }
void vc_timer_execute(struct timer_head_basic *t)
{
    int i = idx_of(t);
    int64_t deadline = t->_start + t->_interval;
    __CPROVER_assert(g_nfired == 0, "one iteration fires at most one callback");
    __CPROVER_assert(i >= 0 && i < NT && g_was_planned[i], "an unplanned timer never fires");
    __CPROVER_assert(deadline <= g_now, "a callback never runs before its deadline");
    __CPROVER_assert(t->_start == g_start0[i] && t->_interval == g_interval0[i], "the timer is fired with its deadline unchanged");
    for (int j = 0; j < NT; j++)
        if (g_was_planned[j]) __CPROVER_assert(deadline <= g_start0[j] + g_interval0[j], "the fired timer has the smallest deadline of all planned timers");
    g_fired_i = i; g_fired_deadline = deadline; g_nfired++;
    if (g_selfunplan[i]) { timer_head_unplan(t); g_was_planned[i] = 0; }
}

/* invariant I: well linked, sorted by deadline, holds exactly the planned timers */
static void check_list(void)
{
    int cnt = 0; int seen[NT]; for (int i = 0; i < NT; i++) seen[i] = 0;
    int64_t prev = 0;
    for (struct dlist_node *n = mgr.timer_list.list.next; n != &mgr.timer_list.list; n = n->next) {
        struct timer_head_basic *t = TIMER_OF(n);
        int i = idx_of(t);
        __CPROVER_assert(i >= 0 && i < NT && !seen[i], "pending list holds timers, each once");
        seen[i] = 1;
        __CPROVER_assert(n->next->prev == n && n->prev->next == n, "pending list is well linked");
        int64_t d = timer_head_finish(t);
        __CPROVER_assert(cnt == 0 || prev <= d, "pending list is sorted by deadline");
        prev = d; cnt++;
    }
    for (int i = 0; i < NT; i++)
        __CPROVER_assert(seen[i] == (g_was_planned[i] != 0) && timer_head_is_planned(&tm[i]) == (g_was_planned[i] != 0), "pending set == planned timers");
}

void g_exec_iter_end(struct timer_manager_basic *self)
{
    __CPROVER_assert(self == &mgr, "exec works on its own manager");
    __CPROVER_assert(g_nfired == 1, "an iteration that stays in the loop fired the head timer");
    check_list();
    for (int i = 0; i < NT; i++) {
        if (i == g_fired_i) {
            if (!g_selfunplan[i]) {
                __CPROVER_assert(tm[i]._interval == g_interval0[i] && tm[i]._start + tm[i]._interval == g_fired_deadline + g_interval0[i],
                                 "a timer left planned by its callback is re-armed at exactly the fired deadline + interval");
            }
        } else {
            __CPROVER_assert(tm[i]._start == g_start0[i] && tm[i]._interval == g_interval0[i], "other timers are untouched by the iteration");
        }
        if (g_was_planned[i]) __CPROVER_assert(timer_head_finish(&tm[i]) >= g_fired_deadline, "every pending deadline is >= the fired deadline (next firing in non-decreasing order)");
    }
    g_iter_end_seen = 1;
    CANARY("exec loop iteration end reachable");
    __CPROVER_assume(0);          /* inductive step: the state after the iteration is again an arbitrary state satisfying I */
}

/* build an arbitrary sorted pending list of cnt <= NT distinct timers */
static void build(uchar cnt, const uchar *ord)
{
    timer_manager_ctor(&mgr);
    struct dlist_node *prev = &mgr.timer_list.list;
    for (int p = 0; p < NT; p++) {
        if (p >= cnt) break;
        __CPROVER_assume(ord[p] < NT);
        for (int q = 0; q < p; q++) __CPROVER_assume(ord[q] != ord[p]);
        struct dlist_node *n = &tm[ord[p]].lnk;
        prev->next = n; n->prev = prev; prev = n;
        g_was_planned[ord[p]] = 1;
        if (p > 0) __CPROVER_assume(timer_head_finish(&tm[ord[p - 1]]) <= timer_head_finish(&tm[ord[p]]));
    }
    prev->next = &mgr.timer_list.list; mgr.timer_list.list.prev = prev;
}

void harness(void)
{
    WIT_ARR(int64_t, start, NT); WIT_ARR(int64_t, interval, NT); WIT_ARR(uchar, ord, NT); WIT(uchar, cnt); WIT_ARR(uchar, selfun, NT);
    WIT(int64_t, now);
    const int64_t R = (int64_t)1 << 40;
    for (int i = 0; i < NT; i++) {
        __CPROVER_assume(start[i] >= -R && start[i] <= R && interval[i] >= 1 && interval[i] <= R);
        dlist_node_nsdmi(&tm[i].lnk); dlist_node_ctor(&tm[i].lnk);
        tm[i]._start = start[i]; tm[i]._interval = interval[i];
        g_start0[i] = start[i]; g_interval0[i] = interval[i];
        g_selfunplan[i] = selfun[i] & 1; g_was_planned[i] = 0;
    }
    __CPROVER_assume(cnt <= NT && now >= -R && now <= R);
    build(cnt, ord);
    g_now = now; g_nfired = 0;

    timer_manager_exec(&mgr, now);

    /* reached only when the first iteration left the loop (list empty or head not due): nothing fired, nothing changed, nothing is due */
    __CPROVER_assert(g_nfired == 0 && !g_iter_end_seen, "exec returned from its first iteration without firing");
    check_list();
    for (int i = 0; i < NT; i++) {
        __CPROVER_assert(tm[i]._start == g_start0[i] && tm[i]._interval == g_interval0[i], "no timer is changed when nothing fires");
        if (g_was_planned[i]) __CPROVER_assert(timer_head_finish(&tm[i]) > now, "the loop is left only when no planned timer is due (every due timer runs)");
    }
    CANARY("timer manager exec (no firing) end reachable");
}
