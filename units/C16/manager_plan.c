/*@unit {
 'kind': 'bounded', 'mode': 'plain',
 'bound': 'pending list of at most NT timers (2 in the quick tier, 3 in the thorough tier) in an arbitrary sorted, well-linked state (inductive in the history: one operation from every such state); loops unwound with unwinding assertions',
 'functions': ['timer_manager_basic::plan(tim)', 'timer_manager_basic::plan(tim,start,interval)', 'timer_manager_basic::exec', 'timer_manager_basic::empty',
               'timer_manager_basic::minimal_interval', 'timer_head_basic::is_planned', 'timer_head_basic::unplan'],
 'extract': ['units/C01/cxx_dlist_extract.py', 'units/C16/manager_extract.py'],
 'native_cxx_probes': [{'file': 'units/C16/native/manager_sched_probe.cpp', 'run': True, 'sources': ['igris/container/dlist.cpp'],
                       'what': 'real igris::timer_manager (not the extraction) against a reference scheduler',
                       'bound': '3 timers, starts {0,3}, intervals {2,5,7}, all 10^4 sequences of 4 operations out of plan/unplan/exec(+0,+1,+4,+11), two callback behaviours: 480000 histories'}],
 'unwind': 5, 'params': {'OP': [0, 1, 2], 'NT': [2]}, 'params_thorough': {'NT': [2, 3]},
 'clauses': 'unplan() of any timer from outside the manager [OP 2]: pending set, empty() and minimal_interval() follow; plan() [OP 0] / plan(tim,start,interval) [OP 1] of a new or an already planned timer (whose parameters may have changed) from every sorted pending list of <= 3 timers: scheduler clauses of C16 on the real (extracted) timer_manager, bounded: after every plan() the pending list is sorted by deadline and holds exactly the planned timers; '
            'during exec(now) a callback never runs before its deadline, callbacks run in non-decreasing deadline order, each firing of a timer is at exactly its previous deadline + interval '
            '(no drift, one firing per elapsed period), a timer that unplans itself in its callback does not fire again, an unplanned timer never fires; after exec no planned timer is due; '
            'empty() and minimal_interval() agree with the reference (time to the earliest pending deadline)',
 'witness': {'unwind': 5},
 'timeout': 900,
 'assumptions': ['times in [-2^40, 2^40], intervals in [1, 2^40]', 'callbacks either leave the timer planned or unplan it (they do not re-plan other timers)',
                 'std::find_if over dlist iterators == first node satisfying the predicate (R8 stub in the recipe); single-threaded (system_lock removed)'],
} @*/
#include "vc.h"
#include "cxx/dlist_cxx.c"
#include "cxx/timer_manager_cxx.c"

#ifndef NT
#define NT 2
#endif
static struct timer_head_basic tm[NT];
static struct timer_manager_basic mgr;
/* ghost record of the firings */
static int g_nfired; static int64_t g_last_deadline; static int g_order_ok = 1, g_due_ok = 1, g_drift_ok = 1, g_planned_ok = 1;
static int64_t g_now; static int64_t g_expect[NT]; static int g_selfunplan[NT]; static int g_fired[NT]; static int g_was_planned[NT];

static int idx_of(struct timer_head_basic *t) { return (int)(t - tm); }
void vc_timer_execute(struct timer_head_basic *t)
{
    int i = idx_of(t);
    int64_t deadline = t->_start + t->_interval;
    if (deadline > g_now) g_due_ok = 0;                          /* never before its deadline */
    if (g_nfired > 0 && deadline < g_last_deadline) g_order_ok = 0; /* non-decreasing deadline order */
    if (deadline != g_expect[i]) g_drift_ok = 0;                 /* previous deadline + interval exactly */
    if (!g_was_planned[i]) g_planned_ok = 0;                     /* an unplanned timer never fires */
    g_expect[i] = deadline + t->_interval;
    g_last_deadline = deadline; g_nfired++; g_fired[i]++;
    if (g_selfunplan[i]) { timer_head_unplan(t); g_was_planned[i] = 0; }
}

/* reference view of the pending list: sorted by deadline, holds exactly the planned timers */
static void check_list(const char *unused)
{
    int cnt = 0; int seen[NT]; for (int i = 0; i < NT; i++) seen[i] = 0;
    int64_t prev = 0;
    for (struct dlist_node *n = mgr.timer_list.list.next; n != &mgr.timer_list.list; n = n->next) {
        struct timer_head_basic *t = TIMER_OF(n);
        int i = idx_of(t);
        __CPROVER_assert(i >= 0 && i < NT && !seen[i], "pending list holds timers, each once");
        seen[i] = 1;
        __CPROVER_assert(n->next->prev == n && n->prev->next == n, "pending list is well linked");
        int64_t d = timer_head_finish(t);
        __CPROVER_assert(cnt == 0 || prev <= d, "pending list is sorted by deadline");
        prev = d; cnt++;
    }
    for (int i = 0; i < NT; i++)
        __CPROVER_assert(seen[i] == (g_was_planned[i] != 0) && timer_head_is_planned(&tm[i]) == (g_was_planned[i] != 0), "pending set == planned timers");
}


/* build an arbitrary sorted pending list of cnt <= NT distinct timers */
static void build(uchar cnt, const uchar *ord)
{
    timer_manager_ctor(&mgr);
    struct dlist_node *prev = &mgr.timer_list.list;
    for (int p = 0; p < NT; p++) {
        if (p >= cnt) break;
        __CPROVER_assume(ord[p] < NT);
        for (int q = 0; q < p; q++) __CPROVER_assume(ord[q] != ord[p]);
        struct dlist_node *n = &tm[ord[p]].lnk;
        prev->next = n; n->prev = prev; prev = n;
        g_was_planned[ord[p]] = 1;
        if (p > 0) __CPROVER_assume(timer_head_finish(&tm[ord[p - 1]]) <= timer_head_finish(&tm[ord[p]]));
    }
    prev->next = &mgr.timer_list.list; mgr.timer_list.list.prev = prev;
}

void harness(void)
{
    WIT_ARR(int64_t, start, NT); WIT_ARR(int64_t, interval, NT); WIT_ARR(uchar, ord, NT); WIT(uchar, cnt); WIT(uchar, who);
    WIT(int64_t, newstart); WIT(int64_t, newinterval);
    const int64_t R = (int64_t)1 << 40;
    for (int i = 0; i < NT; i++) {
        __CPROVER_assume(start[i] >= -R && start[i] <= R && interval[i] >= 1 && interval[i] <= R);
        dlist_node_nsdmi(&tm[i].lnk); dlist_node_ctor(&tm[i].lnk);
        tm[i]._start = start[i]; tm[i]._interval = interval[i]; g_was_planned[i] = 0;
    }
    __CPROVER_assume(cnt <= NT && who < NT && newstart >= -R && newstart <= R && newinterval >= 1 && newinterval <= R);
#if OP == 2
    /* the pre-state of the cancellation is produced by the manager's own plan() calls (any order of arrival): a state built by hand
       could miss representation the manager keeps besides the list (caches), and a clause about unplan must not depend on that */
    timer_manager_ctor(&mgr);
    for (int p = 0; p < NT; p++) {
        if (p >= cnt) break;
        __CPROVER_assume(ord[p] < NT);
        for (int q = 0; q < p; q++) __CPROVER_assume(ord[q] != ord[p]);
        timer_manager_plan(&mgr, &tm[ord[p]]);
        g_was_planned[ord[p]] = 1;
    }
#else
    build(cnt, ord);
#endif
    check_list("pre");
#if OP == 0
    /* the timer's parameters may have been changed since it was planned (set_start / set_interval, shift) */
    if (timer_head_is_planned(&tm[who])) { tm[who]._start = newstart; tm[who]._interval = newinterval; }
    timer_manager_plan(&mgr, &tm[who]);
#elif OP == 1
    timer_manager_plan3(&mgr, &tm[who], newstart, newinterval);
    __CPROVER_assert(tm[who]._start == newstart && tm[who]._interval == newinterval, "plan(tim, start, interval) sets the parameters");
#else
    /* OP 2: a timer is cancelled from outside (timer_head::unplan unlinks it without telling the manager): the pending set, emptiness
       and the time to the next deadline must follow */
    timer_head_unplan(&tm[who]);
    g_was_planned[who] = 0;
    check_list("after unplan");
    {
        WIT(int64_t, now);
        __CPROVER_assume(now >= -R && now <= R);
        int64_t earliest = 0; int any = 0;
        for (int i = 0; i < NT; i++)
            if (g_was_planned[i] && (!any || tm[i]._start + tm[i]._interval < earliest)) { earliest = tm[i]._start + tm[i]._interval; any = 1; }
        __CPROVER_assert(timer_manager_empty(&mgr) == !any, "after an unplan: empty() agrees with the reference");
        if (any) __CPROVER_assert(timer_manager_minimal_interval(&mgr, now) == earliest - now, "after an unplan: time to the next deadline agrees with the reference");
        __CPROVER_assert(!timer_head_is_planned(&tm[who]), "an unplanned timer is not planned");
    }
#endif
#if OP != 2
    g_was_planned[who] = 1;
    check_list("after plan");
    __CPROVER_assert(!timer_manager_empty(&mgr), "not empty after a plan");
#endif
    CANARY("timer manager plan end reachable");
}
