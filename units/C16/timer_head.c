/*@unit {
 'kind': 'proof', 'mode': 'plain',
 'functions': ['timer_head_basic::check', 'timer_head_basic::finish', 'timer_head_basic::shift', 'timer_head_basic::set_start', 'timer_head_basic::set_interval'],
 'extract': [{
   'out': 'cxx/timer_head.c',
   'pieces': [
     {'op': 'glue', 'text': '#include <stdint.h>\n#include <stdbool.h>\n'},
     {'op': 'struct', 'file': 'igris/time/timer_manager.h', 'name': 'timer_head_basic', 'ctor': 'timer_head_basic_defaults',
      'tparams': {'time_t': 'int64_t', 'difftime_t': 'int64_t'}, 'drop_fields': ['lnk']},
     {'op': 'func', 'file': 'igris/time/timer_manager.h', 'name': 'finish', 'in_class': 'timer_head_basic', 'self': 'timer_head_basic',
      'as': 'timer_head_finish', 'tparams': {'time_t': 'int64_t', 'difftime_t': 'int64_t'}},
     {'op': 'func', 'file': 'igris/time/timer_manager.h', 'name': 'check', 'in_class': 'timer_head_basic', 'self': 'timer_head_basic',
      'as': 'timer_head_check', 'tparams': {'time_t': 'int64_t', 'difftime_t': 'int64_t'}},
     {'op': 'func', 'file': 'igris/time/timer_manager.h', 'name': 'set_start', 'in_class': 'timer_head_basic', 'self': 'timer_head_basic',
      'as': 'timer_head_set_start', 'tparams': {'time_t': 'int64_t', 'difftime_t': 'int64_t'}},
     {'op': 'func', 'file': 'igris/time/timer_manager.h', 'name': 'set_interval', 'in_class': 'timer_head_basic', 'self': 'timer_head_basic',
      'as': 'timer_head_set_interval', 'tparams': {'time_t': 'int64_t', 'difftime_t': 'int64_t'}},
     {'op': 'func', 'file': 'igris/time/timer_manager.h', 'name': 'shift', 'in_class': 'timer_head_basic', 'self': 'timer_head_basic',
      'as': 'timer_head_shift', 'tparams': {'time_t': 'int64_t', 'difftime_t': 'int64_t'}},
   ]}],
 'clauses': 'timer_head (timer_spec<int64_t>; member functions extracted to C mechanically): check(now) <=> now - start >= interval, i.e. never before the '
            'deadline finish() == start+interval and always from it on; shift() re-arms at exactly the previous deadline (start += interval), so the '
            're-armed deadline is previous deadline + interval (catch-up: one firing per elapsed period, no drift); setters change only their field; '
            'a default-constructed head has start == interval == 0',
 'witness': {'unwind': 2},
 'assumptions': ['times and intervals lie in [-2^61, 2^61] (no signed overflow in now - start / start + interval)',
                 'template instantiated at time_t = difftime_t = int64_t (the library default timer_spec<int64_t>); the intrusive link member lnk is dropped here '
                 '(is_planned/unplan are the C++ dlist_node operations of C01)'],
} @*/
#include "vc.h"
#include "cxx/timer_head.c"
#define RANGE(x) ((x) >= -(1LL << 61) && (x) <= (1LL << 61))

void harness(void)
{
    struct timer_head_basic t;
    WIT(int64_t, start); WIT(int64_t, interval); WIT(int64_t, now); WIT(int64_t, v); WIT(int, op);
    __CPROVER_assume(RANGE(start) && RANGE(interval) && RANGE(now) && RANGE(v));
    timer_head_basic_defaults(&t);
    __CPROVER_assert(t._start == 0 && t._interval == 0, "default-constructed head: start == interval == 0");
    t._start = start; t._interval = interval;
    if (op == 0) {
        bool due = timer_head_check(&t, now);
        __CPROVER_assert(due == (now >= start + interval), "due exactly from the deadline start+interval on (never before)");
        __CPROVER_assert(timer_head_finish(&t) == start + interval, "finish() is the deadline");
        __CPROVER_assert(t._start == start && t._interval == interval, "check/finish do not change the timer");
    } else if (op == 1) {
        int64_t d0 = timer_head_finish(&t);
        timer_head_shift(&t);
        __CPROVER_assert(t._start == start + interval && t._interval == interval, "shift: start += interval");
        __CPROVER_assert(timer_head_finish(&t) == d0 + interval, "re-armed deadline == previous deadline + interval exactly");
        if (interval > 0 && now >= d0 + interval) __CPROVER_assert(timer_head_check(&t, now), "still due after one shift when a further period has elapsed (catch-up)");
        if (interval > 0 && now < d0 + interval) __CPROVER_assert(!timer_head_check(&t, now), "not due again before the next period has elapsed");
    } else if (op == 2) {
        timer_head_set_start(&t, v);
        __CPROVER_assert(t._start == v && t._interval == interval, "set_start changes only start");
    } else {
        timer_head_set_interval(&t, v);
        __CPROVER_assert(t._start == start && t._interval == v, "set_interval changes only interval");
    }
    CANARY("timer_head end reachable");
}
