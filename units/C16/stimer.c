/*@unit {
 'kind': 'proof', 'mode': 'plain',
 'functions': ['stimer_init', 'stimer_plan', 'stimer_start', 'stimer_check', 'stimer_swift', 'stimer_finish'],
 'clauses': 'flag-style stimer, loop-free, full 64-bit domain: an unplanned timer is never due; a planned timer is due iff now - start >= interval, '
            'i.e. (no-overflow range) never before its deadline start+interval and always from the deadline on; swift re-arms at exactly the previous deadline '
            '(start += interval: no drift; k swifts = start + k*interval by induction); finish() is the deadline; plan/init/start set exactly the documented fields',
 'witness': {'unwind': 2},
 'assumptions': ['times and intervals lie in [-2^61, 2^61] so that now - start and start + interval do not overflow a signed long (C leaves overflow undefined; '
                 'cbmc flags it as a failed signed-overflow obligation outside this range)'],
} @*/
#include "vc.h"
#include <igris/datastruct/stimer.h>
#include "igris/datastruct/stimer.c"
#define RANGE(x) ((x) >= -(1L << 61) && (x) <= (1L << 61))

void harness(void)
{
    struct stimer_head t;
    WIT(long, start); WIT(long, interval); WIT(long, now); WIT(int, planed); WIT(long, start2); WIT(long, interval2); WIT(int, op);
    __CPROVER_assume(RANGE(start) && RANGE(interval) && RANGE(now) && RANGE(start2) && RANGE(interval2));
    t.start = start; t.interval = interval; t.planed = planed;
    if (op == 0) {
        int due = stimer_check(&t, now);
        __CPROVER_assert(!due || planed, "an unplanned timer never fires");
        __CPROVER_assert(!due || now >= start + interval, "never due before its deadline start+interval");
        __CPROVER_assert(!(planed && now >= start + interval) || due, "due from the deadline on");
        __CPROVER_assert(t.start == start && t.interval == interval && t.planed == planed, "check does not change the timer");
    } else if (op == 1) {
        unsigned long f = stimer_finish(&t);
        __CPROVER_assert(f == (unsigned long)(start + interval), "finish() is the deadline start+interval");
    } else if (op == 2) {
        stimer_swift(&t);
        __CPROVER_assert(t.start == start + interval && t.interval == interval && t.planed == planed, "swift re-arms at exactly previous deadline: start += interval");
        __CPROVER_assert(stimer_finish(&t) == (unsigned long)(start + 2 * interval), "next deadline == previous deadline + interval (no drift)");
    } else if (op == 3) {
        stimer_init(&t, start2, interval2);
        __CPROVER_assert(t.start == start2 && t.interval == interval2 && t.planed == 0, "init: fields set, not planned");
        __CPROVER_assert(!stimer_check(&t, now), "an initialised (unplanned) timer is not due");
    } else if (op == 4) {
        stimer_plan(&t, start2, interval2);
        __CPROVER_assert(t.start == start2 && t.interval == interval2 && t.planed == 1, "plan: fields set, planned");
        __CPROVER_assert(stimer_check(&t, now) == (now >= start2 + interval2), "planned timer is due exactly from its deadline on");
    } else {
        stimer_start(&t, start2);
        __CPROVER_assert(t.start == start2 && t.interval == interval && t.planed == 1, "start: new start, interval kept, planned");
    }
    CANARY("stimer end reachable");
}
