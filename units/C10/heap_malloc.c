/*@unit {
 'kind': 'bounded', 'mode': 'plain', 
 'bound': 'free list of <= 3 chunks at symbolic offsets with symbolic sizes in an arena of 128 bytes (thorough tier: also 256 bytes; 1 KiB does not finish: every access through a pointer loaded from the arena is a barrel shift over the whole arena), one arbitrary ghost live block, request size symbolic (all of size_t); inductive in history: the pre-state is ANY state satisfying HEAP within this bound; unwinding is complete for these list lengths (unwinding assertions)',
 'functions': ['malloc'],
 'extract': 'units/C10/heap_extract.py',
 'clauses': 'malloc(len) from any state satisfying HEAP: the block returned is 8-aligned, has >= len usable bytes (header sz >= len, >= 8), was carved out of a free chunk (whole, or its upper part leaving a free chunk that can hold a link) or out of new space at the break; it lies inside [heap_start, __brkval\') inside the arena, overlaps neither the ghost live block (arbitrary, hence no live block) nor any chunk remaining on the free list; HEAP is re-established and the real memory (__flp, every sz / nx field, __brkval) encodes exactly the derived state; the ghost live block keeps its header and every payload word; live bytes grow by exactly the new chunk (nothing lost); __allocation_counter counts the live blocks; exact fit, whole-chunk fit, split and break extension are each reachable (one canary per path), also from the never-used heap (__brkval == NULL)',
 'params': {'C10_ARENA': [128]}, 'params_thorough': {'C10_ARENA': [128, 256]},
 'unwindset': ['lin_malloc.0:4'], 'unwind': 6, 'complete_unwinding': 'the free-list walk of malloc sees at most 3 chunks (unwound 4 times, unwinding assertion); spec loops are bounded by C10_MAXN = 5',
 'kf': ['C10_malloc_never_fails', 'C10_malloc_round_wrap', 'C10_malloc_counter_limit'],
 'kf_probe_case': {'C10_malloc_never_fails': {'C10_ARENA': 128}, 'C10_malloc_round_wrap': {'C10_ARENA': 128}, 'C10_malloc_counter_limit': {'C10_ARENA': 128}},
 'canaries': 6, 'timeout': 900, 'weight': 2,
 'witness': {'unwind': 6},
} @*/
#include "vc.h"
#include "cxx/lin_heap.c"
#include "c10_heap.h"

void harness(void)
{
    /* offsets and sizes in words (H1: everything is 8-aligned) */
    WIT(uchar, nf); WIT_ARR(uchar, wfo, C10_NCHUNK); WIT_ARR(uchar, wfs, C10_NCHUNK); WIT(uchar, wbrk); WIT(uchar, fresh);
    WIT(uchar, hasL); WIT(uchar, wLo); WIT(uchar, wLs); WIT(uchar, bw); WIT(int, nlive); WIT(size_t, len);
    C10_HEAP_STATE(nf, wfo, wfs, wbrk, fresh, hasL, wLo, wLs, nlive);
    size_t live0 = c10_abs_live(&c10_pre);
    __CPROVER_assume(!c10_hasL || bw < c10_Ls);
    size_t old_w = c10_hasL ? C10_W(c10_Lo + 1 + bw) : 0;

    /* known findings (regions over the inputs) */
    int wrap = C10_ROUND_WRAPS(len);                          /* rounding up overflows size_t */
    size_t rl = c10_rounded(len);
    int nofit = !c10_fits_free(&c10_pre, rl) && (rl > C10_ARENA || 8 * c10_pre.brk + 8 + rl > C10_ARENA);
    __CPROVER_assume(KF_C10_malloc_round_wrap == 0 ? 1 : KF_C10_malloc_round_wrap == 1 ? !wrap : wrap);
    __CPROVER_assume(KF_C10_malloc_never_fails == 0 ? 1 : KF_C10_malloc_never_fails == 1 ? !nofit : nofit);
    __CPROVER_assume(KF_C10_malloc_counter_limit == 0 ? 1 : KF_C10_malloc_counter_limit == 1 ? nlive < 99 : (nlive >= 99 && !wrap && !nofit));

    char *r = lin_malloc(len);

    struct c10_abs post = c10_pre;
    if (r) {
        __CPROVER_assert(C10_IN_ARENA(r) && C10_OFF(r) >= 8 && C10_OFF(r) % 8 == 0 && C10_OFF(r) < C10_ARENA, "malloc: result is 8-aligned and inside the arena");
        size_t ro = C10_OFF(r) / 8 - 1;
        size_t rsb = C10_W(ro);
        __CPROVER_assert(rsb >= len && rsb >= sizeof(void *) && rsb % 8 == 0, "malloc: the block has at least len usable bytes (and can hold a free-list link later)");
        size_t rs = rsb / 8;
        int how = c10_abs_alloc(&post, ro, rs);
        __CPROVER_assert(how != 0, "malloc: the block is a whole free chunk, the upper part of one (leaving a free chunk), or new space at the break");
        __CPROVER_assert(c10_abs_block_ok(&post, ro, rs), "malloc: the block lies inside [heap_start, __brkval) and overlaps no chunk left on the free list");
        if (c10_hasL)
            __CPROVER_assert(ro + 1 + rs <= c10_Lo || c10_Lo + 1 + c10_Ls <= ro, "malloc: the block overlaps no live block");
        __CPROVER_assert(c10_abs_live(&post) == live0 + 1 + rs, "malloc: live bytes grow by exactly the new chunk (no memory lost)");
        __CPROVER_assert(__allocation_counter == nlive + 1, "malloc: __allocation_counter counts the live blocks");
        if (how == 3 && !fresh) CANARY("malloc path: break extended");
        if (how == 3 && fresh) CANARY("malloc path: first allocation of a never-used heap");
        if (how == 2) CANARY("malloc path: free chunk split");
        if (how == 1 && rsb == rl) CANARY("malloc path: exact fit");
        if (how == 1 && rsb > rl) CANARY("malloc path: whole chunk (remainder too small to split)");
    }
    __CPROVER_assert(c10_abs_ok(&post), "malloc: HEAP re-established (address-ordered, non-adjacent free chunks inside [heap_start, __brkval), break inside the arena)");
    __CPROVER_assert(c10_mem_is(&post), "malloc: __flp, the sz / nx fields of every free chunk and __brkval encode exactly that state");
    if (c10_hasL) {
        __CPROVER_assert(C10_W(c10_Lo) == 8 * c10_Ls && C10_W(c10_Lo + 1 + bw) == old_w, "malloc: header and contents of a live block untouched");
        __CPROVER_assert(c10_abs_block_ok(&post, c10_Lo, c10_Ls), "malloc: a live block stays inside the heap and off the free list");
    }
    CANARY("heap_malloc end reachable");
}
