/*@unit {
 'kind': 'bounded', 'mode': 'plain', 'solver': 'cadical',
 'bound': 'free list of <= 3 chunks at symbolic offsets with symbolic sizes in an arena of 1 KiB, one arbitrary ghost live block, request size symbolic (all of size_t); inductive in history: the pre-state is ANY state satisfying HEAP within this bound; unwind 6 is complete for these list lengths (unwinding assertions)',
 'functions': ['malloc'],
 'extract': 'units/C10/heap_extract.py',
 'clauses': 'malloc(len) from any state satisfying HEAP: the block returned is 8-aligned, has >= len usable bytes (header sz >= len), lies inside [heap_start, __brkval\') inside the arena, overlaps neither the ghost live block (arbitrary, hence no live block) nor any chunk remaining on the free list; HEAP is re-established (address order, no adjacent free chunks, sizes, alignment); the ghost live block keeps its header and every payload byte; live bytes grow by exactly the size of the new chunk (nothing is lost); __allocation_counter counts the live blocks; exact fit, whole-chunk fit, split and break extension are each reachable (one canary per path), also from the never-used heap (__brkval == NULL)',
 'unwind': 6, 'complete_unwinding': 'the two free-list walks of malloc see at most 3 chunks; spec loops are bounded by C10_NCHUNK+1',
 'kf': ['C10_malloc_never_fails', 'C10_malloc_round_wrap', 'C10_malloc_counter_limit'],
 'canaries': 5, 'timeout': 600, 'weight': 2,
 'witness': {'unwind': 6},
} @*/
#include "vc.h"
#include "cxx/lin_heap.c"
#include "c10_heap.h"

void harness(void)
{
    /* offsets and sizes in words (H1: everything is 8-aligned) */
    WIT(uchar, nf); WIT_ARR(uchar, wfo, C10_NCHUNK); WIT_ARR(uchar, wfs, C10_NCHUNK); WIT(uchar, wbrk); WIT(uchar, fresh);
    WIT(uchar, hasL); WIT(uchar, wLo); WIT(uchar, wLs); WIT(size_t, b); WIT(int, nlive); WIT(size_t, len);
    size_t fo[C10_NCHUNK], fs[C10_NCHUNK];
    for (int i = 0; i < C10_NCHUNK; i++) { fo[i] = 8 * (size_t)wfo[i]; fs[i] = 8 * (size_t)wfs[i]; }
    C10_HEAP_STATE(nf, fo, fs, 8 * (size_t)wbrk, fresh, hasL, 8 * (size_t)wLo, 8 * (size_t)wLs, nlive);
    __CPROVER_assume(!fresh || nlive == 0);
    size_t live0 = c10_live_bytes(c10_brk, c10_nf, c10_fs);
    __CPROVER_assume(!c10_hasL || b < c10_Ls);
    char old_b = c10_hasL ? c10_arena[c10_Lo + C10_HDR + b] : 0;

    /* known findings (regions over the inputs) */
    int wrap = len > (size_t)-1 - (__WORDSIZE - 1);                   /* rounding up overflows size_t */
    size_t rl = c10_rounded(len);
    int nofit = !wrap && !c10_fits_free(rl) && (rl > C10_ARENA || c10_brk + C10_HDR + rl > C10_ARENA);
    __CPROVER_assume(KF_C10_malloc_round_wrap == 0 ? 1 : KF_C10_malloc_round_wrap == 1 ? !wrap : wrap);
    __CPROVER_assume(KF_C10_malloc_never_fails == 0 ? 1 : KF_C10_malloc_never_fails == 1 ? !nofit : nofit);
    __CPROVER_assume(KF_C10_malloc_counter_limit == 0 ? 1 : KF_C10_malloc_counter_limit == 1 ? nlive < 99 : nlive >= 99);

    char *r = lin_malloc(len);

    size_t po[C10_NCHUNK + 2], ps[C10_NCHUNK + 2];
    int n = c10_heap_walk(po, ps);
    size_t brk1 = c10_brk_now();
    __CPROVER_assert(n >= 0 && brk1 != (size_t)-1 && c10_shape_ok((uint)n, po, ps, brk1),
                     "malloc: HEAP re-established (address-ordered, non-adjacent, aligned free chunks inside [heap_start, __brkval), break inside the arena)");
    if (r) {
        __CPROVER_assert(C10_IN_ARENA(r) && C10_OFF(r) >= C10_HDR && C10_AL8(C10_OFF(r)), "malloc: result is 8-aligned and inside the arena");
        size_t ro = C10_OFF(r) - C10_HDR;
        size_t rs = *(size_t *)(c10_arena + ro);
        __CPROVER_assert(rs >= len && rs >= sizeof(void *), "malloc: the block has at least len usable bytes (and can hold a free-list link later)");
        __CPROVER_assert(c10_block_ok(ro, rs, (uint)n, po, ps, brk1), "malloc: the block lies inside [heap_start, __brkval) and overlaps no chunk left on the free list");
        if (c10_hasL)
            __CPROVER_assert(ro + C10_HDR + rs <= c10_Lo || c10_Lo + C10_HDR + c10_Ls <= ro, "malloc: the block overlaps no live block");
        __CPROVER_assert(c10_live_bytes(brk1, (uint)n, ps) == live0 + C10_HDR + rs, "malloc: live bytes grow by exactly the new chunk (no memory lost)");
        __CPROVER_assert(__allocation_counter == nlive + 1, "malloc: __allocation_counter counts the live blocks");
        if (brk1 > c10_brk) CANARY("malloc path: break extended");
        if (brk1 == c10_brk && n == (int)c10_nf) CANARY("malloc path: free chunk split");
        if (brk1 == c10_brk && n + 1 == (int)c10_nf && c10_fits_free(rl) && rs == rl) CANARY("malloc path: exact fit");
        if (brk1 == c10_brk && n + 1 == (int)c10_nf && rs > rl) CANARY("malloc path: whole chunk (remainder too small to split)");
    }
    if (c10_hasL) {
        __CPROVER_assert(*(size_t *)(c10_arena + c10_Lo) == c10_Ls && c10_arena[c10_Lo + C10_HDR + b] == old_b,
                         "malloc: header and contents of a live block untouched");
        __CPROVER_assert(c10_block_ok(c10_Lo, c10_Ls, (uint)n, po, ps, brk1), "malloc: a live block stays inside the heap and off the free list");
    }
    CANARY("heap_malloc end reachable");
}
