/*@unit {
 'kind': 'bounded', 'mode': 'plain',
 'bound': 'whole histories on a pool of CAP cells (CAP 1..4 with element size 8 and 16, thorough tier CAP 1..6 with element size 8 and 24): pool_init, pool_engage, CAP+1 allocations, frees in an arbitrary (symbolic) order of an arbitrary subset, allocations again until NULL; unwind 26 is complete (unwinding assertions)',
 'functions': ['pool_init', 'pool_engage', 'pool_alloc', 'pool_free', 'pool_avail'],
 'extract': 'units/C10/pool_extract.py',
 'clauses': 'a freshly engaged pool hands out exactly its capacity of pairwise distinct in-zone cells and then answers NULL; a fill pattern written over each whole live cell is intact until that cell is freed, whatever happens to the other cells; after freeing any subset in any order exactly that many allocations succeed again (freed blocks become allocatable again) and return exactly the freed cells; pool_avail == capacity - live at every step',
 'params': {'ELEMSZ': [8, 16], 'CAP': [1, 2, 3, 4]}, 'params_thorough': {'ELEMSZ': [8, 24], 'CAP': [1, 2, 3, 4, 5, 6]},
 'unwind': 26, 'complete_unwinding': 'loops run over CAP <= 6 cells (+1) or over the ELEMSZ <= 24 bytes of a cell',
 'witness': {'unwind': 26},
} @*/
#include "vc.h"
#include "cxx/pool_c.c"
#include "c10_pool.h"
#include <string.h>

static void fill(char *p, char v) { for (size_t j = 0; j < ELEMSZ; j++) p[j] = v; }
static int intact(const char *p, char v) { int ok = 1; for (size_t j = 0; j < ELEMSZ; j++) if (p[j] != v) ok = 0; return ok; }

void harness(void)
{
    struct pool_head pool;
    WIT_ARR(uchar, forder, C10_CAPMAX); WIT(uchar, nf);
    WIT_ARR(char, content, 6);
    c10_zone = NEW_OBJ(c10_cap * c10_elemsz);
    FILL(c10_zone, 0, content);
    char *blk[CAP + 1];
    int live[CAP];      /* by cell index: 1 = handed out */
    for (int i = 0; i < CAP; i++) live[i] = 0;

    pool_init(&pool);
    pool_engage(&pool, c10_zone, c10_cap * c10_elemsz, c10_elemsz);
    __CPROVER_assert(pool_avail(&pool) == CAP, "engaged pool: avail == capacity");
    for (int i = 0; i < CAP; i++) {
        blk[i] = pool_alloc(&pool);
        __CPROVER_assert(blk[i] != NULL && c10_is_cell(blk[i]), "allocation i < capacity succeeds with a cell of the zone");
        size_t ci = c10_cell_index(blk[i]);
        __CPROVER_assert(!live[ci], "the cell handed out is not a live block");
        live[ci] = 1;
        fill(blk[i], (char)(i + 1));
        __CPROVER_assert(pool_avail(&pool) == (size_t)(CAP - 1 - i), "avail == capacity - live");
    }
    __CPROVER_assert(pool_alloc(&pool) == NULL, "allocation number capacity+1 answers NULL");
    for (int i = 0; i < CAP; i++)
        __CPROVER_assert(intact(blk[i], (char)(i + 1)), "fill pattern of every live block intact after all allocations");

    /* free an arbitrary subset in an arbitrary order */
    __CPROVER_assume(nf <= CAP);
    for (int j = 0; j < CAP; j++) {
        __CPROVER_assume(j >= nf || forder[j] < CAP);
        for (int k = 0; k < j; k++) __CPROVER_assume(j >= nf || forder[k] != forder[j]);
    }
    for (int j = 0; j < CAP; j++)
        if (j < nf) {
            char *p = blk[forder[j]];
            __CPROVER_assert(intact(p, (char)(forder[j] + 1)), "fill pattern intact right before the block is freed");
            live[c10_cell_index(p)] = 0;
            pool_free(&pool, p);
            blk[forder[j]] = NULL;
            __CPROVER_assert(pool_avail(&pool) == (size_t)(j + 1), "avail == capacity - live after each free");
        }
    for (int i = 0; i < CAP; i++)
        if (blk[i]) __CPROVER_assert(intact(blk[i], (char)(i + 1)), "blocks still live are untouched by the frees");
    /* exactly nf allocations succeed again, with exactly the freed cells */
    for (int j = 0; j < CAP + 1; j++) {
        char *p = pool_alloc(&pool);
        __CPROVER_assert((p != NULL) == (j < nf), "exactly as many allocations succeed as blocks were freed");
        if (p) {
            __CPROVER_assert(c10_is_cell(p) && !live[c10_cell_index(p)], "re-allocated cell is inside the zone and not live");
            live[c10_cell_index(p)] = 1;
            fill(p, (char)0x55);
        }
    }
    for (int i = 0; i < CAP; i++)
        if (blk[i]) __CPROVER_assert(intact(blk[i], (char)(i + 1)), "blocks live throughout are untouched at the end");
    CANARY("pool_seq end reachable");
}
