# cxx2c recipe for igris/datastruct/pool.h (C with three C++-isms: <cassert>, nullptr, tag-less
# `(slist_head *)` casts) and the igris::pool wrapper of igris/container/pool.h.  A python literal; see
# vclib/cxx2c.py.  pool.h cannot be #included by goto-cc (no <cassert> on the C include path), so its six
# functions are cut out of the real file on every run: rule `nullptr` (R7) must fire in pool_alloc, the
# tag-less casts are made legal C by the `typedefs` line (typedef struct slist_head slist_head;), the
# rest is verbatim.  slist.h itself is plain C and is #included unmodified.
[{
 'out': 'cxx/pool_c.c',
 'typedefs': ['slist_head'],
 'pieces': [
  {'op': 'glue', 'text': '#include <assert.h>\n#include <stddef.h>\n#include <stdint.h>\n#include <stdbool.h>\n#include "c01_dprint_stub.h"\n'
                         '#include <igris/datastruct/slist.h>\n'},
  {'op': 'struct', 'file': 'igris/datastruct/pool.h', 'name': 'pool_head', 'ctor': None},
  {'op': 'func', 'file': 'igris/datastruct/pool.h', 'name': 'pool_init'},
  {'op': 'func', 'file': 'igris/datastruct/pool.h', 'name': 'pool_engage'},
  {'op': 'func', 'file': 'igris/datastruct/pool.h', 'name': 'pool_alloc', 'rewrite': [[r'\bNULL\b', 'NULL', 1]]},
  {'op': 'func', 'file': 'igris/datastruct/pool.h', 'name': 'pool_free'},
  {'op': 'func', 'file': 'igris/datastruct/pool.h', 'name': 'pool_avail'},
  {'op': 'func', 'file': 'igris/datastruct/pool.h', 'name': 'pool_in_freelist'},
  # igris::pool (igris/container/pool.h): data members + the member functions that are "C with this"
  {'op': 'struct', 'file': 'igris/container/pool.h', 'name': 'pool', 'as': 'igris_pool', 'ctor': None},
  {'op': 'func', 'file': 'igris/container/pool.h', 'name': 'size', 'in_class': 'pool', 'self': 'igris_pool', 'as': 'igris_pool_size'},
  {'op': 'func', 'file': 'igris/container/pool.h', 'name': 'room', 'in_class': 'pool', 'self': 'igris_pool', 'as': 'igris_pool_room'},
  {'op': 'func', 'file': 'igris/container/pool.h', 'name': 'cell_is_allocated', 'in_class': 'pool', 'self': 'igris_pool', 'as': 'igris_pool_cell_is_allocated',
   'methods': {'size': 'igris_pool_size'}},
  {'op': 'func', 'file': 'igris/container/pool.h', 'name': 'cell', 'in_class': 'pool', 'self': 'igris_pool', 'as': 'igris_pool_cell'},
  {'op': 'func', 'file': 'igris/container/pool.h', 'name': 'init', 'in_class': 'pool', 'self': 'igris_pool', 'as': 'igris_pool_init',
   'rewrite': [[r'self->size\(\)', 'igris_pool_size(self)', 1]]},
  {'op': 'func', 'file': 'igris/container/pool.h', 'name': 'get', 'in_class': 'pool', 'self': 'igris_pool', 'as': 'igris_pool_get'},
  {'op': 'func', 'file': 'igris/container/pool.h', 'name': 'put', 'in_class': 'pool', 'self': 'igris_pool', 'as': 'igris_pool_put'},
  {'op': 'func', 'file': 'igris/container/pool.h', 'name': 'avail', 'in_class': 'pool', 'self': 'igris_pool', 'as': 'igris_pool_avail'},
 ],
},
# cxx2c recipe for igris::static_object_pool<T, Capacity> (igris/container/static_object_pool.h), second entry of this file:
# generated into cxx/sop_c.c, to be #included after cxx/pool_c.c by the units that need it.
#   * instantiated at T = C10_T = struct { long payload; ELEM e; } (R4): an element type with a non-trivial lifetime
#     (spec/elem_lifetime.h) whose ghost lifetime byte lies behind the first word, i.e. is not overwritten by the
#     free-list link the pool threads through a free cell; Capacity = SOP_CAP (unit parameter);
#   * GLUE (not extracted: constexpr static member functions, std::array, alignas are outside the rule set): the data
#     layout  struct storage_type { alignas(max(alignof(T), alignof(slist_head))) char data[max(sizeof(T), sizeof(slist_head))]; }
#     and  struct static_object_pool { pool_head head; storage_type storage[Capacity]; }  are written out in C, together with
#     the two static_asserts of the class;
#   * R5: `new (ptr) T(std::forward<Args>(args)...)` -> C10_T_construct((C10_T *)ptr, args) (one-element pack), `obj->~T()` ->
#     C10_T_destroy(obj); R3b: the mem-initialiser `storage()` (value-initialisation) -> memset 0; `storage.data()` -> the array.
{
 'out': 'cxx/sop_c.c',
 'pieces': [
  # anchors: the hand-written layout glue below stands for exactly these declarations; when one of them changes the extraction stops (exit 2)
  {'op': 'glue', 'text': '/* layout declarations of igris/container/static_object_pool.h that the C glue below transcribes (anchors):'},
  {'op': 'lines', 'file': 'igris/container/static_object_pool.h', 'regex': r'^\s*constexpr static size_t elsize\(\) \{ return std::max\(sizeof\(T\), sizeof\(slist_head\)\); \}\s*$', 'min': 1},
  {'op': 'lines', 'file': 'igris/container/static_object_pool.h', 'regex': r'^\s*constexpr static size_t elalign\(\) \{ return std::max\(alignof\(T\), alignof\(slist_head\)\); \}\s*$', 'min': 1},
  {'op': 'lines', 'file': 'igris/container/static_object_pool.h', 'regex': r'^\s*std::array<char, elsize\(\)> data alignas\(elalign\(\)\);\s*$', 'min': 1},
  {'op': 'lines', 'file': 'igris/container/static_object_pool.h', 'regex': r'^\s*struct pool_head head = POOL_HEAD_INIT\(head\);\s*$', 'min': 1},
  {'op': 'lines', 'file': 'igris/container/static_object_pool.h', 'regex': r'^\s*std::array<storage_type, Capacity> storage;\s*$', 'min': 1},
  {'op': 'glue', 'text': '*/'},
  {'op': 'glue', 'text': '#include <string.h>\n#include "elem_lifetime.h"\n'
                         'typedef struct C10_T { long payload; ELEM e; } C10_T;\n'
                         'static inline void C10_T_construct(C10_T *p, int v) { p->payload = v; ELEM_construct_value(&p->e, v); }\n'
                         '// ~T(): ends the lifetime; a destructor may scrub its members, the bytes of a destroyed object are indeterminate ([basic.life])\n'
                         'static inline void C10_T_destroy(C10_T *p) { ELEM_destroy(&p->e); p->payload = nondet_long(); }\n'
                         '#define SOP_MAX(a, b) ((a) > (b) ? (a) : (b))\n'
                         'struct sop_storage_type { _Alignas(SOP_MAX(_Alignof(C10_T), _Alignof(struct slist_head))) char data[SOP_MAX(sizeof(C10_T), sizeof(struct slist_head))]; };\n'
                         '_Static_assert(sizeof(struct sop_storage_type) >= sizeof(C10_T), "Invalid storage_type size");\n'
                         '_Static_assert(sizeof(struct sop_storage_type) >= sizeof(struct slist_head), "Invalid storage_type size");\n'
                         'struct static_object_pool { struct pool_head head; struct sop_storage_type storage[SOP_CAP]; };\n'},
  {'op': 'func', 'file': 'igris/container/static_object_pool.h', 'name': 'static_object_pool', 'in_class': 'static_object_pool', 'self': 'static_object_pool',
   'members': ['head', 'storage'], 'as': 'static_object_pool_ctor',
   'tparams': {'Capacity': 'SOP_CAP', 'storage_type': 'struct sop_storage_type', 'T': 'C10_T'},
   'rewrite': [[r'memset\(&self->storage, 0, sizeof\(self->storage\)\);', 'memset(&self->storage, 0, sizeof(self->storage));', 1],
               [r'self->storage\.data\(\)', '(void *)self->storage', 1]]},
  {'op': 'func', 'file': 'igris/container/static_object_pool.h', 'name': 'create', 'in_class': 'static_object_pool', 'self': 'static_object_pool',
   'members': ['head', 'storage'], 'as': 'static_object_pool_create',
   'tparams': {'Capacity': 'SOP_CAP', 'storage_type': 'struct sop_storage_type', 'T': 'C10_T'},
   'sig_rewrite': [[r'Args\s*&&\s*\.\.\.\s*args', 'int args', 1]],
   'rewrite': [[r'new \(ptr\) C10_T\(std::forward<Args>\(args\)\.\.\.\)', '(C10_T_construct((C10_T *)ptr, args), (C10_T *)ptr)', 1]]},
  {'op': 'func', 'file': 'igris/container/static_object_pool.h', 'name': 'destroy', 'in_class': 'static_object_pool', 'self': 'static_object_pool',
   'members': ['head', 'storage'], 'as': 'static_object_pool_destroy',
   'tparams': {'Capacity': 'SOP_CAP', 'storage_type': 'struct sop_storage_type', 'T': 'C10_T'},
   'rewrite': [[r'obj->~C10_T\(\);', 'C10_T_destroy(obj);', 1]]},
  {'op': 'func', 'file': 'igris/container/static_object_pool.h', 'name': 'avail', 'in_class': 'static_object_pool', 'self': 'static_object_pool',
   'members': ['head', 'storage'], 'as': 'static_object_pool_avail'},
 ],
}]
