# cxx2c recipe for igris/datastruct/pool.h (C with three C++-isms: <cassert>, nullptr, tag-less
# `(slist_head *)` casts) and the igris::pool wrapper of igris/container/pool.h.  A python literal; see
# vclib/cxx2c.py.  pool.h cannot be #included by goto-cc (no <cassert> on the C include path), so its six
# functions are cut out of the real file on every run: rule `nullptr` (R7) must fire in pool_alloc, the
# tag-less casts are made legal C by the `typedefs` line (typedef struct slist_head slist_head;), the
# rest is verbatim.  slist.h itself is plain C and is #included unmodified.
[{
 'out': 'cxx/pool_c.c',
 'typedefs': ['slist_head'],
 'pieces': [
  {'op': 'glue', 'text': '#include <assert.h>\n#include <stddef.h>\n#include <stdint.h>\n#include <stdbool.h>\n#include "c01_dprint_stub.h"\n'
                         '#include <igris/datastruct/slist.h>\n'},
  {'op': 'struct', 'file': 'igris/datastruct/pool.h', 'name': 'pool_head', 'ctor': None},
  {'op': 'func', 'file': 'igris/datastruct/pool.h', 'name': 'pool_init'},
  {'op': 'func', 'file': 'igris/datastruct/pool.h', 'name': 'pool_engage'},
  {'op': 'func', 'file': 'igris/datastruct/pool.h', 'name': 'pool_alloc', 'rewrite': [[r'\bNULL\b', 'NULL', 1]]},
  {'op': 'func', 'file': 'igris/datastruct/pool.h', 'name': 'pool_free'},
  {'op': 'func', 'file': 'igris/datastruct/pool.h', 'name': 'pool_avail'},
  {'op': 'func', 'file': 'igris/datastruct/pool.h', 'name': 'pool_in_freelist'},
  # igris::pool (igris/container/pool.h): data members + the member functions that are "C with this"
  {'op': 'struct', 'file': 'igris/container/pool.h', 'name': 'pool', 'as': 'igris_pool', 'ctor': None},
  {'op': 'func', 'file': 'igris/container/pool.h', 'name': 'size', 'in_class': 'pool', 'self': 'igris_pool', 'as': 'igris_pool_size'},
  {'op': 'func', 'file': 'igris/container/pool.h', 'name': 'room', 'in_class': 'pool', 'self': 'igris_pool', 'as': 'igris_pool_room'},
  {'op': 'func', 'file': 'igris/container/pool.h', 'name': 'cell_is_allocated', 'in_class': 'pool', 'self': 'igris_pool', 'as': 'igris_pool_cell_is_allocated',
   'methods': {'size': 'igris_pool_size'}},
  {'op': 'func', 'file': 'igris/container/pool.h', 'name': 'cell', 'in_class': 'pool', 'self': 'igris_pool', 'as': 'igris_pool_cell'},
  {'op': 'func', 'file': 'igris/container/pool.h', 'name': 'init', 'in_class': 'pool', 'self': 'igris_pool', 'as': 'igris_pool_init',
   'rewrite': [[r'self->size\(\)', 'igris_pool_size(self)', 1]]},
  {'op': 'func', 'file': 'igris/container/pool.h', 'name': 'get', 'in_class': 'pool', 'self': 'igris_pool', 'as': 'igris_pool_get'},
  {'op': 'func', 'file': 'igris/container/pool.h', 'name': 'put', 'in_class': 'pool', 'self': 'igris_pool', 'as': 'igris_pool_put'},
  {'op': 'func', 'file': 'igris/container/pool.h', 'name': 'avail', 'in_class': 'pool', 'self': 'igris_pool', 'as': 'igris_pool_avail'},
 ],
}]
