// Reproducer for C10_realloc_shrink_counter: realloc's shrink path releases the tail with free(), which decrements
// __allocation_counter although no allocation ended; the next free() of a real block trips assert(__allocation_counter >= 0).
// build: g++ -std=c++17 -g -I/repo units/C10/reproducers/C10_realloc_shrink_counter.cpp -o /var/tmp/r && /var/tmp/r
// SIGABRT (assertion failed) = defect present
#include "lin_heap_native.h"
int main()
{
    char *p = (char *)lin_malloc(256);
    printf("after malloc: __allocation_counter = %d\n", __allocation_counter);
    p = (char *)lin_realloc(p, 64);
    printf("after realloc(p, 64): __allocation_counter = %d (one block is live)\n", __allocation_counter);
    fflush(stdout);
    lin_free(p);
    printf("free(p) returned, __allocation_counter = %d\n", __allocation_counter);
    return 0;
}
