// Reproducer for C10_pool_elemsz_unchecked: igris::pool::init passes any element size to pool_engage.  With
// elsize = 4 (< sizeof(void*)) the 8-byte free-list link of the last cell is written 4 bytes past the end of
// the zone (here: over the variable that follows it); with elsize = 12 every second link is stored misaligned.
// build: g++ -std=c++17 -g -fsanitize=undefined -I/repo units/C10/reproducers/C10_pool_elemsz_unchecked.cpp -o /var/tmp/r && /var/tmp/r
// exit 1 (+ UBSan "misaligned address" lines) = defect present
#include <cstdlib>
#include <cstdio>
#include <cstdint>
#include <igris/container/pool.h>
struct area { alignas(8) char zone[16]; uint32_t after; };
int main()
{
    alignas(8) static char zone12[48];
    igris::pool p12(zone12, 48, 12);           // 4 cells of 12 bytes: cells 1 and 3 are not pointer-aligned
    printf("pool of 12-byte cells: %zu cells\n", p12.size());
    static area a;
    a.after = 0xC0FFEEu;
    igris::pool p4(a.zone, sizeof a.zone, 4);  // 4 cells of 4 bytes: each link is 8 bytes
    printf("pool of 4-byte cells over a 16-byte zone: %zu cells; word after the zone: %#x (was 0xc0ffee)\n", p4.size(), a.after);
    return a.after != 0xC0FFEEu;
}
