// Native build of the REAL compat/mem/lin_malloc.cpp + lin_realloc.cpp for the C10 reproducers.
// malloc/free/realloc are renamed lin_malloc/lin_free/lin_realloc by macros defined AFTER the standard
// headers have been read (so the host allocator stays in place and ASan keeps working); the linker symbol
// _heap_start is the first byte of an ARENA-byte arena followed by a large guard area (the allocator knows
// no heap end: whatever it writes past the arena lands in the guard); the lock and the interrupt-context
// query are stubbed (single-threaded).
#include <cassert>
#include <cstddef>
#include <cstdint>
#include <cstdio>
#include <cstdlib>
#include <cstring>
#include <memory>
#include <mutex>
#include <stdlib.h>
#include <string.h>
#include <igris/sync/critical_context.h>
#include <igris/sync/syslock.h>
extern "C" {
void system_lock(void) {}
void system_unlock(void) {}
int critical_context_level(void) { return 0; }
}
#ifndef ARENA
#define ARENA 1024
#endif
char heap_area[ARENA + 65536] asm("_heap_start") __attribute__((aligned(16)));
#define malloc lin_malloc
#define free lin_free
#define realloc lin_realloc
#include "/repo/compat/mem/lin_malloc.cpp"
#include "/repo/compat/mem/lin_realloc.cpp"
#undef malloc
#undef free
#undef realloc
