// Reproducer for C10_pool_get_empty_count: igris::pool::get() decrements _count even when pool_alloc answered NULL.
// build: g++ -std=c++17 -g -I/repo units/C10/reproducers/C10_pool_get_empty_count.cpp -o /var/tmp/r && /var/tmp/r
// exit 1 = defect present
#include <cstdlib>
#include <cstdio>
#include <cstdint>
#include <igris/container/pool.h>
int main()
{
    alignas(8) static char zone[2 * 16];
    igris::pool p(zone, sizeof zone, 16);
    void *a = p.get(), *b = p.get(), *c = p.get();       // third get on an exhausted pool
    printf("a=%p b=%p c=%p  room()=%zu avail()=%zu (capacity 2, 2 live)\n", a, b, c, p.room(), p.avail());
    p.put(a); p.put(b);
    printf("after returning both blocks: room()=%zu avail()=%zu size()=%zu\n", p.room(), p.avail(), p.size());
    return p.room() != p.avail();
}
