// Reproducer for C10_realloc_zero_size: realloc(p, 0) shrinks the chunk to sz == 0 (no minimum size as in malloc);
// free(p) then writes the free-list link over the header of the next chunk.
// build: g++ -std=c++17 -g -I/repo units/C10/reproducers/C10_realloc_zero_size.cpp -o /var/tmp/r && /var/tmp/r
// exit 1 = defect present
#include "lin_heap_native.h"
int main()
{
    setvbuf(stdout, NULL, _IONBF, 0);
    char *p = (char *)lin_malloc(64);
    char *guard = (char *)lin_malloc(64);      // keeps p from being the topmost chunk
    memset(guard, 0x5a, 64);
    char *r = (char *)lin_realloc(p, 0);
    printf("realloc(p, 0) = %p (p = %p), header sz of the block = %zu\n", (void *)r, (void *)p, ((size_t *)r)[-1]);
    // the tail [p, p+64) is now a free chunk whose header is at p: the word the caller's pointer points at
    printf("free chunk header at p: sz = %zu; __flp = %p\n", ((size_t *)p)[0], (void *)__flp);
    lin_free(r);                                // writes fpnew->nx = 0 over that header
    printf("after free(r): free-list head %p has sz = %zu inside a %d-byte heap (the next malloc that splits it returns a wild pointer)\n",
           (void *)__flp, __flp ? __flp->sz : 0, ARENA);
    return ((size_t *)r)[-1] == 0 || (__flp && __flp->sz > ARENA);
}
