// Reproducer for C10_malloc_round_wrap: len += __WORDSIZE - len % __WORDSIZE wraps to 0 for len > SIZE_MAX - 63;
// malloc then returns a minimum-size block (8 usable bytes) for a request of nearly SIZE_MAX bytes.
// build: g++ -std=c++17 -g -I/repo units/C10/reproducers/C10_malloc_round_wrap.cpp -o /var/tmp/r && /var/tmp/r
// exit 1 = defect present
#include "lin_heap_native.h"
int main()
{
    size_t want = SIZE_MAX - 5;
    char *p = (char *)lin_malloc(want);
    size_t got = p ? ((size_t *)p)[-1] : 0;
    printf("malloc(%zu) = %p, usable bytes (header sz) = %zu\n", want, (void *)p, got);
    char *q = (char *)lin_malloc(200);
    char *q2 = (char *)lin_realloc(q, want);
    printf("realloc(q /*200 bytes*/, %zu) = %p (q=%p), usable bytes now %zu\n", want, (void *)q2, (void *)q, q2 ? ((size_t *)q2)[-1] : 0);
    return p != nullptr && got < want;
}
