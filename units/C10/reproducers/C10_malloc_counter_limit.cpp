// Reproducer for C10_malloc_counter_limit: assert(__allocation_counter < 100) aborts the 100th live allocation.
// build: g++ -std=c++17 -g -I/repo -DARENA=65536 units/C10/reproducers/C10_malloc_counter_limit.cpp -o /var/tmp/r && /var/tmp/r
// SIGABRT (assertion failed) after 99 allocations = defect present
#include "lin_heap_native.h"
int main()
{
    for (int i = 1; i <= 100; i++) {
        printf("allocation %d ...\n", i);
        fflush(stdout);
        if (!lin_malloc(16)) return 2;
    }
    printf("100 live allocations served\n");
    return 0;
}
