// Reproducer for C10_malloc_never_fails: the exhaustion test of malloc step 3 is commented out and there is no
// heap-end symbol, so a request that fits no free chunk moves __brkval past the end of the arena.
// build: g++ -std=c++17 -g -I/repo units/C10/reproducers/C10_malloc_never_fails.cpp -o /var/tmp/r && /var/tmp/r
// exit 1 = defect present
#include "lin_heap_native.h"
int main()
{
    void *a = lin_malloc(1);
    void *b = lin_malloc(2000); // arena is 1024 bytes
    printf("arena [%p, %p): a=%p b=%p, block b ends at %p, __brkval=%p (%ld bytes past the arena end)\n", (void *)heap_area,
           (void *)(heap_area + ARENA), a, b, (void *)((char *)b + 2000), (void *)__brkval, (long)(__brkval - (heap_area + ARENA)));
    char *c = (char *)lin_realloc(a, 3000); // a is not the top chunk: moved with malloc; b's successor is far outside
    printf("realloc(a, 3000) = %p, ends %ld bytes past the arena end\n", (void *)c, (long)(c + 3000 - (heap_area + ARENA)));
    return b != nullptr && (char *)b + 2000 > heap_area + ARENA;
}
