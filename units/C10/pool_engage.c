/*@unit {
 'kind': 'proof', 'mode': 'legacy', 'solver': 'cadical',
 'functions': ['pool_engage', 'slist_add'],
 'extract': 'units/C10/pool_extract.py',
 'clauses': 'pool_engage(pool, zone, n*elemsz, elemsz) for EVERY cell count n (loop contract, no bound): every cell zone+k*elemsz is pushed exactly once - afterwards cell k links to cell k-1, cell 0 links to the previous first element (the head itself for a pool_init\'ed pool) and the head links to cell n-1, i.e. the free list is the simple path n-1, ..., 1, 0 of distinct aligned cells inside the zone; every write stays inside [zone, zone+size) (exact-size object) and only link fields are written (ghost byte index); the code\'s own assert(size % elemsz == 0) holds; terminates (decreases clause)',
 'params': {'ELEMSZ': [8, 16, 24]}, 'params_thorough': {'ELEMSZ': [8, 16, 24, 40]},
 'inject': [{'file': 'overlay:cxx/pool_c.c', 'func': 'pool_engage', 'loop': 0, 'expect': 'it < stop',
             'assigns': 'it, pool->free_blocks.next, __CPROVER_object_whole(zone)',
             'invariants': ['__CPROVER_same_object(it, zone) && (size_t)__CPROVER_POINTER_OFFSET(it) <= size && (size_t)__CPROVER_POINTER_OFFSET(it) % ELEMSZ == 0',
                            'pool->free_blocks.next == ((size_t)__CPROVER_POINTER_OFFSET(it) == 0 ? g_old_first : (struct slist_head *)((char *)zone + ((size_t)__CPROVER_POINTER_OFFSET(it) - ELEMSZ)))',
                            '(g_k < size / ELEMSZ && g_k * ELEMSZ < (size_t)__CPROVER_POINTER_OFFSET(it)) ==> ((struct slist_head *)((char *)zone + g_k * ELEMSZ))->next == (g_k == 0 ? g_old_first : (struct slist_head *)((char *)zone + (g_k - 1) * ELEMSZ))',
                            '(g_b < size && g_b % ELEMSZ >= sizeof(struct slist_head)) ==> ((char *)zone)[g_b] == g_old_b'],
             'decreases': 'size - (size_t)__CPROVER_POINTER_OFFSET(it)'}],
 'assumptions': ['pool_engage: size is a multiple of elemsz (the code asserts it), elemsz >= sizeof(struct slist_head) and the zone is a valid object of size bytes - preconditions the C++ wrappers have to establish (static_object_pool does; igris::pool::init does not: finding C10_pool_elemsz_unchecked, unit igris_pool_init)'],
 'witness': {'unwind': 8},
} @*/
#include "vc.h"
struct slist_head;
static struct slist_head *g_old_first;
static size_t g_k, g_b;
static char g_old_b;
#include "cxx/pool_c.c"

void harness(void)
{
    struct pool_head pool;
    struct slist_head prior;
    WIT(size_t, n); WIT(size_t, k); WIT(size_t, b); WIT(int, nonempty);
    WIT_ARR(char, content, 6);
    __CPROVER_assume(n <= VC_MAXOBJ / ELEMSZ);
    size_t size = n * ELEMSZ;
    char *zone = NEW_OBJ(size);
    FILL(zone, 0, content);
    pool_init(&pool);
    if (nonempty) { prior.next = &pool.free_blocks; pool.free_blocks.next = &prior; }   /* a pool that already holds a block */
    g_old_first = pool.free_blocks.next;
    g_k = k; g_b = b;
    g_old_b = b < size ? zone[b] : 0;

    pool_engage(&pool, zone, size, ELEMSZ);

    __CPROVER_assert(pool.free_blocks.next == (n == 0 ? g_old_first : (struct slist_head *)(zone + (n - 1) * ELEMSZ)),
                     "pool_engage: the head links to the last cell of the zone (or is unchanged for an empty zone)");
    if (k < n)
        __CPROVER_assert(((struct slist_head *)(zone + k * ELEMSZ))->next == (k == 0 ? g_old_first : (struct slist_head *)(zone + (k - 1) * ELEMSZ)),
                         "pool_engage: cell k links to cell k-1, cell 0 to the previous first element: every cell is on the list exactly once");
    if (b < size && b % ELEMSZ >= sizeof(struct slist_head))
        __CPROVER_assert(zone[b] == g_old_b, "pool_engage: only link fields are written");
    if (nonempty) __CPROVER_assert(prior.next == &pool.free_blocks, "pool_engage: blocks already in the pool stay linked");
    CANARY("pool_engage end reachable");
}
