// Compile-time probe of igris::static_object_pool's cell layout on the REAL header (bounded stand-in: four sample element types).
// C10: "every block ... is aligned for its use and overlaps no other live block": a cell must be large enough and aligned for a T
// AND for the free-list link the pool threads through a free cell, and cells must tile the storage array (size multiple of alignment).
// Run by the driver for unit sop_ctor:  g++ -std=gnu++17 -fsyntax-only -I<repo> units/C10/sop_layout_probe.cpp
#include <algorithm>
#include <cstddef>
#include <igris/container/static_object_pool.h>

struct alignas(16) A16 { float v[4]; };
struct alignas(32) A32 { double v[4]; };
struct Small { char c; };
struct Big { char c[41]; };

template <class T> struct probe
{
    using pool = igris::static_object_pool<T, 3>;
    using cell = typename pool::storage_type;
    static_assert(sizeof(cell) >= sizeof(T), "cell holds a T");
    static_assert(sizeof(cell) >= sizeof(slist_head), "cell holds the free-list link");
    static_assert(alignof(cell) >= alignof(T), "cell is aligned for a T");
    static_assert(alignof(cell) >= alignof(slist_head), "cell is aligned for the free-list link");
    static_assert(sizeof(cell) % alignof(cell) == 0, "cells tile the storage array");
    static_assert(alignof(pool) >= alignof(cell), "the pool object is aligned for its cells");
    static constexpr bool ok = true;
};
static_assert(probe<A16>::ok && probe<A32>::ok && probe<Small>::ok && probe<Big>::ok && probe<long double>::ok, "probes instantiated");
