/*@unit {
 'kind': 'bounded', 'mode': 'plain',
 'bound': 'free list of <= 3 chunks at symbolic offsets with symbolic sizes (one run per number of free chunks 0..3) in an arena of 128 bytes (thorough tier: also 256 bytes), the block being freed and one further arbitrary ghost live block at symbolic positions; inductive in history: the pre-state is ANY state satisfying HEAP within this bound; unwinding is complete for these list lengths (unwinding assertions)',
 'functions': ['free'],
 'extract': 'units/C10/heap_extract.py',
 'clauses': 'free(p) of a live block from any state satisfying HEAP: HEAP is re-established with p\'s bytes free and coalesced with a free lower and/or upper neighbour (the coalesced representation is unique: the real memory - __flp, every sz / nx field, __brkval - encodes exactly it), the break is lowered when the topmost chunk becomes free; every other live block (arbitrary ghost block) keeps its header and contents and stays off the free list; live bytes shrink by exactly p\'s chunk; __allocation_counter counts the live blocks; when the last live block is freed __flp == NULL and __brkval == heap_start (no memory lost); free(NULL) changes nothing. Each of: no neighbour free, lower, upper, both, break lowered, heap emptied is reachable (canaries)',
 'params': {'C10_ARENA': [128], 'NF': [0, 1, 2, 3]}, 'params_thorough': {'C10_ARENA': [128, 256]},
 'unwindset': ['lin_free.0:4', 'lin_free.1:4'], 'unwind': 6, 'complete_unwinding': 'the walks of free see at most 4 chunks (unwound 4 times, unwinding assertions); spec loops are bounded by C10_MAXN = 5',
 'canaries': 2, 'timeout': 1800,
 'assumptions': ['free(p): p is NULL or a live block handed out by malloc/realloc and not freed since (ISO C precondition)'],
 'witness': {'unwind': 6},
} @*/
#include "vc.h"
#include "cxx/lin_heap.c"
#include "c10_heap.h"

void harness(void)
{
    WIT(uchar, nf); WIT_ARR(uchar, wfo, C10_NCHUNK); WIT_ARR(uchar, wfs, C10_NCHUNK); WIT(uchar, wbrk);
    WIT(uchar, hasL); WIT(uchar, wLo); WIT(uchar, wLs); WIT(uchar, bw); WIT(int, nlive);
    WIT(uchar, wpo); WIT(uchar, wps); WIT(uchar, null);
    C10_HEAP_STATE(nf, wfo, wfs, wbrk, 0, hasL, wLo, wLs, nlive);
    size_t po = wpo, ps = wps;
    size_t live0 = c10_abs_live(&c10_pre);
    if (!null) {
        /* p is a live block: inside the heap, off the free list, header intact, distinct from the ghost block */
        __CPROVER_assume(c10_abs_live_ok(&c10_pre, po, ps));
        __CPROVER_assume(!c10_hasL || (po + 1 + ps <= c10_Lo ? C10_GAP_OK(c10_Lo - (po + 1 + ps)) : (c10_Lo + 1 + c10_Ls <= po && C10_GAP_OK(po - (c10_Lo + 1 + c10_Ls)))));
        __CPROVER_assume(nlive >= 1 + c10_hasL && (nlive == 1) == (live0 == 1 + ps));
        C10_W(po) = 8 * ps;
    }
    __CPROVER_assume(!c10_hasL || bw < c10_Ls);
    size_t old_w = c10_hasL ? C10_W(c10_Lo + 1 + bw) : 0;

    lin_free(null ? NULL : (void *)(c10_arena + 8 * (po + 1)));

    struct c10_abs post = c10_pre;
    if (!null) {
        uint n0 = post.n; size_t brk0 = post.brk;
        int up = 0, down = 0;
        for (uint i = 0; i < C10_MAXN; i++)
            if (i < c10_pre.n) { if (c10_pre.fo[i] == po + 1 + ps) up = 1; if (c10_pre.fo[i] + 1 + c10_pre.fs[i] == po) down = 1; }
        c10_abs_free(&post, po, ps);
        __CPROVER_assert(c10_abs_live(&post) == live0 - (1 + ps), "free: live bytes shrink by exactly the freed chunk (the bytes are free or below the break again)");
        __CPROVER_assert(__allocation_counter == nlive - 1, "free: __allocation_counter counts the live blocks");
        if (live0 == 1 + ps)
            __CPROVER_assert(post.n == 0 && post.brk == 0 && __flp == NULL && __brkval == c10_arena,
                             "free of the last live block: __flp == NULL and __brkval == heap_start (no memory lost)");
        /* one canary per path; which paths exist depends on the number of free chunks of this run */
        if (!up && !down && post.brk == brk0) CANARY("free path: no free neighbour");
#if NF >= 1
        if (up && !down && post.brk == brk0) CANARY("free path: coalesced with the upper neighbour");
        if (!up && down && post.brk == brk0) CANARY("free path: coalesced with the lower neighbour");
        if (post.brk < brk0 && post.n > 0) CANARY("free path: topmost chunk freed, break lowered");
#endif
#if NF >= 2
        if (up && down) CANARY("free path: coalesced with both neighbours");
#endif
#if NF <= 1
        if (live0 == 1 + ps && n0 == NF) CANARY("free path: last live block freed (alone / above a free chunk): heap empty again");
#endif
    } else {
        __CPROVER_assert(__allocation_counter == nlive, "free(NULL): nothing changes");
    }
    __CPROVER_assert(c10_abs_ok(&post), "free: HEAP re-established (address-ordered, coalesced free chunks inside [heap_start, __brkval))");
    __CPROVER_assert(c10_mem_is(&post), "free: __flp, the sz / nx fields of every free chunk and __brkval encode exactly the coalesced state");
    if (c10_hasL) {
        __CPROVER_assert(C10_W(c10_Lo) == 8 * c10_Ls && C10_W(c10_Lo + 1 + bw) == old_w, "free: header and contents of every other live block untouched");
        __CPROVER_assert(c10_abs_block_ok(&post, c10_Lo, c10_Ls), "free: every other live block stays inside the heap and off the free list");
    }
    CANARY("heap_free end reachable");
}
