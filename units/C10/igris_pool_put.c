/*@unit {
 'kind': 'bounded', 'mode': 'plain',
 'bound': 'capacity CAP in 1..6 cells (every free-list order and LIVE subset generated symbolically), element size 8 or 24 (thorough: 8,16,24,40); inductive in history; unwind 8 is complete (unwinding assertions)',
 'functions': ['igris::pool::put', 'igris::pool::room', 'igris::pool::avail', 'pool_free'],
 'extract': 'units/C10/pool_extract.py',
 'clauses': 'igris::pool::put(p) of a LIVE cell from any state satisfying POOL and room() == avail(): the zone-bounds asserts of put hold, POOL re-established with the cell free again (next to be handed out), room() == avail() == capacity - |LIVE\'|, only the link field of that cell is written; put(NULL) changes nothing',
 'params': {'ELEMSZ': [8, 24], 'CAP': [1, 2, 3, 4, 5, 6]}, 'params_thorough': {'ELEMSZ': [8, 16, 24, 40]},
 'unwind': 8, 'complete_unwinding': 'walks bounded by the capacity <= 6',
 'assumptions': ['igris::pool::put: the argument is NULL or a LIVE cell of this pool (put asserts the zone bounds only; a foreign, misaligned or already-free pointer is outside the API contract)'],
 'witness': {'unwind': 8},
} @*/
#include "vc.h"
#include "cxx/pool_c.c"
#include "c10_pool.h"

void harness(void)
{
    struct igris_pool p;
    WIT(uchar, nfree); WIT(uchar, l); WIT(uchar, null); WIT_ARR(uchar, order, C10_CAPMAX); WIT(size_t, b);
    WIT_ARR(char, content, 6);
    C10_STATE_ASSUME(order, nfree);
    size_t zsz = c10_cap * c10_elemsz;
    c10_zone = NEW_OBJ(zsz);
    FILL(c10_zone, 0, content);
    p._zone = c10_zone; p._size = zsz; p._elemsz = c10_elemsz; p._count = nfree;
    c10_link(&p.head);
    __CPROVER_assume(null || C10_LIVE0(l));
    __CPROVER_assume(b < zsz);
    char old_b = c10_zone[b];

    igris_pool_put(&p, null ? NULL : (void *)C10_CELL(l));

    uchar post[C10_CAPMAX + 1];
    int n = c10_walk(&p.head, post);
    if (null) {
        __CPROVER_assert(n == (int)nfree && igris_pool_room(&p) == nfree && c10_zone[b] == old_b, "put(NULL): nothing changes");
        for (int k = 0; k < C10_CAPMAX; k++)
            if (k < n) __CPROVER_assert(post[k] == c10_order[k], "put(NULL): free list unchanged");
    } else {
        __CPROVER_assert(n == (int)nfree + 1 && post[0] == l, "put: POOL re-established, the cell is free again and first on the list");
        for (int k = 1; k < C10_CAPMAX; k++)
            if (k < n) __CPROVER_assert(post[k] == c10_order[k - 1], "put: the rest of the free list is unchanged");
        __CPROVER_assert(igris_pool_avail(&p) == (size_t)nfree + 1 && igris_pool_room(&p) == (size_t)nfree + 1,
                         "put: room() == avail() == capacity - |LIVE'|");
        __CPROVER_assert((b >= (size_t)l * c10_elemsz && b < (size_t)l * c10_elemsz + sizeof(struct slist_head)) || c10_zone[b] == old_b,
                         "put: writes only the link field of the returned cell");
    }
    CANARY("igris_pool_put end reachable");
}
