/*@unit {
 'kind': 'bounded', 'mode': 'plain',
 'bound': 'Capacity 1..6 (one run each; every free-list order and LIVE subset generated symbolically); T = C10_T with the ghost lifetime state of spec/elem_lifetime.h; inductive in history; unwind 8 is complete (unwinding assertions)',
 'functions': ['igris::static_object_pool::create', 'igris::static_object_pool::destroy', 'igris::static_object_pool::avail', 'pool_alloc', 'pool_free'],
 'extract': 'units/C10/pool_extract.py',
 'clauses': 'from any state satisfying POOL in which exactly the LIVE cells hold a live object: create(v) returns NULL iff no cell is free (nothing constructed), otherwise a cell that was free, in which exactly one object is constructed (placement-new over raw storage: lifetime assertion) with value v; destroy(obj) of a LIVE object runs its destructor exactly once (lifetime assertion) and makes the cell free again; POOL re-established, avail() == Capacity - |LIVE\'|; every other object keeps lifetime state and value; writes stay inside the storage array',
 'params': {'SOP_CAP': [1, 2, 3, 4, 5, 6], 'OP': [0, 1]}, 'defines': ['ELEMSZ=16', 'CAP=SOP_CAP'],
 'unwind': 8, 'complete_unwinding': 'walks bounded by the capacity <= 6',
 'assumptions': ['static_object_pool::destroy: the argument is a live object created by this pool (destroying a foreign pointer or an object twice is outside the API contract)'],
 'trusted': ['glue of the recipe: data layout of static_object_pool / storage_type written out in C (constexpr members, std::array, alignas are outside the cxx2c rule set)'],
 'witness': {'unwind': 8},
} @*/
#include "vc.h"
#include "cxx/pool_c.c"
#include "cxx/sop_c.c"
#include "c10_pool.h"
_Static_assert(sizeof(struct sop_storage_type) == ELEMSZ, "unit parameter ELEMSZ is sizeof(storage_type)");

void harness(void)
{
    struct static_object_pool sop;
    WIT(uchar, nfree); WIT_ARR(uchar, order, C10_CAPMAX); WIT(uchar, l); WIT(uchar, k); WIT(int, v);
    WIT_ARR(int, vals, C10_CAPMAX);
    C10_STATE_ASSUME(order, nfree);
    c10_zone = (char *)sop.storage;
    /* lifetime part of the invariant: LIVE cells hold a live object, free cells are raw storage */
    for (uint i = 0; i < SOP_CAP; i++) {
        C10_T *c = (C10_T *)C10_CELL(i);
        c->e.g_state = c10_free0(i) ? ELEM_RAW : ELEM_LIVE;
        c->e.v = vals[i];
    }
    c10_link(&sop.head);
    __CPROVER_assume(k < SOP_CAP);
    uchar post[C10_CAPMAX + 1];
#if OP == 0
    C10_T *r = static_object_pool_create(&sop, v);
    int n = c10_walk(&sop.head, post);
    __CPROVER_assert((r == NULL) == (nfree == 0), "create: NULL iff no cell is free");
    size_t ri = SOP_CAP;
    if (r) {
        __CPROVER_assert(c10_is_cell(r), "create: the object lies in a cell of the storage array");
        ri = c10_cell_index(r);
        __CPROVER_assert(c10_free0(ri), "create: the cell was free (overlaps no live object)");
        __CPROVER_assert(r->e.g_state == ELEM_LIVE && r->e.v == v, "create: exactly one object constructed, with the given value");
        __CPROVER_assert(n == (int)nfree - 1 && !c10_in(post, n, ri), "create: POOL re-established, the cell is off the free list");
    } else {
        __CPROVER_assert(n == 0, "create on an exhausted pool: nothing changes");
    }
    if (k != ri) {
        C10_T *c = (C10_T *)C10_CELL(k);
        __CPROVER_assert(c->e.g_state == (c10_free0(k) ? ELEM_RAW : ELEM_LIVE) && c->e.v == vals[k], "create: every other object keeps its lifetime state and value");
    }
    __CPROVER_assert(static_object_pool_avail(&sop) == (size_t)nfree - (r ? 1 : 0), "create: avail() == Capacity - |LIVE'|");
#else
    __CPROVER_assume(C10_LIVE0(l));
    C10_T *obj = (C10_T *)C10_CELL(l);
    static_object_pool_destroy(&sop, obj);
    int n = c10_walk(&sop.head, post);
    __CPROVER_assert(obj->e.g_state == ELEM_RAW, "destroy: the destructor ran exactly once, the cell is raw storage again");
    __CPROVER_assert(n == (int)nfree + 1 && post[0] == l, "destroy: POOL re-established, the cell is free again");
    if (k != l) {
        C10_T *c = (C10_T *)C10_CELL(k);
        __CPROVER_assert(c->e.g_state == (c10_free0(k) ? ELEM_RAW : ELEM_LIVE) && c->e.v == vals[k], "destroy: every other object keeps its lifetime state and value");
    }
    __CPROVER_assert(static_object_pool_avail(&sop) == (size_t)nfree + 1, "destroy: avail() == Capacity - |LIVE'|");
#endif
    CANARY("sop_create_destroy end reachable");
}
