/*@unit {
 'kind': 'bounded', 'mode': 'plain',
 'bound': 'capacity <= 6 cells (every free-list length and order, every LIVE subset generated symbolically; element size from {8,24}, thorough tier {8,16,24,40}; one run per capacity 0..6 and element size); unwind 8 is complete for this capacity (unwinding assertions)',
 'functions': ['pool_avail', 'pool_in_freelist', 'slist_size', 'slist_in', 'pool_init'],
 'extract': 'units/C10/pool_extract.py',
 'clauses': 'in any state satisfying POOL: pool_avail == |free| == capacity - |LIVE|; pool_in_freelist(cell i) <=> i is on the free list <=> i is not LIVE; both write nothing; pool_init makes an empty pool (avail 0, alloc would answer NULL)',
 'params': {'ELEMSZ': [8, 24], 'CAP': [0, 1, 2, 3, 4, 5, 6]}, 'params_thorough': {'ELEMSZ': [8, 16, 24, 40]},
 'unwind': 8, 'complete_unwinding': 'slist_size / slist_in walk at most 6 cells; spec loops over C10_CAPMAX = 6',
 'witness': {'unwind': 8},
} @*/
#include "vc.h"
#include "cxx/pool_c.c"
#include "c10_pool.h"

void harness(void)
{
    struct pool_head pool;
    WIT(uchar, nfree); WIT(uchar, i); WIT_ARR(uchar, order, C10_CAPMAX); WIT(size_t, b);
    WIT_ARR(char, content, 6);
    C10_STATE_ASSUME(order, nfree);
    c10_zone = NEW_OBJ(c10_cap * c10_elemsz);
    FILL(c10_zone, 0, content);
    c10_link(&pool);
    size_t zsz = c10_cap * c10_elemsz;
    __CPROVER_assume(zsz == 0 || b < zsz);
    char old_b = zsz ? c10_zone[b] : 0;
    struct slist_head *old_first = pool.free_blocks.next;

    size_t av = pool_avail(&pool);
    __CPROVER_assert(av == nfree, "pool_avail == |free| == capacity - |LIVE|");
    if (i < c10_cap) {
        int in = pool_in_freelist(&pool, C10_CELL(i));
        __CPROVER_assert((in != 0) == (c10_free0(i) != 0), "pool_in_freelist(cell) <=> the cell is free <=> it is not LIVE");
    }
    __CPROVER_assert(pool.free_blocks.next == old_first && (zsz == 0 || c10_zone[b] == old_b), "queries write nothing");

    struct pool_head fresh;
    pool_init(&fresh);
    __CPROVER_assert(pool_avail(&fresh) == 0 && pool_alloc(&fresh) == NULL && fresh.free_blocks.next == &fresh.free_blocks,
                     "pool_init: empty pool");
    CANARY("pool_query end reachable");
}
