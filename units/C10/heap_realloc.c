/*@unit {
 'kind': 'bounded', 'mode': 'plain',
 'bound': 'free list of <= 3 chunks at symbolic offsets with symbolic sizes in an arena of 128 bytes; QUICK TIER: only states without free chunks (NF = 0: moved through break extension, top chunk grown, unchanged; realloc(NULL)); THOROUGH TIER: one run per number of free chunks 0..3 (5-6 minutes each: realloc inlines malloc and free), the block being resized and one further arbitrary ghost live block at symbolic positions, new size symbolic (all of size_t); inductive in history: the pre-state is ANY state satisfying HEAP within this bound; unwinding is complete for these list lengths (unwinding assertions)',
 'functions': ['realloc', 'malloc', 'free'],
 'extract': 'units/C10/heap_extract.py',
 'clauses': 'realloc(p, len) from any state satisfying HEAP, p a live block or NULL: the block returned is 8-aligned with >= len usable bytes (and >= 8, so that it can be freed), lies inside the heap inside the arena, overlaps neither the free list nor any other live block (arbitrary ghost block); its first min(old size, new size) payload words equal the old contents (ghost word index: realloc preserves the common prefix), both when resized in place (shrink with the tail given back and coalesced, grow into the free upper neighbour - whole or split -, grow the topmost chunk by moving the break) and when moved (malloc + copy + free of the old block); HEAP is re-established and the real memory encodes exactly the derived state; every other live block keeps header and contents; live bytes change by exactly new chunk - old chunk; __allocation_counter still counts the live blocks; realloc(NULL, len) behaves as malloc(len); each path is reachable (canaries)',
 'params': {'C10_ARENA': [128], 'NF': [0, 1], 'NULLP': [0, 1]}, 'params_thorough': {'NF': [0, 1, 2, 3]},
 'unwindset': ['lin_realloc.0:4', 'lin_malloc.0:4', 'lin_free.0:4', 'lin_free.1:4'], 'unwind': 6,
 'complete_unwinding': 'the walks of realloc/malloc/free see at most 4 chunks (unwound 4 times, unwinding assertions); spec loops are bounded by C10_MAXN = 5',
 'kf': ['C10_malloc_never_fails', 'C10_malloc_round_wrap', 'C10_malloc_counter_limit', 'C10_realloc_zero_size', 'C10_realloc_shrink_counter'],
 'kf_probe_case': {'C10_malloc_never_fails': {'C10_ARENA': 128, 'NF': 0, 'NULLP': 0}, 'C10_malloc_round_wrap': {'C10_ARENA': 128, 'NF': 0, 'NULLP': 0}, 'C10_malloc_counter_limit': {'C10_ARENA': 128, 'NF': 0, 'NULLP': 0},
                   'C10_realloc_zero_size': {'C10_ARENA': 128, 'NF': 0, 'NULLP': 0}, 'C10_realloc_shrink_counter': {'C10_ARENA': 128, 'NF': 0, 'NULLP': 0}},
 'canaries': 2, 'timeout': 1200,
 'assumptions': ['realloc(p, len): p is NULL or a live block handed out by malloc/realloc and not freed since (ISO C precondition)'],
 'witness': {'unwind': 6},
} @*/
#include "vc.h"
#define C10_MEMCPY_CONTRACT
#include "cxx/lin_heap.c"
#include "c10_heap.h"

/* one canary per path, compiled in only where that path exists for this run's number of free chunks NF and arena size
 * (W words): minimal layouts  whole upper neighbour: [p2][F8][L2] = 12, split: [p2][F11][L2] = 15, top grown: [..][p -> 9],
 * moved: [F9][L2][p2] = 13 or [p2][L2][new 9]; every further free chunk costs 2..4 words */
#define W_ (C10_ARENA / 8)
#define R_WHOLE (!NULLP && NF >= 1 && 12 + 4 * (NF - 1) <= W_)
#define R_SPLIT (!NULLP && NF >= 1 && 15 + 4 * (NF - 1) <= W_)
#define R_TOP (!NULLP && (NF == 0 ? 9 : 4 * NF + 7) <= W_)
#define R_MOVED (!NULLP && (NF <= 1 ? 13 : NF == 2 ? 15 : 19) <= W_)
#define R_SHRINK (!NULLP && KF_C10_realloc_shrink_counter != 1)   /* every shrinking input lies in that finding's region while it is open */

void harness(void)
{
    WIT(uchar, nf); WIT_ARR(uchar, wfo, C10_NCHUNK); WIT_ARR(uchar, wfs, C10_NCHUNK); WIT(uchar, wbrk);
    WIT(uchar, hasL); WIT(uchar, wLo); WIT(uchar, wLs); WIT(uchar, bw); WIT(int, nlive);
    WIT(uchar, wpo); WIT(uchar, wps); WIT(uchar, pw); WIT(size_t, len);
    const int null = NULLP;            /* realloc(NULL, len) is a run of its own */
    C10_HEAP_STATE(nf, wfo, wfs, wbrk, 0, hasL, wLo, wLs, nlive);
    size_t po = wpo, ps = wps;
    size_t live0 = c10_abs_live(&c10_pre);
    if (!null) {
        __CPROVER_assume(c10_abs_live_ok(&c10_pre, po, ps));
        __CPROVER_assume(!c10_hasL || (po + 1 + ps <= c10_Lo ? C10_GAP_OK(c10_Lo - (po + 1 + ps)) : (c10_Lo + 1 + c10_Ls <= po && C10_GAP_OK(po - (c10_Lo + 1 + c10_Ls)))));
        __CPROVER_assume(nlive >= 1 + c10_hasL && (nlive == 1) == (live0 == 1 + ps));
        __CPROVER_assume(pw < ps);
        C10_W(po) = 8 * ps;
    } else {
        po = 0; ps = 0;
    }
    __CPROVER_assume(!c10_hasL || bw < c10_Ls);
    size_t old_w = c10_hasL ? C10_W(c10_Lo + 1 + bw) : 0;
    size_t old_pw = null ? 0 : C10_W(po + 1 + pw);

    /* ---- known-finding regions (over the inputs; they describe where the code leaves the arena etc.) ---- */
    int wrap = C10_ROUND_WRAPS(len);
    size_t l2 = len % __WORDSIZE ? len + (__WORDSIZE - len % __WORDSIZE) : len;       /* realloc's rounded size (wraps to 0 in the wrap region) */
    int shrink_split = !null && 8 * ps > 2 * sizeof(size_t) && l2 <= 8 * ps - 2 * sizeof(size_t);
    int grows = !null && l2 > 8 * ps;
    size_t smax = 0; int nb_fits = 0;
    for (uint i = 0; i < C10_MAXN; i++)
        if (i < c10_pre.n) {
            if (8 * c10_pre.fs[i] > smax) smax = 8 * c10_pre.fs[i];
            if (grows && c10_pre.fo[i] == po + 1 + ps && 8 * c10_pre.fs[i] + 8 >= l2 - 8 * ps) nb_fits = 1;
        }
    size_t rl = c10_rounded(l2);
    int malloc_nofit = !c10_fits_free(&c10_pre, rl) && (rl > C10_ARENA || 8 * c10_pre.brk + 8 + rl > C10_ARENA);
    int nofit = null ? malloc_nofit
              : !grows || nb_fits ? 0
              : (po + 1 + ps == c10_pre.brk && l2 > smax) ? (l2 > C10_ARENA || 8 * (po + 1) + l2 > C10_ARENA)
              : malloc_nofit;
    int calls_malloc = null || (grows && !nb_fits && !(po + 1 + ps == c10_pre.brk && l2 > smax));
    __CPROVER_assume(KF_C10_malloc_round_wrap == 0 ? 1 : KF_C10_malloc_round_wrap == 1 ? !wrap : wrap);
    __CPROVER_assume(KF_C10_malloc_never_fails == 0 ? 1 : KF_C10_malloc_never_fails == 1 ? !nofit : (nofit && !wrap));
    __CPROVER_assume(KF_C10_malloc_counter_limit == 0 ? 1 : KF_C10_malloc_counter_limit == 1 ? !(calls_malloc && nlive >= 99) : (calls_malloc && nlive >= 99 && !wrap && !nofit));
    __CPROVER_assume(KF_C10_realloc_zero_size == 0 ? 1 : KF_C10_realloc_zero_size == 1 ? !(shrink_split && len == 0) : (shrink_split && len == 0));
    __CPROVER_assume(KF_C10_realloc_shrink_counter == 0 ? 1 : KF_C10_realloc_shrink_counter == 1 ? !(shrink_split && len != 0 && !wrap) : (shrink_split && len != 0 && !wrap));

    char *ptr = null ? NULL : c10_arena + 8 * (po + 1);
#ifndef REPLAY
    g_mc_kw = pw;
#endif
    char *r = lin_realloc(ptr, len);

    struct c10_abs post = c10_pre;
    size_t ro = po, rs = ps;          /* the block the caller owns afterwards */
    if (r == NULL) {
        /* failure: the old block (if any) is still valid, nothing changed */
        __CPROVER_assert(__allocation_counter == nlive, "realloc: on failure nothing changes");
    } else {
        __CPROVER_assert(C10_IN_ARENA(r) && C10_OFF(r) >= 8 && C10_OFF(r) % 8 == 0 && C10_OFF(r) < C10_ARENA, "realloc: result is 8-aligned and inside the arena");
        ro = C10_OFF(r) / 8 - 1;
        size_t rsb = C10_W(ro);
        __CPROVER_assert(rsb >= len && rsb >= sizeof(void *) && rsb % 8 == 0, "realloc: the block has at least len usable bytes (and can hold a free-list link when freed)");
        rs = rsb / 8;
        if (r != ptr) {
            /* a new block: carved out like malloc does, then the old one is freed */
            int how = c10_abs_alloc(&post, ro, rs);
            __CPROVER_assert(how != 0, "realloc: a new block is a whole free chunk, the upper part of one, or new space at the break");
            if (!null) {
                __CPROVER_assert(ro + 1 + rs <= po || po + 1 + ps <= ro, "realloc: the new block does not overlap the old one");
                c10_abs_free(&post, po, ps);
#if R_MOVED
                CANARY("realloc path: moved (malloc, copy, free)");
#endif
            } else {
#if NULLP
                CANARY("realloc path: realloc(NULL, len) == malloc(len)");
#endif
            }
        } else if (rs < ps) {
            __CPROVER_assert(ps - rs >= 2, "realloc: a shrunk block gives back a tail that can hold a chunk");
            if (ps - rs >= 2) c10_abs_free(&post, po + 1 + rs, ps - rs - 1);
#if R_SHRINK
            CANARY("realloc path: shrunk in place, tail freed");
#endif
        } else if (rs > ps) {
            size_t d = rs - ps;
            uint j = C10_MAXN;
            for (uint i = 0; i < C10_MAXN; i++)
                if (i < post.n && post.fo[i] == po + 1 + ps) j = i;
            if (j < C10_MAXN) {
                __CPROVER_assert(d == 1 + post.fs[j] || d + 1 <= post.fs[j], "realloc: growth into the upper neighbour takes it whole or leaves a free chunk that can hold a link");
                if (d == 1 + post.fs[j]) {
                    c10_abs_remove(&post, j);
#if R_WHOLE
                    CANARY("realloc path: grown into the whole upper neighbour");
#endif
                } else {
                    post.fo[j] += d; post.fs[j] -= d;
#if R_SPLIT
                    CANARY("realloc path: grown into the upper neighbour, rest split off");
#endif
                }
            } else {
                __CPROVER_assert(po + 1 + ps == post.brk, "realloc: in-place growth without a free upper neighbour only at the top of the heap");
                post.brk += d;
#if R_TOP
                CANARY("realloc path: topmost block grown by moving the break");
#endif
            }
        } else {
#if !NULLP
            CANARY("realloc path: size class unchanged, nothing to do");
#endif
        }
        if (!null && pw < rs)
            __CPROVER_assert(C10_W(ro + 1 + pw) == old_pw, "realloc: the common prefix of the contents is preserved");
#ifndef REPLAY
        if (g_mc_calls)
            __CPROVER_assert(g_mc_calls == 1 && r != ptr && g_mc_d == (void *)r && g_mc_s == (const void *)ptr && g_mc_n == 8 * ps && g_mc_n <= 8 * rs,
                             "realloc: the one memcpy copies the whole old payload into the payload of the block returned");
        else
            __CPROVER_assert(null || r == ptr, "realloc: a moved block has been copied");
#endif
        __CPROVER_assert(c10_abs_block_ok(&post, ro, rs), "realloc: the block lies inside [heap_start, __brkval) and overlaps no chunk on the free list");
        if (c10_hasL)
            __CPROVER_assert(ro + 1 + rs <= c10_Lo || c10_Lo + 1 + c10_Ls <= ro, "realloc: the block overlaps no other live block");
        __CPROVER_assert(c10_abs_live(&post) + (null ? 0 : 1 + ps) == live0 + 1 + rs, "realloc: live bytes change by exactly new chunk - old chunk (no memory lost)");
        __CPROVER_assert(__allocation_counter == nlive + (null ? 1 : 0), "realloc: __allocation_counter counts the live blocks");
    }
    __CPROVER_assert(c10_abs_ok(&post), "realloc: HEAP re-established");
    __CPROVER_assert(c10_mem_is(&post), "realloc: __flp, the sz / nx fields of every free chunk and __brkval encode exactly the derived state");
    if (c10_hasL) {
        __CPROVER_assert(C10_W(c10_Lo) == 8 * c10_Ls && C10_W(c10_Lo + 1 + bw) == old_w, "realloc: header and contents of every other live block untouched");
        __CPROVER_assert(c10_abs_block_ok(&post, c10_Lo, c10_Ls), "realloc: every other live block stays inside the heap and off the free list");
    }
    CANARY("heap_realloc end reachable");
}
