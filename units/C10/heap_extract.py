# cxx2c recipe for compat/mem/lin_malloc.cpp + lin_realloc.cpp (C bodies inside .cpp files that include
# <memory>, <mutex>, igris/sync/*).  A python literal; see vclib/cxx2c.py.
#   * malloc/free/realloc are cut out of the real files on every run and renamed lin_malloc/lin_free/
#     lin_realloc (so that they do not collide with cbmc's / the host's allocator); realloc's two calls are
#     renamed with them (rules must fire);
#   * R9: the lock guard line of each function is dropped (single-threaded semantics only);
#   * critical_context_level() is stubbed to 0 (glue): the abort() branch is the interrupt-context guard;
#   * the heap base: `extern char _heap_start;` is a linker symbol; here _heap_start is the first byte of
#     the harness arena c10_arena_w[] seen as bytes (glue #define), so &_heap_start == (char *)c10_arena_w;
#   * the global state lines (__allocation_counter, __malloc_heap_start, __brkval, __flp) are copied verbatim.
[{
 'out': 'cxx/lin_heap.c',
 'pieces': [
  {'op': 'glue', 'text': '#include <assert.h>\n#include <stddef.h>\n#include <stdint.h>\n#include <stdlib.h>\n#include <string.h>\n'
                         '#include "compat/mem/lin_malloc.h"\n'
                         '#ifndef __WORDSIZE\n#error "__WORDSIZE is expected from the C library headers (glibc: 64)"\n#endif\n'
                         'static inline int critical_context_level(void) { return 0; }\n'
                         'extern size_t c10_arena_w[];\n#define c10_arena ((char *)c10_arena_w)\n#define _heap_start (c10_arena[0])\n'},
  {'op': 'lines', 'file': 'compat/mem/lin_malloc.cpp', 'regex': r'^(int __allocation_counter = 0;|char \*__malloc_heap_start = &_heap_start;|char \*__brkval = NULL;|struct __freelist \*__flp = NULL;)$', 'min': 4},
  {'op': 'func', 'file': 'compat/mem/lin_malloc.cpp', 'name': 'malloc', 'as': 'lin_malloc',
   'rewrite': [[r'^[ \t]*igris::syslock_guard lguard;[ \t]*\n', '', 1]]},
  {'op': 'func', 'file': 'compat/mem/lin_malloc.cpp', 'name': 'free', 'as': 'lin_free',
   'rewrite': [[r'^[ \t]*igris::syslock_guard lguard;[ \t]*\n', '', 1]]},
  {'op': 'func', 'file': 'compat/mem/lin_realloc.cpp', 'name': 'realloc', 'as': 'lin_realloc',
   'rewrite': [[r'^[ \t]*std::lock_guard<igris::syslock> lguard\(lock\);[ \t]*\n', '', 1],
               [r'\bmalloc\(', 'lin_malloc(', 2], [r'(?<![\w_])free\(', 'lin_free(', 2],
               # R11 (this recipe only): realloc computes cp = ptr + len BEFORE knowing that it stays inside the heap and
               # tests `cp < cp1` to catch address wrap-around; for cp beyond the heap object that is a relational
               # comparison of an out-of-object pointer (ISO C 6.5.6p8 / 6.5.8p5), which cbmc's pointer check reports
               # although no byte is accessed.  The comparison is made on the addresses, which is what every compiler
               # for a flat address space emits; the property speaks about bytes read and written, not pointer values.
               [r'if \(cp < cp1\)', 'if ((uintptr_t)cp < (uintptr_t)cp1)', 1]]},
 ],
}]
