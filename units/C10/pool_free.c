/*@unit {
 'kind': 'bounded', 'mode': 'plain',
 'bound': 'capacity <= 6 cells (every free-list length and order, every LIVE subset generated symbolically; element size from {8,24}, thorough tier {8,16,24,40}; one run per capacity 1..6 and element size: the zone is an exact-size object); inductive in history: the pre-state is ANY state satisfying POOL, unwind 8 is complete for this capacity (unwinding assertions)',
 'functions': ['pool_free', 'slist_add'],
 'extract': 'units/C10/pool_extract.py',
 'clauses': 'pool_free(p) of a LIVE cell from any state satisfying POOL: POOL is re-established with free\' = {p} + free (p is the next cell handed out: freed blocks become allocatable again), LIVE\' = LIVE \\ {p}, avail == capacity - |LIVE\'|; no byte of another cell (live or free) and no byte of p beyond its link field is written (ghost byte index)',
 'params': {'ELEMSZ': [8, 24], 'CAP': [1, 2, 3, 4, 5, 6]}, 'params_thorough': {'ELEMSZ': [8, 16, 24, 40]},
 'unwind': 8, 'complete_unwinding': 'all loops are spec loops over the capacity bound C10_CAPMAX = 6, and slist_size / slist_in walks over at most 6 cells',
 'assumptions': ['pool_free: the argument is a LIVE cell of this pool (freeing a foreign pointer or a cell twice is outside the API contract; igris::pool::put asserts the zone bounds only)'],
 'witness': {'unwind': 8},
} @*/
#include "vc.h"
#include "cxx/pool_c.c"
#include "c10_pool.h"

void harness(void)
{
    struct pool_head pool;
    WIT(uchar, nfree); WIT(uchar, l); WIT_ARR(uchar, order, C10_CAPMAX); WIT(size_t, b);
    WIT_ARR(char, content, 6);
    C10_STATE_ASSUME(order, nfree);
    c10_zone = NEW_OBJ(c10_cap * c10_elemsz);
    FILL(c10_zone, 0, content);
    c10_link(&pool);
    __CPROVER_assume(C10_LIVE0(l));
    size_t zsz = c10_cap * c10_elemsz;
    __CPROVER_assume(b < zsz);
    char old_b = c10_zone[b];

    pool_free(&pool, C10_CELL(l));

    uchar post[C10_CAPMAX + 1];
    int n = c10_walk(&pool, post);
    __CPROVER_assert(n == (int)nfree + 1, "pool_free: POOL re-established, |free| grows by exactly one");
    __CPROVER_assert(n >= 1 && post[0] == l, "pool_free: the freed cell is on the free list (first: allocatable again)");
    for (int k = 1; k < C10_CAPMAX; k++)
        if (k < n) __CPROVER_assert(post[k] == c10_order[k - 1], "pool_free: the rest of the free list is unchanged");
    __CPROVER_assert(pool_avail(&pool) == c10_cap - (c10_cap - nfree - 1), "pool_free: avail == capacity - |LIVE'|");
    __CPROVER_assert(pool_in_freelist(&pool, C10_CELL(l)), "pool_free: pool_in_freelist reports the freed cell");
    __CPROVER_assert((b >= (size_t)l * c10_elemsz && b < (size_t)l * c10_elemsz + sizeof(struct slist_head)) || c10_zone[b] == old_b,
                     "pool_free: writes only the link field of the freed cell (other live blocks untouched)");
    CANARY("pool_free end reachable");
}
