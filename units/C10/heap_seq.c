/*@unit {
 'kind': 'bounded', 'mode': 'plain',
 'bound': 'whole histories from the never-used heap: three allocations with request sizes chosen symbolically from {0, 1, 64} (chunk payloads 8, 64; arena 256 bytes) - thorough tier also from {0, 1, 64, 65, 100} (payloads 8, 64, 128; arena 512 bytes), the three blocks freed in the order given by the run parameter PERM (quick tier: 3 of the 6 orders; thorough tier: all 6, with a fourth allocation in between for PERM >= 3); unwinding complete (unwinding assertions)',
 'functions': ['malloc', 'free'],
 'extract': 'units/C10/heap_extract.py',
 'clauses': 'cross-check of the inductive units on real histories (the states reached are not generated, they are produced by the code itself): blocks returned are inside the arena, 8-aligned, large enough and pairwise disjoint (headers included); a word pattern written to the first and last word of each block is intact right before the block is freed; after all blocks are freed, in every order, __flp == NULL and __brkval == heap_start (no memory lost) and __allocation_counter == 0; a block freed in the middle is reused by a later allocation of the same size class',
 'params': {'PERM': [0, 1, 2], 'C10_ARENA': [256]}, 'params_thorough': {'PERM': [0, 1, 2, 3, 4, 5], 'C10_ARENA': [256, 512]},
 'unwindset': ['lin_malloc.0:4', 'lin_free.0:4', 'lin_free.1:4'], 'unwind': 6,
 'complete_unwinding': 'at most 3 chunks are ever on the free list',
 'timeout': 900,
 'witness': {'unwind': 6},
} @*/
#include "vc.h"
#include "cxx/lin_heap.c"
#include "c10_heap.h"

static const uchar perm[6][3] = {{0, 1, 2}, {2, 1, 0}, {1, 0, 2}, {0, 2, 1}, {1, 2, 0}, {2, 0, 1}};
static size_t pick(uchar s) { return s == 0 ? 0 : s == 1 ? 1 : s == 2 ? 64 : s == 3 ? 65 : 100; }
/* all spec accesses are word indexed */
#define HW(p) (C10_OFF(p) / 8 - 1)                     /* header word of the block at p */
static size_t usable(char *p) { return C10_W(HW(p)); }
static void check_block(char *p, size_t len)
{
    __CPROVER_assert(p != NULL && C10_IN_ARENA(p) && C10_OFF(p) >= 8 && C10_OFF(p) % 8 == 0 && C10_OFF(p) < C10_ARENA, "block is inside the arena and 8-aligned");
    __CPROVER_assert(usable(p) >= len && usable(p) >= 8 && usable(p) % 8 == 0 && C10_OFF(p) + usable(p) <= C10_ARENA, "block has >= len usable bytes, all inside the arena");
}
static int disjoint(char *p, char *q) { return C10_OFF(p) + usable(p) <= C10_OFF(q) - 8 || C10_OFF(q) + usable(q) <= C10_OFF(p) - 8; }
static void mark(char *p, size_t v) { C10_W(HW(p) + 1) = v; C10_W(HW(p) + usable(p) / 8) = v ^ 0xff; }
static int marked(char *p, size_t v) { return C10_W(HW(p) + usable(p) / 8) == (v ^ 0xff) && (usable(p) == 8 || C10_W(HW(p) + 1) == v); }

void harness(void)
{
    WIT(uchar, s0); WIT(uchar, s1); WIT(uchar, s2);
#if C10_ARENA >= 512
#define NSIZES 5
#else
#define NSIZES 3
#endif
    __CPROVER_assume(s0 < NSIZES && s1 < NSIZES && s2 < NSIZES);
    __malloc_heap_start = c10_arena;   /* = &_heap_start: the linker symbol is the first byte of the arena (the static initialiser is evaluated before cbmc knows the arena's size) */
    size_t len[3] = {pick(s0), pick(s1), pick(s2)};
    char *b[3];
    for (int i = 0; i < 3; i++) {
        b[i] = lin_malloc(len[i]);
        check_block(b[i], len[i]);
        mark(b[i], 0x1000 + i);
    }
    __CPROVER_assert(disjoint(b[0], b[1]) && disjoint(b[0], b[2]) && disjoint(b[1], b[2]), "live blocks are pairwise disjoint");
    __CPROVER_assert(__allocation_counter == 3, "three live blocks counted");
    for (int j = 0; j < 3; j++) {
        char *p = b[perm[PERM][j]];
        __CPROVER_assert(marked(p, 0x1000 + perm[PERM][j]), "contents of a live block intact right before it is freed");
        lin_free(p);
#if PERM >= 3
        if (j == 0) {
            /* an allocation of the size class just freed, while two blocks are live */
            size_t l3 = len[perm[PERM][0]];
            char *q = lin_malloc(l3);
            check_block(q, l3);
            __CPROVER_assert(disjoint(q, b[perm[PERM][1]]) && disjoint(q, b[perm[PERM][2]]), "the new block overlaps no live block");
            __CPROVER_assert(q == p || perm[PERM][0] == 2, "a freed block below the top is reused for a request of the same size");
            lin_free(q);
        }
#endif
    }
    __CPROVER_assert(__flp == NULL && __brkval == c10_arena, "all blocks freed: __flp == NULL and __brkval == heap_start");
    __CPROVER_assert(__allocation_counter == 0, "no live block counted");
    CANARY("heap_seq end reachable");
}
