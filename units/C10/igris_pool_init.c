/*@unit {
 'kind': 'bounded', 'mode': 'plain',
 'bound': 'capacity CAP in 0..6 cells, element size 8 or 24 (thorough: 8,16,24,40), plus the two element sizes 4 and 12 of the known-finding region; unwind 15 is complete (unwinding assertions)',
 'functions': ['igris::pool::init', 'igris::pool::size', 'igris::pool::room', 'igris::pool::avail', 'pool_init', 'pool_engage'],
 'extract': 'units/C10/pool_extract.py',
 'clauses': 'igris::pool::init(zone, size, elsize) establishes the precondition of pool_engage at its call (size % elsize == 0, elsize >= sizeof(slist_head), cells aligned for the link) and ends in a state satisfying POOL with every cell free (free list = cells cap-1..0, each once, inside the zone), LIVE empty, size() == room() == avail() == capacity; writes stay inside the zone',
 'params': {'ELEMSZ': [8, 24], 'CAP': [0, 1, 2, 3, 4, 5, 6]}, 'params_thorough': {'ELEMSZ': [8, 16, 24, 40]},
 'inject': [{'file': 'overlay:cxx/pool_c.c', 'func': 'pool_engage', 'at': 'func-begin',
             'ghost': '__CPROVER_assert(spec_c10_elemsz_ok(elemsz), "precondition of pool_engage established by igris::pool::init: a cell holds the free-list link and is aligned for it");'}],
 'unwind': 38, 'complete_unwinding': 'pool_engage pushes at most size/4 = 36 cells here, walks are bounded by the capacity',
 'kf': ['C10_pool_elemsz_unchecked'], 'kf_probe_case': {'C10_pool_elemsz_unchecked': {'CAP': 3, 'ELEMSZ': 8}},
 'assumptions': ['igris::pool::init: zone is a valid object of size bytes aligned for a pointer and size is a multiple of elsize (pool_engage asserts the latter)'],
 'witness': {'unwind': 38},
} @*/
#include "vc.h"
#define spec_c10_elemsz_ok(e) ((e) >= sizeof(struct slist_head) && (e) % _Alignof(struct slist_head) == 0)
#include "cxx/pool_c.c"
#include "c10_pool.h"

void harness(void)
{
    struct igris_pool p;
    WIT(uchar, bad);
    WIT_ARR(char, content, 6);
    /* known finding C10_pool_elemsz_unchecked: element sizes that cannot hold / do not align the free-list link */
    __CPROVER_assume(KF_C10_pool_elemsz_unchecked == 0 ? bad <= 2 : KF_C10_pool_elemsz_unchecked == 1 ? bad == 0 : (bad == 1 || bad == 2));
    size_t elsize = bad == 0 ? (size_t)ELEMSZ : bad == 1 ? (size_t)4 : (size_t)12;
    size_t size = c10_cap * c10_elemsz;       /* a multiple of 4, 8 and 12 as well for the sizes used here */
    __CPROVER_assume(size % elsize == 0);
    c10_zone = NEW_OBJ(size);
    FILL(c10_zone, 0, content);

    igris_pool_init(&p, c10_zone, size, elsize);

    __CPROVER_assert(p._zone == c10_zone && p._elemsz != 0 && p._size <= size && p._size % p._elemsz == 0, "init: the cells lie inside the zone handed in");
    __CPROVER_assert(igris_pool_room(&p) == igris_pool_size(&p) && igris_pool_avail(&p) == igris_pool_size(&p), "init: room() == avail() == size()");
    if (bad == 0) {
        __CPROVER_assert(p._size == size && p._elemsz == elsize, "init records size and element size");
        uchar post[C10_CAPMAX + 1];
        int n = c10_walk(&p.head, post);
        __CPROVER_assert(n == CAP, "init: POOL holds with every cell on the free list, LIVE empty");
        for (int k = 0; k < C10_CAPMAX; k++)
            if (k < n) __CPROVER_assert(post[k] == CAP - 1 - k, "init: each cell exactly once (cells cap-1 .. 0)");
        __CPROVER_assert(igris_pool_size(&p) == CAP && igris_pool_room(&p) == CAP && igris_pool_avail(&p) == CAP,
                         "init: size() == room() == avail() == capacity");
    }
    CANARY("igris_pool_init end reachable");
}
