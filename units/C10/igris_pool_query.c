/*@unit {
 'kind': 'bounded', 'mode': 'plain',
 'bound': 'capacity CAP in 1..6 cells (every free-list order and LIVE subset generated symbolically), element size 8 or 24 (thorough: 8,16,24,40); unwind 8 is complete (unwinding assertions)',
 'functions': ['igris::pool::size', 'igris::pool::room', 'igris::pool::avail', 'igris::pool::cell', 'igris::pool::cell_is_allocated', 'pool_in_freelist', 'pool_avail'],
 'extract': 'units/C10/pool_extract.py',
 'clauses': 'in any state satisfying POOL and room() == avail(): size() == capacity; avail() == room() == capacity - |LIVE|; cell(i) == zone + i*elemsz; cell_is_allocated(i) <=> 0 <= i < capacity and cell i is LIVE (false for every out-of-range index, negative ones included); nothing is written',
 'params': {'ELEMSZ': [8, 24], 'CAP': [1, 2, 3, 4, 5, 6]}, 'params_thorough': {'ELEMSZ': [8, 16, 24, 40]},
 'unwind': 8, 'complete_unwinding': 'walks bounded by the capacity <= 6',
 'witness': {'unwind': 8},
} @*/
#include "vc.h"
#include "cxx/pool_c.c"
#include "c10_pool.h"

void harness(void)
{
    struct igris_pool p;
    WIT(uchar, nfree); WIT(int, i); WIT_ARR(uchar, order, C10_CAPMAX); WIT(size_t, b);
    WIT_ARR(char, content, 6);
    C10_STATE_ASSUME(order, nfree);
    size_t zsz = c10_cap * c10_elemsz;
    c10_zone = NEW_OBJ(zsz);
    FILL(c10_zone, 0, content);
    p._zone = c10_zone; p._size = zsz; p._elemsz = c10_elemsz; p._count = nfree;
    c10_link(&p.head);
    __CPROVER_assume(b < zsz);
    char old_b = c10_zone[b];

    __CPROVER_assert(igris_pool_size(&p) == c10_cap, "size() == capacity");
    __CPROVER_assert(igris_pool_avail(&p) == nfree && igris_pool_room(&p) == nfree, "avail() == room() == capacity - |LIVE|");
    bool a = igris_pool_cell_is_allocated(&p, i);
    __CPROVER_assert(a == (i >= 0 && (size_t)i < c10_cap && C10_LIVE0((uint)i)), "cell_is_allocated(i) <=> i in range and cell i is LIVE");
    if (i >= 0 && (size_t)i < c10_cap)
        __CPROVER_assert(igris_pool_cell(&p, i) == (void *)C10_CELL(i), "cell(i) == zone + i*elemsz");
    uchar post[C10_CAPMAX + 1];
    int n = c10_walk(&p.head, post);
    __CPROVER_assert(n == (int)nfree && c10_zone[b] == old_b && p._count == (int)nfree, "queries write nothing");
    CANARY("igris_pool_query end reachable");
}
