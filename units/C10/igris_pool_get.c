/*@unit {
 'kind': 'bounded', 'mode': 'plain',
 'bound': 'capacity CAP in 1..6 cells (every free-list order and LIVE subset generated symbolically), element size 8 or 24 (thorough: 8,16,24,40); inductive in history; unwind 8 is complete (unwinding assertions)',
 'functions': ['igris::pool::get', 'igris::pool::room', 'igris::pool::avail', 'igris::pool::size', 'pool_alloc'],
 'extract': 'units/C10/pool_extract.py',
 'clauses': 'igris::pool::get() from any state satisfying POOL and room() == avail(): returns NULL iff no cell is free, otherwise a cell of the zone that was free (not LIVE); POOL re-established; room() == avail() == capacity - |LIVE\'| afterwards (the free count always equals capacity minus live blocks); no zone byte written',
 'params': {'ELEMSZ': [8, 24], 'CAP': [1, 2, 3, 4, 5, 6]}, 'params_thorough': {'ELEMSZ': [8, 16, 24, 40]},
 'unwind': 8, 'complete_unwinding': 'walks bounded by the capacity <= 6',
 'kf': ['C10_pool_get_empty_count'], 'kf_probe_case': {'C10_pool_get_empty_count': {'CAP': 2, 'ELEMSZ': 8}},
 'witness': {'unwind': 8},
} @*/
#include "vc.h"
#include "cxx/pool_c.c"
#include "c10_pool.h"

void harness(void)
{
    struct igris_pool p;
    WIT(uchar, nfree); WIT_ARR(uchar, order, C10_CAPMAX); WIT(size_t, b);
    WIT_ARR(char, content, 6);
    C10_STATE_ASSUME(order, nfree);
    /* known finding C10_pool_get_empty_count: get() on an exhausted pool */
    __CPROVER_assume(KF_C10_pool_get_empty_count == 0 ? 1 : KF_C10_pool_get_empty_count == 1 ? nfree != 0 : nfree == 0);
    size_t zsz = c10_cap * c10_elemsz;
    c10_zone = NEW_OBJ(zsz);
    FILL(c10_zone, 0, content);
    p._zone = c10_zone; p._size = zsz; p._elemsz = c10_elemsz; p._count = nfree;
    c10_link(&p.head);
    __CPROVER_assume(zsz == 0 || b < zsz);
    char old_b = zsz ? c10_zone[b] : 0;

    void *r = igris_pool_get(&p);

    uchar post[C10_CAPMAX + 1];
    int n = c10_walk(&p.head, post);
    __CPROVER_assert((r == NULL) == (nfree == 0), "get: NULL iff no cell is free");
    if (r) {
        __CPROVER_assert(c10_is_cell(r), "get: result is a cell of the zone");
        __CPROVER_assert(c10_free0(c10_cell_index(r)), "get: result was free, i.e. overlaps no live block");
        __CPROVER_assert(!c10_in(post, n, c10_cell_index(r)), "get: result is off the free list");
    }
    size_t live_after = (c10_cap - nfree) + (r ? 1 : 0);
    __CPROVER_assert(n >= 0 && (size_t)n == c10_cap - live_after, "get: POOL re-established, |free| == capacity - |LIVE'|");
    __CPROVER_assert(igris_pool_avail(&p) == c10_cap - live_after, "get: avail() == capacity - live");
    __CPROVER_assert(igris_pool_room(&p) == c10_cap - live_after, "get: room() == capacity - live");
    __CPROVER_assert(igris_pool_size(&p) == c10_cap && p._zone == c10_zone && p._size == zsz, "get: geometry unchanged");
    __CPROVER_assert(zsz == 0 || c10_zone[b] == old_b, "get: no byte of the zone is written");
    CANARY("igris_pool_get end reachable");
}
