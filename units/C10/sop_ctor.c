/*@unit {
 'kind': 'bounded', 'mode': 'plain',
 'bound': 'Capacity (template parameter) 1..6, one run each; T = C10_T (16 bytes, ghost lifetime state of spec/elem_lifetime.h); unwind 8 is complete (unwinding assertions)',
 'functions': ['igris::static_object_pool::static_object_pool', 'igris::static_object_pool::avail', 'pool_init', 'pool_engage'],
 'extract': 'units/C10/pool_extract.py',
 'clauses': 'the constructor establishes the precondition of pool_engage (size == Capacity * sizeof(storage_type), sizeof(storage_type) >= sizeof(slist_head) and a multiple of its alignment - also static_asserted) and ends in a state satisfying POOL with all Capacity cells free, LIVE empty, avail() == Capacity; every cell is raw storage (no object alive); writes stay inside the storage array',
 'params': {'SOP_CAP': [1, 2, 3, 4, 5, 6]}, 'defines': ['ELEMSZ=16', 'CAP=SOP_CAP'],
 'inject': [{'file': 'overlay:cxx/sop_c.c', 'func': 'static_object_pool_ctor', 'at': 'before', 'anchor': 'pool_engage(&self->head, (void *)self->storage, SOP_CAP * sizeof(struct sop_storage_type), sizeof(struct sop_storage_type));',
             'ghost': '__CPROVER_assert(spec_c10_elemsz_ok(sizeof(struct sop_storage_type)) && sizeof(self->storage) == SOP_CAP * sizeof(struct sop_storage_type), "static_object_pool ctor establishes the precondition of pool_engage");'}],
 'unwind': 8, 'complete_unwinding': 'pool_engage pushes Capacity <= 6 cells; walks bounded by the capacity',
 'trusted': ['glue of the recipe: data layout of static_object_pool / storage_type written out in C (constexpr members, std::array, alignas are outside the cxx2c rule set)'],
 'native_cxx_probes': [{'file': 'units/C10/sop_layout_probe.cpp', 'what': 'cell layout of static_object_pool<T,3> for T = alignas(16), alignas(32), 1-byte, 41-byte, long double: size and alignment of a cell suffice for T and for the free-list link, cells tile the array'}],
 'witness': {'unwind': 8},
} @*/
#include "vc.h"
#define spec_c10_elemsz_ok(e) ((e) >= sizeof(struct slist_head) && (e) % _Alignof(struct slist_head) == 0)
#include "cxx/pool_c.c"
#include "cxx/sop_c.c"
#include "c10_pool.h"
_Static_assert(sizeof(struct sop_storage_type) == ELEMSZ, "unit parameter ELEMSZ is sizeof(storage_type)");

void harness(void)
{
    struct static_object_pool sop;     /* uninitialised storage: arbitrary bytes */
    WIT(uchar, k);
    static_object_pool_ctor(&sop);
    c10_zone = (char *)sop.storage;
    uchar post[C10_CAPMAX + 1];
    int n = c10_walk(&sop.head, post);
    __CPROVER_assert(n == SOP_CAP, "ctor: POOL holds with every cell on the free list, LIVE empty");
    for (int i = 0; i < C10_CAPMAX; i++)
        if (i < n) __CPROVER_assert(post[i] == SOP_CAP - 1 - i, "ctor: each cell exactly once");
    __CPROVER_assert(static_object_pool_avail(&sop) == SOP_CAP, "ctor: avail() == Capacity");
    __CPROVER_assume(k < SOP_CAP);
    __CPROVER_assert(((C10_T *)C10_CELL(k))->e.g_state == ELEM_RAW, "ctor: every cell is raw storage (no object alive)");
    CANARY("sop_ctor end reachable");
}
