/*@unit {
 'kind': 'bounded', 'mode': 'plain',
 'bound': 'capacity <= 6 cells (every free-list length and order, every LIVE subset generated symbolically; element size from {8,24}, thorough tier {8,16,24,40}; one run per capacity 0..6 and element size: the zone is an exact-size object); inductive in history: the pre-state is ANY state satisfying POOL, unwind 8 is complete for this capacity (unwinding assertions)',
 'functions': ['pool_alloc', 'slist_empty', 'slist_pop_first'],
 'extract': 'units/C10/pool_extract.py',
 'clauses': 'pool_alloc from any state satisfying POOL: returns NULL iff the free list is empty (i.e. iff |LIVE| == capacity: exactly the capacity is handed out before null); otherwise the result is a cell of the zone (inside, at a multiple of elemsz), was on the free list, is not in LIVE (overlaps no live block); POOL is re-established with free\' = free \\ {result} (order kept), LIVE\' = LIVE + {result}; no byte of a LIVE cell and no byte of the zone outside link fields is written (ghost byte index)',
 'params': {'ELEMSZ': [8, 24], 'CAP': [0, 1, 2, 3, 4, 5, 6]}, 'params_thorough': {'ELEMSZ': [8, 16, 24, 40]},
 'unwind': 8, 'complete_unwinding': 'all loops are spec loops over the capacity bound C10_CAPMAX = 6',
 'witness': {'unwind': 8},
} @*/
#include "vc.h"
#include "cxx/pool_c.c"
#include "c10_pool.h"

void harness(void)
{
    struct pool_head pool;
    WIT(uchar, nfree); WIT_ARR(uchar, order, C10_CAPMAX); WIT(size_t, b);
    WIT_ARR(char, content, 6);
    C10_STATE_ASSUME(order, nfree);
    c10_zone = NEW_OBJ(c10_cap * c10_elemsz);
    FILL(c10_zone, 0, content);
    c10_link(&pool);
    /* ghost byte: any byte of the zone */
    size_t zsz = c10_cap * c10_elemsz;
    __CPROVER_assume(zsz == 0 || b < zsz);
    char old_b = zsz ? c10_zone[b] : 0;

    void *r = pool_alloc(&pool);

    uchar post[C10_CAPMAX + 1];
    int n = c10_walk(&pool, post);
    __CPROVER_assert((r == NULL) == (nfree == 0), "pool_alloc: NULL iff the free list is empty (capacity - |LIVE| == 0)");
    if (r) {
        __CPROVER_assert(c10_is_cell(r), "pool_alloc: result is a cell of the zone (inside the arena, at a multiple of elemsz)");
        size_t ri = c10_cell_index(r);
        __CPROVER_assert(c10_free0(ri) && !C10_LIVE0(ri), "pool_alloc: result was on the free list, i.e. is not a live block");
        __CPROVER_assert(n == (int)nfree - 1, "pool_alloc: POOL re-established, |free| decreases by exactly one");
        __CPROVER_assert(!c10_in(post, n, ri), "pool_alloc: result is no longer on the free list");
        for (int k = 0; k < C10_CAPMAX; k++)
            if (k < n) __CPROVER_assert(post[k] == c10_order[k + 1], "pool_alloc: the rest of the free list is unchanged");
        __CPROVER_assert(pool_avail(&pool) == c10_cap - (c10_cap - nfree + 1), "pool_alloc: avail == capacity - |LIVE'|");
    } else {
        __CPROVER_assert(n == 0, "pool_alloc: empty pool stays a well-formed empty pool");
    }
    __CPROVER_assert(zsz == 0 || c10_zone[b] == old_b, "pool_alloc: writes no byte of the zone (live blocks stay untouched)");
    CANARY("pool_alloc end reachable");
}
