/*@unit {
 'kind': 'proof', 'mode': 'dfcc', 'enforce': 'hlist_head_init',
 'functions': ['hlist_head_init'],
 'clauses': 'contract form (contracts/c01_list_contracts.h, is_fresh footprint with aliasing disjunctions, cbmc-checked assigns clause): first == NULL, returns the head',
} @*/
#include "vc.h"
#include "c01_list_contracts.h"

void harness(void)
{
    struct hlist_head *a;
    hlist_head_init(a);
    CANARY("hlist_head_init returns");
}
