/*@unit {
 'kind': 'proof', 'mode': 'plain', 'solver': 'kissat',
 'functions': ['igris::dlist_node::move_prev_than', 'igris::dlist_node::move_next_than', 'dlist_base::move_prev', 'dlist_base::move_next', 'igris::dlist_node::unlink'],
 'extract': 'units/C01/cxx_dlist_extract.py',
 'params': {'OP': [0, 1]},
 'kf': ['C01_cxx_move_self'],
 'clauses': 'C++ intrusive node (extracted), rings of any length: x.move_prev_than(y) [OP 0] / x.move_next_than(y) [OP 1] = std::list::splice of one element: x (linked anywhere - same ring, other '
            'ring, adjacent to y on either side - or unlinked) ends up directly before / after y, its old neighbours are joined, moving a node next to itself or to the position it already has '
            'leaves every link unchanged; only the link fields of x, its old neighbours, y and y\'s old neighbour change; LINKED at x afterwards; every other linked node stays linked',
 'witness': {'unwind': 14},
} @*/
#include "vc.h"
#include "cxx/dlist_cxx.c"
#define C01_NODE_T struct dlist_node
#define C01_K 8   /* x, P, N, y, y's neighbour, ghost and its two neighbours */
#include "c01_pool.h"

void harness(void)
{
    WIT_ARR(uchar, nx, C01_K);
    WIT_ARR(uchar, pv, C01_K);
    WIT(uchar, x);
    WIT(uchar, y);
    WIT(uchar, g);
    C01_POOL(nx, pv);
    __CPROVER_assume(LINKED0(x));
    __CPROVER_assume(LINKED0(g));
    uchar P = c01_pv[x], N = c01_nx[x];
    struct dlist_base owner;
    /* known finding: moving a LINKED node relative to itself drops it from its ring */
    __CPROVER_assume(KF_C01_cxx_move_self == 0 ? 1 : KF_C01_cxx_move_self == 1 ? !(x == y && !SELF0(x)) : (x == y && !SELF0(x)));
#if OP == 0
    __CPROVER_assume(VALID0(y) && VALID0(c01_pv[y]) && c01_nx[c01_pv[y]] == y);    /* y->prev->next == y */
    uchar HP = c01_pv[y];
    uchar S = HP == x ? P : HP;               /* predecessor of y once x is taken out */
    dlist_base_move_prev(&owner, N_(x), N_(y));
    if (x == y || y == N) {
        c01_unchanged();                      /* splice(pos, l, it) with pos == it or pos == next(it): no-op */
    } else {
        __CPROVER_assert(N_(y)->prev == N_(x) && N_(x)->next == N_(y), "move_prev_than: x directly precedes y");
        __CPROVER_assert(N_(x)->prev == N_(S) && N_(S)->next == N_(x), "move_prev_than: the old predecessor of y precedes x");
        if (P != x)
            __CPROVER_assert(N_(P)->next == N_(N) && N_(N)->prev == N_(P), "move_prev_than: old neighbours of x are joined");
        c01_frame(BIT(x) | BIT(S) | BIT(P), BIT(x) | BIT(y) | BIT(N));
    }
#else
    __CPROVER_assume(VALID0(y) && VALID0(c01_nx[y]) && c01_pv[c01_nx[y]] == y);    /* y->next->prev == y */
    uchar HN = c01_nx[y];
    uchar S = HN == x ? N : HN;               /* successor of y once x is taken out */
    dlist_base_move_next(&owner, N_(x), N_(y));
    if (x == y || y == P) {
        c01_unchanged();
    } else {
        __CPROVER_assert(N_(y)->next == N_(x) && N_(x)->prev == N_(y), "move_next_than: x directly follows y");
        __CPROVER_assert(N_(x)->next == N_(S) && N_(S)->prev == N_(x), "move_next_than: the old successor of y follows x");
        if (P != x)
            __CPROVER_assert(N_(P)->next == N_(N) && N_(N)->prev == N_(P), "move_next_than: old neighbours of x are joined");
        c01_frame(BIT(x) | BIT(y) | BIT(P), BIT(x) | BIT(S) | BIT(N));
    }
#endif
    __CPROVER_assert(c01_linked(N_(x)), "LINKED(x) afterwards");
    __CPROVER_assert(c01_linked(N_(g)), "every linked node is still linked");
    CANARY("cxx_node_move end reachable");
}
