/*@unit {
 'kind': 'proof', 'mode': 'dfcc', 'enforce': 'slist_pop_first',
 'functions': ['slist_pop_first'],
 'clauses': 'contract form (contracts/c01_list_contracts.h, is_fresh footprint with aliasing disjunctions, cbmc-checked assigns clause): NULL and no change on an empty list; otherwise returns the old first node, head->next == its successor, writes exactly head.next',
} @*/
#include "vc.h"
#include "c01_list_contracts.h"

void harness(void)
{
    struct slist_head *a;
    slist_pop_first(a);
    CANARY("slist_pop_first returns");
}
