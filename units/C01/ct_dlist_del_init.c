/*@unit {
 'kind': 'proof', 'mode': 'dfcc', 'enforce': 'dlist_del_init',
 'functions': ['dlist_del_init'],
 'clauses': 'contract form (contracts/c01_list_contracts.h, is_fresh footprint with aliasing disjunctions, cbmc-checked assigns clause): erase from a ring of 1 or >= 3 nodes (2-element ring: see dl_del_init): neighbours joined, node self-linked, writes exactly entry.next, entry.prev, P.next, N.prev',
} @*/
#include "vc.h"
#include "c01_list_contracts.h"

void harness(void)
{
    struct dlist_head *a;
    dlist_del_init(a);
    CANARY("dlist_del_init returns");
}
