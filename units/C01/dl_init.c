/*@unit {
 'kind': 'proof', 'mode': 'plain', 'solver': 'kissat',
 'functions': ['dlist_init', 'dlist_empty', 'dlist_is_linked'],
 'clauses': 'dlist_init(h): h becomes self-linked (empty head / unlinked node), only h.next and h.prev change, accesses confined to h (all its old links may be invalid pointers); afterwards dlist_empty(h) and !dlist_is_linked(h); any linked node whose ring h is not a member of stays linked',
 'assumptions': ['dlist_init is applied to a node that is not a member of a ring (header comment of dlist_init: used before all other operations on the head)'],
 'witness': {'unwind': 14},
} @*/
#define C01_K 4   /* h, ghost, ghost->next, ghost->prev */
#include "c01_pool.h"

void harness(void)
{
    WIT_ARR(uchar, nx, C01_K);
    WIT_ARR(uchar, pv, C01_K);
    WIT(uchar, x);
    WIT(uchar, g);
    C01_POOL(nx, pv);
    __CPROVER_assume(VALID0(x));
    __CPROVER_assume(LINKED0(g) && NOTNEIGH0(x, g));   /* third party; x is not a member of its ring */

    dlist_init(N_(x));

    __CPROVER_assert(N_(x)->next == N_(x) && N_(x)->prev == N_(x), "dlist_init: node is self-linked");
    __CPROVER_assert(c01_linked(N_(x)), "dlist_init: LINKED(h) holds");
    c01_frame(BIT(x), BIT(x));
    __CPROVER_assert(dlist_empty(N_(x)) && !dlist_is_linked(N_(x)), "dlist_init: dlist_empty / !dlist_is_linked agree with the self-link");
    c01_frame(BIT(x), BIT(x));
    __CPROVER_assert(c01_linked(N_(g)), "dlist_init: every linked node of another ring is still linked");
    CANARY("dl_init end reachable");
}
