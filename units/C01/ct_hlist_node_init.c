/*@unit {
 'kind': 'proof', 'mode': 'dfcc', 'enforce': 'hlist_node_init',
 'functions': ['hlist_node_init'],
 'clauses': 'contract form (contracts/c01_list_contracts.h, is_fresh footprint with aliasing disjunctions, cbmc-checked assigns clause): pprev == NULL, returns the node',
} @*/
#include "vc.h"
#include "c01_list_contracts.h"

void harness(void)
{
    struct hlist_node *a;
    hlist_node_init(a);
    CANARY("hlist_node_init returns");
}
