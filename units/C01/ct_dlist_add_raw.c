/*@unit {
 'kind': 'proof', 'mode': 'dfcc', 'enforce': '__dlist_add',
 'functions': ['__dlist_add'],
 'clauses': 'contract form (contracts/c01_list_contracts.h, is_fresh footprint with aliasing disjunctions, cbmc-checked assigns clause): four-pointer splice between prev and next (prev==next admitted), writes exactly lnk.next, lnk.prev, next.prev, prev.next',
} @*/
#include "vc.h"
#include "c01_list_contracts.h"

void harness(void)
{
    struct dlist_head *a, *b, *c;
    __dlist_add(a, b, c);
    CANARY("__dlist_add returns");
}
