/*@unit {
 'kind': 'proof', 'mode': 'plain', 'solver': 'kissat',
 'functions': ['dlist_insert_instead', 'dlist_add_prev', 'dlist_del_init', '__dlist_add', '__dlist_del', 'dlist_init'],
 'clauses': 'replace node `instead` by `iter` in a ring of any length: iter takes the place between the old neighbours P,N of instead (ring of one: iter becomes a ring of one), instead is self-linked afterwards; only iter.next, iter.prev, instead.next, instead.prev, P.next, N.prev change; LINKED at every touched node; any other linked node stays linked and no longer points at instead; accesses confined to iter, instead, P, N',
 'assumptions': ['dlist_add*: lnk is not a member of a ring other than its own singleton ring (no other ring member points at it) - inserting a still-linked node is the documented misuse of the C API; re-insertion of linked nodes is covered by dlist_move*'],
 'witness': {'unwind': 14},
} @*/
#define C01_K 7   /* iter, instead, P, N, ghost and its two neighbours */
#include "c01_pool.h"

void harness(void)
{
    WIT_ARR(uchar, nx, C01_K);
    WIT_ARR(uchar, pv, C01_K);
    WIT(uchar, x);   /* iter */
    WIT(uchar, y);   /* instead */
    WIT(uchar, g);
    C01_POOL(nx, pv);
    __CPROVER_assume(VALID0(x) && LINKED0(y));
    uchar P = c01_pv[y], N = c01_nx[y];
    __CPROVER_assume(LINKED0(g));
    __CPROVER_assume(NOTNEIGH0(x, y) && NOTNEIGH0(x, P) && NOTNEIGH0(x, N) && NOTNEIGH0(x, g));

    dlist_insert_instead(N_(x), N_(y));

    uchar EP = P == y ? x : P, EN = N == y ? x : N;
    __CPROVER_assert(N_(x)->prev == N_(EP) && N_(EP)->next == N_(x), "dlist_insert_instead: iter follows the old predecessor of instead");
    __CPROVER_assert(N_(x)->next == N_(EN) && N_(EN)->prev == N_(x), "dlist_insert_instead: the old successor of instead follows iter");
    __CPROVER_assert(c01_self(N_(y)), "dlist_insert_instead: the replaced node is self-linked");
    c01_frame(BIT(x) | BIT(y) | BIT(P), BIT(x) | BIT(y) | BIT(N));
    __CPROVER_assert(c01_linked(N_(x)) && c01_linked(N_(y)), "dlist_insert_instead: LINKED(iter), LINKED(instead)");
    __CPROVER_assert(c01_linked(N_(g)), "dlist_insert_instead: every linked node is still linked");
    if (g != y)
        __CPROVER_assert(N_(g)->next != N_(y) && N_(g)->prev != N_(y), "dlist_insert_instead: replaced node is reachable from no other linked node");
    CANARY("dl_insert_instead end reachable");
}
