/*@unit {
 'kind': 'bounded', 'mode': 'plain', 'solver': 'kissat',
 'bound': 'pool of 5 nodes and 2 heads with symbolic topology satisfying the hlist invariant everywhere; unwind 8 is complete for these sizes (unwinding assertions)',
 'functions': ['hlist_add_next', 'hlist_del', 'hlist_for_each', 'hlist_for_each_entry', 'hlist_first_entry', 'hlist_next_entry', 'hlist_entry', 'mcast_out'],
 'clauses': 'sequence level: after hlist_add_next(x, slot) (slot = &head->first: push front, or &y->next: insert after y) or hlist_del(x), the real hlist_for_each from any observed head yields exactly the reference array list (insert / erase), and so does hlist_for_each_entry (entry type with the link member at a non-zero offset) under the flat address arithmetic of cbmc / unoptimised code - see hl_entry_null for the null-pointer arithmetic it performs at the end of the chain',
 'params': {'OP': [0, 1]},
 'unwind': 8,
 'defines': ['C01H_ENTRY', 'C01_KN=5', 'C01_KH=2'],
 'assumptions': ['hlist_add_next: the node is not a member of a chain (no chain node or head points at it) - same documented misuse as dlist_add on a linked node'],
 'witness': {'unwind': 8},
} @*/
#include "c01_hpool.h"

C01_NO_UBSAN_NULL void harness(void)
{
    WIT_ARR(uchar, nx, C01_KN);
    WIT_ARR(uchar, pp, C01_KN);
    WIT_ARR(uchar, first, C01_KH);
    WIT(uchar, x);
    WIT(uchar, s);
    WIT(uchar, h);
    C01H_POOL(nx, pp, first);
    __CPROVER_assume(HVALID0(x) && h < C01_KH);
    /* representation invariant everywhere; for the insertion x is a node outside every chain */
    for (uchar k = 0; k < C01_KH; k++)
        __CPROVER_assume(HHEADOK0(k) && (OP != 0 || c01h_first[k] != x));
    for (uchar i = 0; i < C01_KN; i++)
        __CPROVER_assume(OP == 0 ? (i == x || (HLINKED0(i) && c01h_nx[i] != x && c01h_pp[i] != x)) : HLINKED0(i));

    /* reference sequence seen from head h */
    uchar e[C01_KN + 1];
    int len = 0;
    uchar i = c01h_first[h];
    for (int t = 0; t < C01_KN && i != HN_NULL; t++) {
        e[len++] = i;
        i = c01h_nx[i];
    }
    __CPROVER_assert(i == HN_NULL, "spec sanity: a well-formed chain ends within the pool size");

#if OP == 0
    __CPROVER_assume(HSVALID0(s) && s != x);
    /* position of the slot in the observed chain: front, after element j, or in another chain */
    int at = -1;
    if (s == C01_KN + h)
        at = 0;
    for (int j = 0; j < C01_KN; j++)
        if (j < len && e[j] == s)
            at = j + 1;
    if (at >= 0) {
        for (int j = C01_KN - 1; j > 0; j--)
            if (j > at && j <= len) e[j] = e[j - 1];
        e[at] = x;
        len++;
    }
    hlist_add_next(HN_(x), HS_(s));
#else
    int p = -1;
    for (int j = 0; j < C01_KN; j++)
        if (j < len && e[j] == x) p = j;
    if (p >= 0) {
        for (int j = 0; j < C01_KN; j++)
            if (j >= p && j + 1 < len) e[j] = e[j + 1];
        len--;
    }
    hlist_del(HN_(x));
#endif

    struct hlist_node *it;
    int k = 0;
    hlist_for_each(it, HH_(h))
    {
        __CPROVER_assert(k < len && it == HN_(e[k]), "hlist_for_each yields the reference sequence");
        k++;
    }
    __CPROVER_assert(k == len, "hlist_for_each yields the whole reference sequence");
    struct c01_hentry *pos;
    k = 0;
    hlist_for_each_entry(pos, HH_(h), lnk)
    {
        __CPROVER_assert(k < len && &pos->lnk == HN_(e[k]), "hlist_for_each_entry yields the reference sequence");
        k++;
    }
    __CPROVER_assert(k == len, "hlist_for_each_entry yields the whole reference sequence");
    for (uchar j = 0; j < C01_KN; j++)
        __CPROVER_assert((OP == 1 && j == x) || c01h_linked(HN_(j)), "hlist invariant holds at every node afterwards");
    for (uchar j = 0; j < C01_KH; j++)
        __CPROVER_assert(c01h_headok(HH_(j)), "every head is well-formed afterwards");
    CANARY("hl_seq end reachable");
}
