/*@unit {
 'kind': 'proof', 'mode': 'dfcc', 'enforce': 'slist_empty',
 'functions': ['slist_empty'],
 'clauses': 'contract form (contracts/c01_list_contracts.h, is_fresh footprint with aliasing disjunctions, cbmc-checked assigns clause): slist_empty == (head->next == head), pure',
} @*/
#include "vc.h"
#include "c01_list_contracts.h"

void harness(void)
{
    struct slist_head *a;
    slist_empty(a);
    CANARY("slist_empty returns");
}
