/*@unit {
 'kind': 'proof', 'mode': 'plain',
 'functions': ['mcast_out', 'mcast_in', 'mcast_out_or_null', 'mcast_in_or_null', 'member_offsetof', 'dlist_entry', 'slist_entry', 'hlist_entry',
               'dlist_first_entry', 'dlist_last_entry', 'dlist_next_entry', 'dlist_prev_entry'],
 'clauses': 'container-of arithmetic: for an entry e at a symbolic position of an array and each of its link members m (offsets 0, 8, 40, 56): member_offsetof == offsetof, mcast_out(&e->m) == e (same object, inside the array), mcast_in / mcast_out are inverse, the _or_null forms map NULL to NULL, dlist_entry / slist_entry / hlist_entry and the dlist first/last/next/prev_entry macros return the entry that contains the link the node points at',
 'witness': {'unwind': 4},
} @*/
#include "vc.h"
#include "c01_dprint_stub.h"
#include <igris/util/member.h>
#include <igris/datastruct/dlist.h>
#include <igris/datastruct/slist.h>
#include <igris/datastruct/hlist.h>
#ifdef REPLAY   /* see c01_pool.h: member_offsetof trips UBSan's `null` group on every use */
#define C01_NO_UBSAN_NULL __attribute__((no_sanitize("null")))
#else
#define C01_NO_UBSAN_NULL
#endif

struct ent {
    struct slist_head s0;    /* offset 0 */
    struct dlist_head d1;    /* 8 */
    char c;
    long k;
    struct hlist_node h2;    /* 40 */
    struct dlist_head d3;    /* 56 */
    int tail;
};

C01_NO_UBSAN_NULL void harness(void)
{
    WIT(uchar, i);
    WIT(uchar, j);
    __CPROVER_assume(i < 4 && j < 4);
    static struct ent arr[4];
    struct ent *e = &arr[i], *f = &arr[j];

    __CPROVER_assert(member_offsetof(struct ent, s0) == offsetof(struct ent, s0) && member_offsetof(struct ent, d1) == offsetof(struct ent, d1) &&
                     member_offsetof(struct ent, h2) == offsetof(struct ent, h2) && member_offsetof(struct ent, d3) == offsetof(struct ent, d3),
                     "member_offsetof agrees with offsetof");
    __CPROVER_assert(mcast_out(mcast_in(e, s0), struct ent, s0) == e && slist_entry(&e->s0, struct ent, s0) == e, "mcast_out inverts mcast_in (offset 0)");
    __CPROVER_assert(mcast_out(mcast_in(e, d1), struct ent, d1) == e && dlist_entry(&e->d1, struct ent, d1) == e, "mcast_out inverts mcast_in (dlist member)");
    __CPROVER_assert(mcast_out(mcast_in(e, h2), struct ent, h2) == e && hlist_entry(&e->h2, struct ent, h2) == e, "mcast_out inverts mcast_in (hlist member)");
    struct ent *r = mcast_out(&e->d3, struct ent, d3);
    __CPROVER_assert(r == e && __CPROVER_same_object(r, arr) && __CPROVER_POINTER_OFFSET(r) == __CPROVER_POINTER_OFFSET(e), "mcast_out stays inside the array, at the entry");
    __CPROVER_assert(mcast_in(r, d3) == &e->d3, "mcast_in inverts mcast_out");
    r->k = 7;                                      /* the result is usable: in bounds */
    __CPROVER_assert(e->k == 7, "the entry reached through mcast_out is the entry");
    __CPROVER_assert(mcast_out_or_null((struct dlist_head *)NULL, struct ent, d3) == NULL && mcast_out_or_null(&e->d3, struct ent, d3) == e, "mcast_out_or_null: NULL -> NULL, otherwise mcast_out");
    __CPROVER_assert(mcast_in_or_null((struct ent *)NULL, d3) == NULL && mcast_in_or_null(e, d3) == &e->d3, "mcast_in_or_null: NULL -> NULL, otherwise mcast_in");

    /* entry macros on a two-element ring head -> e -> f (head a bare dlist_head) */
    if (i != j) {
        struct dlist_head head;
        dlist_init(&head);
        dlist_add_prev(&e->d3, &head);
        dlist_add_prev(&f->d3, &head);
        __CPROVER_assert(dlist_first_entry(&head, struct ent, d3) == e && dlist_last_entry(&head, struct ent, d3) == f, "dlist_first_entry / dlist_last_entry");
        __CPROVER_assert(dlist_next_entry(e, d3) == f && dlist_prev_entry(f, d3) == e, "dlist_next_entry / dlist_prev_entry");
    }
    CANARY("mcast end reachable");
}
