/*@unit {
 'kind': 'proof', 'mode': 'dfcc', 'enforce': '__dlist_del',
 'functions': ['__dlist_del'],
 'clauses': 'contract form (contracts/c01_list_contracts.h, is_fresh footprint with aliasing disjunctions, cbmc-checked assigns clause): prev and next joined (prev==next admitted), writes exactly next.prev, prev.next',
} @*/
#include "vc.h"
#include "c01_list_contracts.h"

void harness(void)
{
    struct dlist_head *a, *b;
    __dlist_del(a, b);
    CANARY("__dlist_del returns");
}
