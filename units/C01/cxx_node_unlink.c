/*@unit {
 'kind': 'proof', 'mode': 'plain', 'solver': 'kissat',
 'functions': ['igris::dlist_node::unlink', 'igris::dlist_node::~dlist_node', 'igris::dlist_node::dlist_node()', 'dlist_node::is_linked', 'dlist_node::is_unlinked', 'dlist_node::empty',
               'dlist_base::pop_node'],
 'extract': 'units/C01/cxx_dlist_extract.py',
 'params': {'OP': [0, 1, 2]},
 'clauses': 'C++ intrusive node (extracted to C mechanically), rings of any length (pool form of spec/c01_pool.h): unlink() [OP 0], the destructor [OP 1] and dlist_base::pop_node [OP 2] of a '
            'linked node join its old neighbours, leave the node self-linked (so it is reachable from no list and unlinking / destroying it again is harmless: second call changes '
            'nothing), change only x.next, x.prev, P.next, N.prev, keep every other linked node linked; on an unlinked (self-linked) node they change nothing; a constructed node is self-linked',
 'witness': {'unwind': 14},
} @*/
#include "vc.h"
#include "cxx/dlist_cxx.c"
#define C01_NODE_T struct dlist_node
#define C01_K 6   /* x, P, N, ghost and its two neighbours */
#include "c01_pool.h"

void harness(void)
{
    WIT_ARR(uchar, nx, C01_K);
    WIT_ARR(uchar, pv, C01_K);
    WIT(uchar, x);
    WIT(uchar, g);
    C01_POOL(nx, pv);
    __CPROVER_assume(LINKED0(x));          /* covers the self-linked (unlinked) node: LINKED holds trivially there */
    __CPROVER_assume(LINKED0(g));
    uchar P = c01_pv[x], N = c01_nx[x];
    int was_linked = !SELF0(x);
    __CPROVER_assert(dlist_node_is_linked(N_(x)) == was_linked && dlist_node_is_unlinked(N_(x)) == !was_linked && dlist_node_empty(N_(x)) == !was_linked,
                     "is_linked / is_unlinked / empty agree with the reference");
    struct dlist_base owner;               /* pop_node does not touch its list object */
#if OP == 0
    dlist_node_unlink(N_(x));
#elif OP == 1
    dlist_node_dtor(N_(x));
#else
    dlist_base_pop_node(&owner, N_(x));
#endif
    __CPROVER_assert(c01_self(N_(x)), "removed node is self-linked");
    if (was_linked) {
        __CPROVER_assert(N_(P)->next == N_(N) && N_(N)->prev == N_(P), "old neighbours of x are joined: x is reachable from no list");
        c01_frame(BIT(x) | BIT(P), BIT(x) | BIT(N));
    } else {
        c01_unchanged();
    }
    __CPROVER_assert(g == x || c01_linked(N_(g)), "every other linked node is still linked");
    /* removing it again is harmless */
    c01_snapshot();
#if OP == 1
    dlist_node_dtor(N_(x));
#else
    dlist_node_unlink(N_(x));
#endif
    c01_unchanged();
    /* a freshly constructed node */
    struct dlist_node fresh;
    dlist_node_nsdmi(&fresh); dlist_node_ctor(&fresh);
    __CPROVER_assert(fresh.next == &fresh && fresh.prev == &fresh && !dlist_node_is_linked(&fresh), "a constructed node is self-linked");
    CANARY("cxx_node_unlink end reachable");
}
