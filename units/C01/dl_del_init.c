/*@unit {
 'kind': 'proof', 'mode': 'plain', 'solver': 'kissat',
 'functions': ['dlist_del_init', '__dlist_del', 'dlist_init', 'dlist_empty', 'dlist_is_linked'],
 'clauses': 'erase(entry) in a ring of any length: requires LINKED(entry) only; old neighbours joined; entry self-linked afterwards (dlist_empty, !dlist_is_linked); only entry.next, entry.prev, P.next, N.prev change; any other linked node stays linked and no longer points at entry; lemma: a second dlist_del_init(entry) changes nothing (removing it again is harmless)',
 'witness': {'unwind': 14},
} @*/
#define C01_K 6   /* entry, P, N, ghost and its two neighbours */
#include "c01_pool.h"

void harness(void)
{
    WIT_ARR(uchar, nx, C01_K);
    WIT_ARR(uchar, pv, C01_K);
    WIT(uchar, x);
    WIT(uchar, g);
    C01_POOL(nx, pv);
    __CPROVER_assume(LINKED0(x));
    __CPROVER_assume(LINKED0(g));
    uchar P = c01_pv[x], N = c01_nx[x];

    dlist_del_init(N_(x));

    __CPROVER_assert(c01_self(N_(x)), "dlist_del_init: removed node is self-linked");
    __CPROVER_assert(dlist_empty(N_(x)) && !dlist_is_linked(N_(x)), "dlist_del_init: dlist_empty / !dlist_is_linked on the removed node");
    if (P != x) {
        __CPROVER_assert(N_(P)->next == N_(N) && N_(N)->prev == N_(P), "dlist_del_init: old neighbours are joined");
    }
    c01_frame(BIT(x) | BIT(P), BIT(x) | BIT(N));
    __CPROVER_assert(c01_linked(N_(g)), "dlist_del_init: every linked node (the removed one included: self-linked) is linked");
    if (g != x)
        __CPROVER_assert(N_(g)->next != N_(x) && N_(g)->prev != N_(x), "dlist_del_init: removed node is reachable from no other linked node");

    /* lemma: removing it again is harmless */
    c01_snapshot();
    dlist_del_init(N_(x));
    c01_unchanged();
    __CPROVER_assert(c01_self(N_(x)) && c01_linked(N_(g)), "second dlist_del_init: still self-linked, third party still linked");
    CANARY("dl_del_init end reachable");
}
