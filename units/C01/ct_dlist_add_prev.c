/*@unit {
 'kind': 'proof', 'mode': 'dfcc', 'enforce': 'dlist_add_prev',
 'functions': ['dlist_add_prev'],
 'clauses': 'contract form (contracts/c01_list_contracts.h, is_fresh footprint with aliasing disjunctions, cbmc-checked assigns clause): insert before head (empty head admitted), writes exactly lnk.next, lnk.prev, head.prev, P.next',
} @*/
#include "vc.h"
#include "c01_list_contracts.h"

void harness(void)
{
    struct dlist_head *a, *b;
    dlist_add_prev(a, b);
    CANARY("dlist_add_prev returns");
}
