/*@unit {
 'kind': 'proof', 'mode': 'plain', 'solver': 'kissat',
 'functions': ['dlist_empty', 'dlist_is_linked', 'DLIST_HEAD', 'DLIST_HEAD_INIT'],
 'clauses': 'for a linked node h of a ring of any length: dlist_empty(h) <=> h is self-linked (next==prev==h) <=> !dlist_is_linked(h); both are pure (no link changes) and read only h; DLIST_HEAD(name) is an empty self-linked head',
 'witness': {'unwind': 14},
} @*/
#define C01_K 3   /* h, h->next, h->prev */
#include "c01_pool.h"

void harness(void)
{
    WIT_ARR(uchar, nx, C01_K);
    WIT_ARR(uchar, pv, C01_K);
    WIT(uchar, x);
    C01_POOL(nx, pv);
    __CPROVER_assume(LINKED0(x));

    int e = dlist_empty(N_(x));
    int l = dlist_is_linked(N_(x));

    __CPROVER_assert((e != 0) == (SELF0(x)), "dlist_empty(h) iff h is self-linked");
    __CPROVER_assert((l != 0) == !(SELF0(x)), "dlist_is_linked(h) iff h is not self-linked");
    __CPROVER_assert((e != 0) == (c01_nx[x] == x) && (e != 0) == (c01_pv[x] == x), "emptiness seen through next and through prev agree");
    c01_unchanged();
    DLIST_HEAD(hd);                                /* static initialiser = dlist_init */
    __CPROVER_assert(hd.next == &hd && hd.prev == &hd && dlist_empty(&hd) && !dlist_is_linked(&hd), "DLIST_HEAD / DLIST_HEAD_INIT give an empty, self-linked head");
    CANARY("dl_query end reachable");
}
