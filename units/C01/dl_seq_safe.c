/*@unit {
 'kind': 'bounded', 'mode': 'plain', 'solver': 'kissat',
 'bound': 'pool of 5 nodes (6 in the thorough tier), any partition into well-formed rings; unwind 8 is complete for these sizes (unwinding assertions)',
 'functions': ['dlist_for_each_safe', 'dlist_for_each_entry_safe', 'dlist_del_init', 'dlist_del', 'dlist_empty', 'dlist_next_entry', 'dlist_first_entry'],
 'clauses': 'history: draining a list with the removal-safe iteration macros (VARIANT 0: dlist_for_each_safe + dlist_del_init, VARIANT 1: dlist_for_each_entry_safe + dlist_del) visits exactly the reference sequence in order, leaves the head empty, every removed node self-linked (resp. poisoned) and every node of another ring untouched',
 'params': {'VARIANT': [0, 1], 'C01_K': [5]},
 'params_thorough': {'C01_K': [5, 6]},
 'unwind': 8,
 'defines': ['C01_ENTRY'],
 'witness': {'unwind': 8},
} @*/
#include <stdbool.h>
#include "c01_pool.h"

C01_NO_UBSAN_NULL void harness(void)
{
    WIT_ARR(uchar, nx, C01_K);
    WIT_ARR(uchar, pv, C01_K);
    WIT(uchar, h);
    C01_POOL(nx, pv);
    __CPROVER_assume(VALID0(h));
    for (uchar i = 0; i < C01_K; i++)
        __CPROVER_assume(LINKED0(i));

    /* reference sequence seen from h, and the set of its members */
    uchar seq[C01_K];
    int len = 0;
    uint members = 0;
    uchar i = c01_nx[h];
    for (int s = 0; s < C01_K && i != h; s++) {
        seq[len++] = i;
        members |= 1u << i;
        i = c01_nx[i];
    }
    __CPROVER_assert(i == h, "spec sanity: a well-formed ring closes within the pool size");

    struct dlist_head *H = N_(h);
    int k = 0;
#if VARIANT == 0
    struct dlist_head *it, *nxt;
    dlist_for_each_safe(it, nxt, H)
    {
        __CPROVER_assert(k < len && it == N_(seq[k]), "dlist_for_each_safe visits the reference sequence while the visited node is removed");
        dlist_del_init(it);
        k++;
    }
#else
    struct c01_entry *pos, *n;
    dlist_for_each_entry_safe(pos, n, H, lnk)
    {
        __CPROVER_assert(k < len && &pos->lnk == N_(seq[k]), "dlist_for_each_entry_safe visits the reference sequence while the visited node is removed");
        dlist_del(&pos->lnk);
        k++;
    }
#endif
    __CPROVER_assert(k == len, "the whole reference sequence was visited");
    __CPROVER_assert(dlist_empty(H) && c01_self(H), "drained list: head is empty and self-linked");
    for (uchar j = 0; j < C01_K; j++) {
        if (members >> j & 1) {
#if VARIANT == 0
            __CPROVER_assert(c01_self(N_(j)), "removed node is self-linked");
#else
            __CPROVER_assert(N_(j)->next == DLIST_POISON1 && N_(j)->prev == DLIST_POISON2, "removed node is poisoned");
#endif
        } else if (j != h) {
            __CPROVER_assert(N_(j)->next == c01_onx[j] && N_(j)->prev == c01_opv[j], "node of another ring is untouched");
        }
    }
    CANARY("dl_seq_safe end reachable");
}
