/*@unit {
 'kind': 'bounded', 'mode': 'plain', 'solver': 'kissat',
 'bound': 'pool of 5 nodes (6 in the thorough tier): a head with <= 4 elements, every other link arbitrary; unwind 8 is complete for these sizes (unwinding assertions)',
 'functions': ['slist_add', 'slist_pop_first', 'slist_pop_first_entry', 'slist_size', 'slist_in', 'slist_empty', 'slist_for_each', 'slist_for_each_entry',
               'slist_first_entry', 'slist_next_entry', 'slist_entry', 'mcast_out'],
 'clauses': 'sequence level: after slist_add(x, y) (y the head or any element: insert after y), slist_pop_first(h) or slist_pop_first_entry(h) on a non-empty list, the real slist_for_each / slist_for_each_entry yield exactly the reference array list, slist_size, slist_in and slist_empty agree with it; the popped node is the old first element and is no longer a member',
 'params': {'OP': [0, 1, 2], 'C01_K': [5]},
 'params_thorough': {'C01_K': [5, 6]},
 'unwind': 8,
 'defines': ['C01S_ENTRY'],
 'assumptions': ['slist_add: link is not a member of a list (no list node points at it)'],
 'witness': {'unwind': 8},
} @*/
#include "c01_spool.h"

C01_NO_UBSAN_NULL void harness(void)
{
    WIT_ARR(uchar, nx, C01_K);
    WIT(uchar, x);
    WIT(uchar, y);
    WIT(uchar, h);
    WIT(uchar, m);
    C01S_POOL(nx);
    __CPROVER_assume(VALID0(x) && VALID0(y) && VALID0(h) && VALID0(m));

    /* reference sequence = spec-level walk; representation invariant: the walk from the head returns to the head */
    uchar e[C01_K + 1];
    int len = 0;
    uchar i = c01s_nx[h];
    for (int s = 0; s < C01_K && VALID0(i) && i != h; s++) {
        e[len++] = i;
        i = c01s_nx[i];
    }
    __CPROVER_assume(i == h);
    int px = -1, py = -1;
    for (int j = 0; j < C01_K; j++) {
        if (j < len && e[j] == x) px = j;
        if (j < len && e[j] == y) py = j;
    }

    struct slist_head *H = S_(h), *it, *popped = NULL;
#if OP == 0
    __CPROVER_assume(x != h && px < 0);               /* x is not a member of the list */
    __CPROVER_assume(y == h || py >= 0);              /* y is the head or a member */
    int at = y == h ? 0 : py + 1;
    for (int j = C01_K - 1; j > 0; j--)
        if (j > at && j <= len) e[j] = e[j - 1];
    e[at] = x;
    len++;
    slist_add(S_(x), S_(y));
#else
    uchar first = len ? e[0] : h;
    if (len) {
        for (int j = 0; j < C01_K; j++)
            if (j + 1 < len) e[j] = e[j + 1];
        len--;
#if OP == 1
        popped = slist_pop_first(H);
#else
        popped = &slist_pop_first_entry(H, struct c01_sentry, lnk)->lnk;
#endif
        __CPROVER_assert(popped == S_(first), "pop_first returns the first element of the reference list");
    } else {
        __CPROVER_assert(slist_pop_first(H) == NULL, "slist_pop_first on an empty list returns NULL");
    }
#endif

    int k = 0;
    slist_for_each(it, H)
    {
        __CPROVER_assert(k < len && it == S_(e[k]), "slist_for_each yields the reference sequence");
        k++;
    }
    __CPROVER_assert(k == len, "slist_for_each yields the whole reference sequence");
    struct c01_sentry *pos;
    k = 0;
    slist_for_each_entry(pos, H, lnk)
    {
        __CPROVER_assert(k < len && &pos->lnk == S_(e[k]), "slist_for_each_entry yields the reference sequence");
        k++;
    }
    __CPROVER_assert(k == len, "slist_for_each_entry yields the whole reference sequence");
    __CPROVER_assert(slist_size(H) == len, "slist_size agrees with the reference list");
    __CPROVER_assert((slist_empty(H) != 0) == (len == 0), "slist_empty agrees with the reference list");
    int ref_in = 0;
    for (int j = 0; j < C01_K + 1; j++)
        if (j < len && e[j] == m) ref_in = 1;
    __CPROVER_assert((slist_in(H, S_(m)) != 0) == ref_in, "slist_in agrees with the reference list");
    if (popped)
        __CPROVER_assert(!slist_in(H, popped), "the popped node is no longer a member");
    CANARY("sl_seq end reachable");
}
