/*@unit {
 'kind': 'proof', 'mode': 'dfcc', 'enforce': 'slist_add',
 'functions': ['slist_add'],
 'clauses': 'contract form (contracts/c01_list_contracts.h, is_fresh footprint with aliasing disjunctions, cbmc-checked assigns clause): push front: head->next==link, link->next==old head->next (never dereferenced), writes exactly link.next, head.next',
} @*/
#include "vc.h"
#include "c01_list_contracts.h"

void harness(void)
{
    struct slist_head *a, *b;
    slist_add(a, b);
    CANARY("slist_add returns");
}
