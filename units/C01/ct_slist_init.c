/*@unit {
 'kind': 'proof', 'mode': 'dfcc', 'enforce': 'slist_init',
 'functions': ['slist_init'],
 'clauses': 'contract form (contracts/c01_list_contracts.h, is_fresh footprint with aliasing disjunctions, cbmc-checked assigns clause): slist_init: head->next == head',
} @*/
#include "vc.h"
#include "c01_list_contracts.h"

void harness(void)
{
    struct slist_head *a;
    slist_init(a);
    CANARY("slist_init returns");
}
