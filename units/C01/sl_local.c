/*@unit {
 'kind': 'proof', 'mode': 'plain', 'solver': 'kissat',
 'functions': ['slist_init', 'slist_empty', 'slist_add', 'slist_pop_first', 'SLIST_HEAD', 'SLIST_HEAD_INIT'],
 'clauses': 'slist, lists of any length (every link outside the footprint is an arbitrary, possibly invalid pointer): OP 0 slist_init: head->next==head, slist_empty; OP 1 slist_add(link, head): head->next==link, link->next==old head->next, only these two fields change, accesses confined to link and head; OP 2 slist_pop_first(head): NULL and nothing changes iff the list is empty, otherwise returns the old first node F, head->next==old F->next, only head.next changes, accesses confined to head and F; afterwards no observed node of the list points at F; OP 3 slist_empty(head) iff head->next==head, pure',
 'params': {'OP': [0, 1, 2, 3]},
 'assumptions': ['slist_add: link is not a member of a list (no list node points at it)'],
 'witness': {'unwind': 10},
} @*/
#define C01_K 5   /* link, head, head->next, head->next->next, ghost */
#include "c01_spool.h"

void harness(void)
{
    WIT_ARR(uchar, nx, C01_K);
    WIT(uchar, x);
    WIT(uchar, h);
    WIT(uchar, g);
    C01S_POOL(nx);
    __CPROVER_assume(VALID0(x) && VALID0(h) && VALID0(g));
#if OP == 0
    slist_init(S_(h));
    __CPROVER_assert(S_(h)->next == S_(h), "slist_init: head points at itself");
    __CPROVER_assert(slist_empty(S_(h)), "slist_init: slist_empty afterwards");
    c01s_frame(BIT(h));
#elif OP == 1
    __CPROVER_assume(x != h);                          /* link is not a member of the list ... */
    __CPROVER_assume(g == x || c01s_nx[g] != x);       /* ... no list node points at it        */
    slist_add(S_(x), S_(h));
    __CPROVER_assert(S_(h)->next == S_(x), "slist_add: link is the first node after head");
    __CPROVER_assert(S_(x)->next == c01s_onx[h], "slist_add: the old first node follows link");
    c01s_frame(BIT(x) | BIT(h));
    __CPROVER_assert(g == x || g == h || S_(g)->next == c01s_onx[g], "slist_add: any other node keeps its successor");
    __CPROVER_assert(!slist_empty(S_(h)), "slist_add: list is not empty afterwards");
#elif OP == 2
    uchar f = c01s_nx[h];
    __CPROVER_assume(VALID0(f));                        /* head->next is a node (head itself when empty) */
    /* list nodes are pairwise different: the ghost list node does not share its successor with head */
    __CPROVER_assume(g == h || c01s_nx[g] != f || f == h);
    struct slist_head *r = slist_pop_first(S_(h));
    if (f == h) {
        __CPROVER_assert(r == NULL, "slist_pop_first: NULL on an empty list");
        c01s_frame(0u);
    } else {
        __CPROVER_assert(r == S_(f), "slist_pop_first: returns the old first node");
        __CPROVER_assert(S_(h)->next == c01s_onx[f], "slist_pop_first: head is followed by the old second node");
        c01s_frame(BIT(h));
        __CPROVER_assert(g == f || S_(g)->next != S_(f) || c01s_nx[f] == f, "slist_pop_first: the removed node is reachable from no list node");
    }
#else
    int e = slist_empty(S_(h));
    __CPROVER_assert((e != 0) == (c01s_nx[h] == h), "slist_empty iff head->next == head");
    c01s_frame(0u);
    SLIST_HEAD(hd);                                /* static initialiser = slist_init */
    __CPROVER_assert(hd.next == &hd && slist_empty(&hd), "SLIST_HEAD / SLIST_HEAD_INIT give an empty head");
#endif
    CANARY("sl_local end reachable");
}
