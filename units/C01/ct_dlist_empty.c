/*@unit {
 'kind': 'proof', 'mode': 'dfcc', 'enforce': 'dlist_empty',
 'functions': ['dlist_empty'],
 'clauses': 'contract form (contracts/c01_list_contracts.h, is_fresh footprint with aliasing disjunctions, cbmc-checked assigns clause): dlist_empty == (head->next == head), pure',
} @*/
#include "vc.h"
#include "c01_list_contracts.h"

void harness(void)
{
    struct dlist_head *a;
    dlist_empty(a);
    CANARY("dlist_empty returns");
}
