/*@unit {
 'kind': 'proof', 'mode': 'dfcc', 'enforce': 'dlist_is_linked',
 'functions': ['dlist_is_linked'],
 'clauses': 'contract form (contracts/c01_list_contracts.h, is_fresh footprint with aliasing disjunctions, cbmc-checked assigns clause): dlist_is_linked == (head->next != head), pure',
} @*/
#include "vc.h"
#include "c01_list_contracts.h"

void harness(void)
{
    struct dlist_head *a;
    dlist_is_linked(a);
    CANARY("dlist_is_linked returns");
}
