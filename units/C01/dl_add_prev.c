/*@unit {
 'kind': 'proof', 'mode': 'plain', 'solver': 'kissat',
 'functions': ['dlist_add_prev', '__dlist_add'],
 'clauses': 'insert lnk right before head (push_back on a list head) in a ring of any length: head->prev==lnk, lnk->next==head, lnk->prev==old head->prev =: P, P->next==lnk (P==head for an empty list: head->next==lnk); only lnk.next, lnk.prev, head.prev, P.next change; LINKED at lnk, head, P afterwards; any other linked node stays linked; accesses confined to lnk, head, P',
 'assumptions': ['dlist_add*: lnk is not a member of a ring other than its own singleton ring (no other ring member points at it) - inserting a still-linked node is the documented misuse of the C API; re-insertion of linked nodes is covered by dlist_move*'],
 'witness': {'unwind': 14},
} @*/
#define C01_K 6   /* lnk, head, P, ghost and its two neighbours */
#include "c01_pool.h"

void harness(void)
{
    WIT_ARR(uchar, nx, C01_K);
    WIT_ARR(uchar, pv, C01_K);
    WIT(uchar, x);
    WIT(uchar, h);
    WIT(uchar, g);
    C01_POOL(nx, pv);
    __CPROVER_assume(VALID0(x));
    __CPROVER_assume(VALID0(h) && VALID0(c01_pv[h]) && c01_nx[c01_pv[h]] == h);   /* head->prev->next == head */
    uchar p = c01_pv[h];
    __CPROVER_assume(LINKED0(g));
    __CPROVER_assume(NOTNEIGH0(x, h) && NOTNEIGH0(x, p) && NOTNEIGH0(x, g));

    dlist_add_prev(N_(x), N_(h));

    __CPROVER_assert(N_(h)->prev == N_(x) && N_(x)->next == N_(h), "dlist_add_prev: head follows lnk");
    __CPROVER_assert(N_(x)->prev == N_(p) && N_(p)->next == N_(x), "dlist_add_prev: lnk follows the old predecessor of head");
    c01_frame(BIT(x) | BIT(p), BIT(x) | BIT(h));
    __CPROVER_assert(c01_linked(N_(x)), "dlist_add_prev: LINKED(lnk)");
    __CPROVER_assert(c01_linked(N_(g)), "dlist_add_prev: every linked node is still linked");
    CANARY("dl_add_prev end reachable");
}
