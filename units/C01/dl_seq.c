/*@unit {
 'kind': 'bounded', 'mode': 'plain', 'solver': 'kissat',
 'bound': 'pool of 5 nodes (6 in the thorough tier), any partition into well-formed rings (one list head with <= 4 elements, two lists, singleton rings), one operation with symbolic arguments; unwind 8 is complete for these sizes (unwinding assertions)',
 'functions': ['dlist_add_next', 'dlist_add_prev', 'dlist_del', 'dlist_del_init', 'dlist_move', 'dlist_move_tail', 'dlist_insert_instead',
               'dlist_move_sorted', 'dlist_size', 'dlist_size_reversed', 'dlist_in', 'dlist_check', 'dlist_check_reversed', 'dlist_is_correct',
               'dlist_empty', 'dlist_for_each', 'dlist_for_each_reverse', 'dlist_for_each_entry', 'dlist_for_each_entry_reverse',
               'dlist_first_entry', 'dlist_last_entry', 'dlist_next_entry', 'dlist_prev_entry', 'dlist_entry', 'mcast_out'],
 'clauses': 'sequence level: after one real operation the real dlist_for_each / dlist_for_each_entry from any observer node yields exactly the sequence of a reference array list (insert after/before, erase, splice, replace, sorted insert with an uninterpreted comparator), the reverse macros yield its reverse, dlist_size, dlist_size_reversed, dlist_check(_reversed), dlist_is_correct, dlist_empty and dlist_in agree with it (VIEW 0: node macros, sizes, emptiness, membership; VIEW 1: entry macros, dlist_check*, dlist_is_correct - two runs per operation to stay in the quick tier)',
 'params': {'OP': [0, 1, 2, 3, 4, 5, 6, 7], 'VIEW': [0, 1], 'C01_K': [5]},
 'params_thorough': {'C01_K': [5, 6]},
 'unwind': 8,
 'kf': ['C01_dlist_move_self'],
 'kf_probe_case': {'C01_dlist_move_self': {'OP': 4, 'VIEW': 0}},
 'defines': ['C01_ENTRY'],
 'assumptions': ['dlist_add*: lnk is not a member of a ring other than its own singleton ring (no other ring member points at it) - inserting a still-linked node is the documented misuse of the C API; re-insertion of linked nodes is covered by dlist_move*',
                 'sequence-level units: the observer node (list head) is not the node being inserted / moved (every ring that contains another node is observed from that node; singleton rings are checked by the local units)'],
 'witness': {'unwind': 8},
} @*/
#include <stdbool.h>
#include "c01_pool.h"

#define OP_ADD_NEXT 0
#define OP_ADD_PREV 1
#define OP_DEL 2
#define OP_DEL_INIT 3
#define OP_MOVE 4
#define OP_MOVE_TAIL 5
#define OP_INSERT_INSTEAD 6
#define OP_MOVE_SORTED 7
#define IS_ADD (OP == OP_ADD_NEXT || OP == OP_ADD_PREV || OP == OP_INSERT_INSTEAD || OP == OP_MOVE_SORTED)

/* ---- the uninterpreted comparator of dlist_move_sorted: a pure function of the element compared against */
static uint g_cmpmask;
static int c01_cmp(struct c01_entry *added, struct c01_entry *pos)
{
    (void)added;
    return (g_cmpmask >> c01_idx(&pos->lnk)) & 1;
}
C01_NO_UBSAN_NULL static void c01_move_sorted(struct c01_entry *added, struct dlist_head *head)
{
    dlist_move_sorted(added, head, lnk, c01_cmp);
}

/* ---- reference array list -------------------------------------------------------------------------- */
struct ref {
    int len;
    uchar e[C01_K + 1];
};
/* the sequence an observer standing at h sees in the pre-state (spec-level walk over the index arrays) */
static void ref_from(struct ref *r, uchar h)
{
    r->len = 0;
    uchar i = c01_nx[h];
    for (int s = 0; s < C01_K && i != h; s++) {
        r->e[r->len++] = i;
        i = c01_nx[i];
    }
    __CPROVER_assert(i == h, "spec sanity: a well-formed ring closes within the pool size");
}
static int ref_find(const struct ref *r, uchar v)
{
    for (int i = 0; i < C01_K; i++)
        if (i < r->len && r->e[i] == v)
            return i;
    return -1;
}
static void ref_erase(struct ref *r, uchar v)
{
    int p = ref_find(r, v);
    if (p < 0)
        return;
    for (int i = 0; i < C01_K; i++)
        if (i >= p && i + 1 < r->len)
            r->e[i] = r->e[i + 1];
    r->len--;
}
static void ref_insert(struct ref *r, int pos, uchar v)
{
    for (int i = C01_K - 1; i > 0; i--)
        if (i > pos && i <= r->len)
            r->e[i] = r->e[i - 1];
    r->e[pos] = v;
    r->len++;
}
/* insert v after element y (y == h: at the front); y not in this list: unchanged */
static void ref_insert_after(struct ref *r, uchar h, uchar y, uchar v)
{
    if (y == h)
        ref_insert(r, 0, v);
    else if (ref_find(r, y) >= 0)
        ref_insert(r, ref_find(r, y) + 1, v);
}
static void ref_insert_before(struct ref *r, uchar h, uchar y, uchar v)
{
    if (y == h)
        ref_insert(r, r->len, v);
    else if (ref_find(r, y) >= 0)
        ref_insert(r, ref_find(r, y), v);
}

C01_NO_UBSAN_NULL void harness(void)
{
    WIT_ARR(uchar, nx, C01_K);
    WIT_ARR(uchar, pv, C01_K);
    WIT(uchar, x);
    WIT(uchar, y);
    WIT(uchar, h);   /* observer: the list head the traversals start from */
    WIT(uchar, m);   /* membership probe */
    WIT(uint, cmpmask);
    WIT(int, count);
    __CPROVER_assume(count >= 0);
    C01_POOL(nx, pv);
    g_cmpmask = cmpmask;
    __CPROVER_assume(VALID0(x) && VALID0(y) && VALID0(h) && VALID0(m));
    /* representation invariant everywhere; for insertions x is a node outside every ring */
    for (uchar i = 0; i < C01_K; i++)
        __CPROVER_assume(IS_ADD ? (i == x || (LINKED0(i) && NOTNEIGH0(x, i))) : LINKED0(i));
    if (IS_ADD)
        __CPROVER_assume(x != y || SELF0(x));     /* the target is a linked node; x itself only as a singleton ring */
    if (OP == OP_MOVE || OP == OP_MOVE_TAIL)
        __CPROVER_assume(KF_C01_dlist_move_self == 0 ? 1 : KF_C01_dlist_move_self == 1 ? !(x == y && !SELF0(x)) : (x == y && !SELF0(x)));
    __CPROVER_assume(h != x || OP == OP_DEL_INIT);

    /* ---- reference result */
    struct ref r;
    ref_from(&r, h);
    switch (OP) {
    case OP_ADD_NEXT: ref_insert_after(&r, h, y, x); break;
    case OP_ADD_PREV: ref_insert_before(&r, h, y, x); break;
    case OP_DEL: ref_erase(&r, x); break;
    case OP_DEL_INIT: if (h == x) r.len = 0; else ref_erase(&r, x); break;
    case OP_MOVE: if (x != y) { ref_erase(&r, x); ref_insert_after(&r, h, y, x); } break;
    case OP_MOVE_TAIL: if (x != y) { ref_erase(&r, x); ref_insert_before(&r, h, y, x); } break;
    case OP_INSERT_INSTEAD:
        if (h == y) r.len = 0;
        else if (ref_find(&r, y) >= 0 && x != y) r.e[ref_find(&r, y)] = x;
        break;
    case OP_MOVE_SORTED: {
        /* list headed by y: before the first element the comparator accepts, else at the end */
        struct ref t;
        ref_from(&t, y);
        uchar target = y;
        for (int i = C01_K - 1; i >= 0; i--)
            if (i < t.len && ((cmpmask >> t.e[i]) & 1))
                target = t.e[i];
        ref_insert_before(&r, h, target, x);
        break;
    }
    }

    /* ---- the real operation */
    switch (OP) {
    case OP_ADD_NEXT: dlist_add_next(N_(x), N_(y)); break;
    case OP_ADD_PREV: dlist_add_prev(N_(x), N_(y)); break;
    case OP_DEL: dlist_del(N_(x)); break;
    case OP_DEL_INIT: dlist_del_init(N_(x)); break;
    case OP_MOVE: dlist_move(N_(x), N_(y)); break;
    case OP_MOVE_TAIL: dlist_move_tail(N_(x), N_(y)); break;
    case OP_INSERT_INSTEAD: dlist_insert_instead(N_(x), N_(y)); break;
    case OP_MOVE_SORTED: c01_move_sorted(dlist_entry(N_(x), struct c01_entry, lnk), N_(y)); break;
    }

    /* ---- the real observers against the reference */
    struct dlist_head *H = N_(h), *it;
    struct c01_entry *pos;
    int k;

#if VIEW == 0
    k = 0;
    dlist_for_each(it, H)
    {
        __CPROVER_assert(k < r.len && it == N_(r.e[k]), "dlist_for_each yields the reference sequence");
        k++;
    }
    __CPROVER_assert(k == r.len, "dlist_for_each yields the whole reference sequence");

    k = r.len;
    dlist_for_each_reverse(it, H)
    {
        k--;
        __CPROVER_assert(k >= 0 && it == N_(r.e[k]), "dlist_for_each_reverse yields the reversed reference sequence");
    }
    __CPROVER_assert(k == 0, "dlist_for_each_reverse yields the whole reversed reference sequence");

    __CPROVER_assert(dlist_size(H) == r.len, "dlist_size agrees with the reference list");
    __CPROVER_assert(dlist_size_reversed(H) == r.len, "dlist_size_reversed agrees with the reference list");
    __CPROVER_assert((dlist_empty(H) != 0) == (r.len == 0), "dlist_empty agrees with the reference list");
    __CPROVER_assert((dlist_in(N_(m), H) != 0) == (ref_find(&r, m) >= 0), "dlist_in agrees with the reference list");
#else
    k = 0;
    dlist_for_each_entry(pos, H, lnk)
    {
        __CPROVER_assert(k < r.len && &pos->lnk == N_(r.e[k]), "dlist_for_each_entry yields the reference sequence");
        k++;
    }
    __CPROVER_assert(k == r.len, "dlist_for_each_entry yields the whole reference sequence");

    k = r.len;
    dlist_for_each_entry_reverse(pos, H, lnk)
    {
        k--;
        __CPROVER_assert(k >= 0 && &pos->lnk == N_(r.e[k]), "dlist_for_each_entry_reverse yields the reversed reference sequence");
    }
    __CPROVER_assert(k == 0, "dlist_for_each_entry_reverse yields the whole reversed reference sequence");

    /* dlist_check(fnd, count): number of other nodes in the ring, or -1 when count steps do not close it */
    __CPROVER_assert(dlist_check(H, count) == (count > r.len ? r.len : -1), "dlist_check agrees with the reference list");
    __CPROVER_assert(dlist_check_reversed(H, count) == (count > r.len ? r.len : -1), "dlist_check_reversed agrees with the reference list");
    __CPROVER_assert(dlist_is_correct(H), "dlist_is_correct holds");
#endif
    CANARY("dl_seq end reachable");
}
