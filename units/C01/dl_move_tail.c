/*@unit {
 'kind': 'proof', 'mode': 'plain', 'solver': 'kissat',
 'functions': ['dlist_move_tail', '__dlist_del', 'dlist_add_prev', '__dlist_add'],
 'clauses': 'splice(x before y) in rings of any length (same ring or two rings; x adjacent to y on either side, x already right before y, single-element rings, x==y all admitted): reference list result - x sits between the node S that preceded y (skipping x itself) and y, the old neighbours P,N of x are joined, x==y or x already before y leaves every link unchanged; only x.next, x.prev, y.prev, S.next, P.next, N.prev change; LINKED at every touched node afterwards; any other linked node stays linked; accesses confined to x, P, N, y, S',
 'kf': ['C01_dlist_move_self'],
 'witness': {'unwind': 14},
} @*/
#define C01_K 8   /* x, P, N, y, y->prev, ghost and its two neighbours */
#include "c01_pool.h"

void harness(void)
{
    WIT_ARR(uchar, nx, C01_K);
    WIT_ARR(uchar, pv, C01_K);
    WIT(uchar, x);
    WIT(uchar, y);
    WIT(uchar, g);
    C01_POOL(nx, pv);
    __CPROVER_assume(LINKED0(x));
    __CPROVER_assume(VALID0(y) && VALID0(c01_pv[y]) && c01_nx[c01_pv[y]] == y);    /* y->prev->next == y */
    uchar P = c01_pv[x], N = c01_nx[x], HP = c01_pv[y];
    __CPROVER_assume(LINKED0(g));
    /* known finding: moving a node of a ring of >= 2 nodes next to itself */
    __CPROVER_assume(KF_C01_dlist_move_self == 0 ? 1 : KF_C01_dlist_move_self == 1 ? !(x == y && !SELF0(x)) : (x == y && !SELF0(x)));
    uchar S = HP == x ? P : HP;               /* predecessor of y once x is taken out */

    dlist_move_tail(N_(x), N_(y));

    if (x == y || y == N) {
        c01_unchanged();                      /* std::list::splice(pos, l, it) with pos==it or pos==next(it): no-op */
    } else {
        __CPROVER_assert(N_(y)->prev == N_(x) && N_(x)->next == N_(y), "dlist_move_tail: y follows x");
        __CPROVER_assert(N_(x)->prev == N_(S) && N_(S)->next == N_(x), "dlist_move_tail: x follows the old predecessor of y");
        if (P != x)
            __CPROVER_assert(N_(P)->next == N_(N) && N_(N)->prev == N_(P), "dlist_move_tail: old neighbours of x are joined");
        c01_frame(BIT(x) | BIT(S) | BIT(P), BIT(x) | BIT(y) | BIT(N));
    }
    __CPROVER_assert(c01_linked(N_(x)), "dlist_move_tail: LINKED(x)");
    __CPROVER_assert(c01_linked(N_(g)), "dlist_move_tail: every linked node is still linked");
    CANARY("dl_move_tail end reachable");
}
