/*@unit {
 'kind': 'proof', 'mode': 'plain', 'solver': 'kissat',
 'functions': ['dlist_add_next', '__dlist_add'],
 'clauses': 'insert lnk right after head (push_front on a list head) in a ring of any length: head->next==lnk, lnk->prev==head, lnk->next==old head->next =: N, N->prev==lnk (N==head for an empty list: head->prev==lnk); only lnk.next, lnk.prev, head.next, N.prev change; LINKED at lnk, head, N afterwards; any other linked node stays linked; accesses confined to lnk, head, N',
 'assumptions': ['dlist_add*: lnk is not a member of a ring other than its own singleton ring (no other ring member points at it) - inserting a still-linked node is the documented misuse of the C API; re-insertion of linked nodes is covered by dlist_move*'],
 'witness': {'unwind': 14},
} @*/
#define C01_K 6   /* lnk, head, N, ghost and its two neighbours */
#include "c01_pool.h"

void harness(void)
{
    WIT_ARR(uchar, nx, C01_K);
    WIT_ARR(uchar, pv, C01_K);
    WIT(uchar, x);
    WIT(uchar, h);
    WIT(uchar, g);
    C01_POOL(nx, pv);
    __CPROVER_assume(VALID0(x));
    __CPROVER_assume(VALID0(h) && VALID0(c01_nx[h]) && c01_pv[c01_nx[h]] == h);   /* head->next->prev == head */
    uchar n = c01_nx[h];
    __CPROVER_assume(LINKED0(g));
    __CPROVER_assume(NOTNEIGH0(x, h) && NOTNEIGH0(x, n) && NOTNEIGH0(x, g));

    dlist_add_next(N_(x), N_(h));

    __CPROVER_assert(N_(h)->next == N_(x) && N_(x)->prev == N_(h), "dlist_add_next: lnk follows head");
    __CPROVER_assert(N_(x)->next == N_(n) && N_(n)->prev == N_(x), "dlist_add_next: the old successor of head follows lnk");
    c01_frame(BIT(x) | BIT(h), BIT(x) | BIT(n));
    __CPROVER_assert(c01_linked(N_(x)), "dlist_add_next: LINKED(lnk)");
    __CPROVER_assert(c01_linked(N_(g)), "dlist_add_next: every linked node is still linked");
    CANARY("dl_add_next end reachable");
}
