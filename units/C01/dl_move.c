/*@unit {
 'kind': 'proof', 'mode': 'plain', 'solver': 'kissat',
 'functions': ['dlist_move', '__dlist_del', 'dlist_add_next', '__dlist_add'],
 'clauses': 'splice(x after y) in rings of any length (same ring or two rings; x adjacent to y on either side, x already right after y, single-element rings, x==y all admitted): reference list result - x sits between y and the node S that followed y (skipping x itself), the old neighbours P,N of x are joined, x==y or x already after y leaves every link unchanged; only x.next, x.prev, y.next, S.prev, P.next, N.prev change; LINKED at every touched node afterwards; any other linked node stays linked; accesses confined to x, P, N, y, S',
 'kf': ['C01_dlist_move_self'],
 'witness': {'unwind': 14},
} @*/
#define C01_K 8   /* x, P, N, y, y->next, ghost and its two neighbours */
#include "c01_pool.h"

void harness(void)
{
    WIT_ARR(uchar, nx, C01_K);
    WIT_ARR(uchar, pv, C01_K);
    WIT(uchar, x);
    WIT(uchar, y);
    WIT(uchar, g);
    C01_POOL(nx, pv);
    __CPROVER_assume(LINKED0(x));
    __CPROVER_assume(VALID0(y) && VALID0(c01_nx[y]) && c01_pv[c01_nx[y]] == y);    /* y->next->prev == y */
    uchar P = c01_pv[x], N = c01_nx[x], HN = c01_nx[y];
    __CPROVER_assume(LINKED0(g));
    /* known finding: moving a node of a ring of >= 2 nodes next to itself */
    __CPROVER_assume(KF_C01_dlist_move_self == 0 ? 1 : KF_C01_dlist_move_self == 1 ? !(x == y && !SELF0(x)) : (x == y && !SELF0(x)));
    uchar S = HN == x ? N : HN;               /* successor of y once x is taken out */

    dlist_move(N_(x), N_(y));

    if (x == y || y == P) {
        c01_unchanged();                      /* std::list::splice(pos, l, it) with pos==it or pos==next(it): no-op */
    } else {
        __CPROVER_assert(N_(y)->next == N_(x) && N_(x)->prev == N_(y), "dlist_move: x follows y");
        __CPROVER_assert(N_(x)->next == N_(S) && N_(S)->prev == N_(x), "dlist_move: the old successor of y follows x");
        if (P != x)
            __CPROVER_assert(N_(P)->next == N_(N) && N_(N)->prev == N_(P), "dlist_move: old neighbours of x are joined");
        c01_frame(BIT(x) | BIT(y) | BIT(P), BIT(x) | BIT(S) | BIT(N));
    }
    __CPROVER_assert(c01_linked(N_(x)), "dlist_move: LINKED(x)");
    __CPROVER_assert(c01_linked(N_(g)), "dlist_move: every linked node is still linked");
    CANARY("dl_move end reachable");
}
