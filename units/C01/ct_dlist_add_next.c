/*@unit {
 'kind': 'proof', 'mode': 'dfcc', 'enforce': 'dlist_add_next',
 'functions': ['dlist_add_next'],
 'clauses': 'contract form (contracts/c01_list_contracts.h, is_fresh footprint with aliasing disjunctions, cbmc-checked assigns clause): insert after head (empty head admitted), writes exactly lnk.next, lnk.prev, head.next, N.prev',
} @*/
#include "vc.h"
#include "c01_list_contracts.h"

void harness(void)
{
    struct dlist_head *a, *b;
    dlist_add_next(a, b);
    CANARY("dlist_add_next returns");
}
