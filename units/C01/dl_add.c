/*@unit {
 'kind': 'proof', 'mode': 'plain', 'solver': 'kissat',
 'functions': ['__dlist_add'],
 'clauses': 'insert lnk between two consecutive nodes prev,next (prev==next for an empty head) of a ring of any length: prev->next==lnk, lnk->prev==prev, lnk->next==next, next->prev==lnk; only these four fields change; LINKED at lnk, prev, next afterwards; any other linked node stays linked; accesses confined to lnk, prev, next',
 'assumptions': ['dlist_add*: lnk is not a member of a ring other than its own singleton ring (no other ring member points at it) - inserting a still-linked node is the documented misuse of the C API; re-insertion of linked nodes is covered by dlist_move*'],
 'witness': {'unwind': 14},
} @*/
#define C01_K 6   /* lnk, prev, next, ghost and its two neighbours */
#include "c01_pool.h"

void harness(void)
{
    WIT_ARR(uchar, nx, C01_K);
    WIT_ARR(uchar, pv, C01_K);
    WIT(uchar, x);
    WIT(uchar, p);
    WIT(uchar, g);
    C01_POOL(nx, pv);
    __CPROVER_assume(VALID0(x));
    WIT(uchar, n);
    __CPROVER_assume(VALID0(p) && VALID0(n) && c01_nx[p] == n && c01_pv[n] == p);   /* "two known consecutive entries" */
    __CPROVER_assume(LINKED0(g));
    __CPROVER_assume(NOTNEIGH0(x, p) && NOTNEIGH0(x, n) && NOTNEIGH0(x, g));

    __dlist_add(N_(x), N_(n), N_(p));

    __CPROVER_assert(N_(p)->next == N_(x) && N_(x)->prev == N_(p), "__dlist_add: lnk follows prev");
    __CPROVER_assert(N_(x)->next == N_(n) && N_(n)->prev == N_(x), "__dlist_add: next follows lnk");
    c01_frame(BIT(x) | BIT(p), BIT(x) | BIT(n));
    __CPROVER_assert(c01_linked(N_(x)), "__dlist_add: LINKED(lnk)");
    __CPROVER_assert(c01_linked(N_(g)), "__dlist_add: every linked node is still linked");
    CANARY("dl_add end reachable");
}
