/*@unit {
 'kind': 'proof', 'mode': 'plain', 'solver': 'kissat',
 'functions': ['igris::dlist_base::dlist_base()', 'dlist_base::unlink_and_move_all_nodes_from_other', 'dlist_base::pop_front', 'dlist_base::pop_back', 'dlist_base::move_front', 'dlist_base::move_back',
               'dlist_base::empty', 'dlist_node::next_node', 'dlist_node::prev_node'],
 'extract': 'units/C01/cxx_dlist_extract.py',
 'params': {'OP': [0, 1, 2, 3, 4]},
 'clauses': 'C++ list object (extracted), rings of any length (pool form; the list head is pool node h): a constructed list is empty (self-linked head); pop_front [OP 0] / pop_back [OP 1] of a non-empty '
            'list remove exactly the first / last node (self-linked afterwards, neighbours joined), on an empty list they change nothing; move_front(x) [OP 2] / move_back(x) [OP 3] place x directly '
            'after / before the head wherever x was; whole-list splice unlink_and_move_all_nodes_from_other [OP 4]: this list takes over exactly the ring of the other list (first/last/neighbour links), '
            'the other list is empty afterwards, the nodes this list held before are joined into a ring of their own (unlink of the head); every other linked node stays linked; frame exact',
 'witness': {'unwind': 14},
} @*/
#include "vc.h"
#include "cxx/dlist_cxx.c"
#define C01_NODE_T struct dlist_node
#define C01_K 9
#include "c01_pool.h"

void harness(void)
{
    WIT_ARR(uchar, nx, C01_K);
    WIT_ARR(uchar, pv, C01_K);
    WIT(uchar, h);   /* head node of this list */
    WIT(uchar, x);
    WIT(uchar, o);   /* head node of the other list */
    WIT(uchar, g);
    C01_POOL(nx, pv);
    __CPROVER_assume(LINKED0(h) && LINKED0(g));
    struct dlist_base *L = (struct dlist_base *)N_(h);      /* dlist_base is exactly its head node (static_assert in dlist.h) */
    __CPROVER_assert(sizeof(struct dlist_base) == sizeof(struct dlist_node), "dlist_base is its head node");
    uchar F = c01_nx[h], B = c01_pv[h];
    __CPROVER_assert(dlist_base_empty(L) == SELF0(h), "empty() <=> head self-linked");
#if OP == 0 || OP == 1
    uchar v = OP == 0 ? F : B;                              /* victim */
    __CPROVER_assume(LINKED0(v));
    uchar P = c01_pv[v], N = c01_nx[v];
    if (OP == 0) dlist_base_pop_front(L); else dlist_base_pop_back(L);
    if (SELF0(h)) {
        c01_unchanged();                                   /* empty list: first == last == head: nothing to remove */
    } else {
        __CPROVER_assert(c01_self(N_(v)), "popped node is self-linked");
        __CPROVER_assert(N_(P)->next == N_(N) && N_(N)->prev == N_(P), "its neighbours are joined");
        c01_frame(BIT(v) | BIT(P), BIT(v) | BIT(N));
    }
    __CPROVER_assert(g == v || c01_linked(N_(g)), "every other linked node is still linked");
#elif OP == 2 || OP == 3
    __CPROVER_assume(LINKED0(x) && x != h);
    uchar P = c01_pv[x], N = c01_nx[x];
    if (OP == 2) {
        uchar S = F == x ? N : F;
        dlist_base_move_front(L, N_(x));
        if (h == P) c01_unchanged();
        else {
            __CPROVER_assert(N_(h)->next == N_(x) && N_(x)->prev == N_(h) && N_(x)->next == N_(S) && N_(S)->prev == N_(x), "move_front: x is the first node");
            if (P != x) __CPROVER_assert(N_(P)->next == N_(N) && N_(N)->prev == N_(P), "old neighbours of x are joined");
            c01_frame(BIT(x) | BIT(h) | BIT(P), BIT(x) | BIT(S) | BIT(N));
        }
    } else {
        uchar S = B == x ? P : B;
        dlist_base_move_back(L, N_(x));
        if (h == N) c01_unchanged();
        else {
            __CPROVER_assert(N_(h)->prev == N_(x) && N_(x)->next == N_(h) && N_(x)->prev == N_(S) && N_(S)->next == N_(x), "move_back: x is the last node");
            if (P != x) __CPROVER_assert(N_(P)->next == N_(N) && N_(N)->prev == N_(P), "old neighbours of x are joined");
            c01_frame(BIT(x) | BIT(S) | BIT(P), BIT(x) | BIT(h) | BIT(N));
        }
    }
    __CPROVER_assert(c01_linked(N_(x)) && c01_linked(N_(g)), "x and every other linked node are linked afterwards");
#else
    __CPROVER_assume(LINKED0(o) && o != h && c01_nx[o] != h && c01_pv[o] != h && c01_nx[h] != o && c01_pv[h] != o);   /* two different lists */
    uchar OF = c01_nx[o], OB = c01_pv[o];
    __CPROVER_assume(VALID0(OF) && VALID0(OB) && c01_pv[OF] == o && c01_nx[OB] == o);
    dlist_base_take_all(L, (struct dlist_base *)N_(o));
    __CPROVER_assert(c01_self(N_(o)), "the other list is empty afterwards");
    if (SELF0(o)) {
        /* splice of an empty list: this list must end up well formed.  (igris links the head to the other HEAD's links,
           i.e. to the other head itself, which is then re-initialised: checked by the LINKED clause below) */
    } else {
        __CPROVER_assert(N_(h)->next == N_(OF) && N_(OF)->prev == N_(h) && N_(h)->prev == N_(OB) && N_(OB)->next == N_(h), "this list now starts/ends with the other list's first/last node");
    }
    if (!SELF0(h)) __CPROVER_assert(N_(F)->prev == N_(B) && N_(B)->next == N_(F), "the nodes this list held before are joined among themselves");
    __CPROVER_assert(c01_linked(N_(h)), "LINKED(head of this list) afterwards");
    __CPROVER_assert(g == h || g == o || c01_linked(N_(g)), "every other linked node is still linked");
#endif
    struct dlist_base fresh;
    dlist_base_ctor(&fresh);
    __CPROVER_assert(dlist_base_empty(&fresh) && fresh.list.next == &fresh.list && fresh.list.prev == &fresh.list, "a constructed list is empty");
    CANARY("cxx_base_ops end reachable");
}
