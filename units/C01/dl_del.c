/*@unit {
 'kind': 'proof', 'mode': 'plain', 'solver': 'kissat',
 'functions': ['dlist_del', '__dlist_del'],
 'clauses': 'erase(entry) in a ring of any length: requires LINKED(entry) only; old neighbours joined (P->next==N, N->prev==P); entry poisoned (next=POISON1, prev=POISON2); only entry.next, entry.prev, P.next, N.prev change; any other linked node stays linked and no longer points at entry (removed node reachable from no list); accesses confined to entry, P, N',
 'witness': {'unwind': 14},
} @*/
#define C01_K 6   /* entry, P, N, ghost and its two neighbours */
#include "c01_pool.h"

void harness(void)
{
    WIT_ARR(uchar, nx, C01_K);
    WIT_ARR(uchar, pv, C01_K);
    WIT(uchar, x);
    WIT(uchar, g);
    C01_POOL(nx, pv);
    __CPROVER_assume(LINKED0(x));            /* precondition: entry is a member of a well-formed ring */
    __CPROVER_assume(LINKED0(g));            /* arbitrary third party */
    uchar P = c01_pv[x], N = c01_nx[x];

    dlist_del(N_(x));

    __CPROVER_assert(N_(x)->next == DLIST_POISON1 && N_(x)->prev == DLIST_POISON2, "dlist_del: removed node is poisoned");
    if (P != x) {
        __CPROVER_assert(N_(P)->next == N_(N) && N_(N)->prev == N_(P), "dlist_del: old neighbours are joined");
        __CPROVER_assert(N_(P)->next != N_(x) && N_(N)->prev != N_(x), "dlist_del: old neighbours no longer point at the removed node");
    }
    c01_frame(BIT(x) | BIT(P), BIT(x) | BIT(N));
    if (g != x) {
        __CPROVER_assert(c01_linked(N_(g)), "dlist_del: every other linked node is still linked");
        __CPROVER_assert(N_(g)->next != N_(x) && N_(g)->prev != N_(x), "dlist_del: removed node is reachable from no linked node");
    }
    CANARY("dl_del end reachable");
}
