/*@unit {
 'kind': 'proof', 'mode': 'dfcc', 'enforce': 'hlist_del',
 'functions': ['hlist_del'],
 'clauses': 'contract form (contracts/c01_list_contracts.h, is_fresh footprint with aliasing disjunctions, cbmc-checked assigns clause): unlinked node: no write at all; linked node: slot holds the successor, successor points back at the slot, node fields untouched; writes exactly *pprev, next.pprev',
} @*/
#include "vc.h"
#include "c01_list_contracts.h"

void harness(void)
{
    struct hlist_node *a;
    hlist_del(a);
    CANARY("hlist_del returns");
}
