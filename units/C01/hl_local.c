/*@unit {
 'kind': 'proof', 'mode': 'plain', 'solver': 'kissat',
 'functions': ['hlist_head_init', 'hlist_node_init', 'hlist_add_next', 'hlist_del'],
 'clauses': 'hlist, chains of any length (every link outside the footprint is an arbitrary, possibly invalid pointer). Invariant H(n): *n->pprev==n && (n->next => n->next->pprev==&n->next). OP 0 hlist_head_init (head not in use): first==NULL, returns the head. OP 1 hlist_node_init (node not in a chain): pprev==NULL (unlinked mark), returns the node, hlist_del on it changes nothing. OP 2 hlist_add_next(n, slot) for a slot (&head->first or &m->next) whose occupant T points back at it: *slot==n, n->pprev==slot, n->next==T, T => T->pprev==&n->next; only n.next, n.pprev, *slot, T.pprev change; H(n) afterwards. OP 3 hlist_del(n): unlinked node (pprev==NULL): nothing changes; linked node: *old pprev == old next, old next => its pprev == old pprev; only these two fields change; any other node satisfying H still satisfies it and no longer points at n, any well-formed head stays well-formed and does not point at n. Third party in all cases: H(g) and head well-formedness preserved',
 'params': {'OP': [0, 1, 2, 3]},
 'assumptions': ['hlist_add_next: the node is not a member of a chain (no chain node or head points at it) - same documented misuse as dlist_add on a linked node'],
 'witness': {'unwind': 12},
} @*/
#define C01_KN 6   /* n, owner of the slot, T, ghost, ghost->next, owner of ghost->pprev */
#define C01_KH 3   /* head owning the slot, ghost head, head owning ghost->pprev */
#include "c01_hpool.h"

void harness(void)
{
    WIT_ARR(uchar, nx, C01_KN);
    WIT_ARR(uchar, pp, C01_KN);
    WIT_ARR(uchar, first, C01_KH);
    WIT(uchar, x);
    WIT(uchar, s);
    WIT(uchar, g);
    WIT(uchar, gh);
    C01H_POOL(nx, pp, first);
    __CPROVER_assume(HVALID0(x));
    __CPROVER_assume(HLINKED0(g));          /* arbitrary third-party node satisfying the invariant */
    __CPROVER_assume(HHEADOK0(gh));         /* arbitrary third-party head */
#if OP == 0
    __CPROVER_assume(c01h_pp[g] != C01_KN + gh);      /* the head is not in use: no chain node hangs on it */
    struct hlist_head *r = hlist_head_init(HH_(gh));
    __CPROVER_assert(r == HH_(gh) && HH_(gh)->first == 0, "hlist_head_init: empty head, returns it");
    c01h_frame(0u, 0u, HBIT(gh));
#elif OP == 1
    /* the node is not a member of a chain */
    __CPROVER_assume(g != x && c01h_nx[g] != x && c01h_pp[g] != x && c01h_first[gh] != x);
    struct hlist_node *r = hlist_node_init(HN_(x));
    __CPROVER_assert(r == HN_(x) && HN_(x)->pprev == 0, "hlist_node_init: pprev == NULL marks the node unlinked");
    c01h_frame(0u, HBIT(x), 0u);
    /* an unlinked node can be deleted harmlessly */
    hlist_del(HN_(x));
    c01h_frame(0u, HBIT(x), 0u);
#elif OP == 2
    __CPROVER_assume(HSVALID0(s));
    uchar T = HSLOTVAL0(s);
    __CPROVER_assume(T == HN_NULL || (HVALID0(T) && c01h_pp[T] == s));     /* the occupant of the slot points back at it */
    /* n is not a member of a chain: it is not the slot's owner or occupant, no third party points at it */
    __CPROVER_assume(s != x && T != x);
    __CPROVER_assume(g == x || (c01h_nx[g] != x && c01h_pp[g] != x));
    __CPROVER_assume(c01h_first[gh] != x);
    __CPROVER_assume(T == HN_NULL || c01h_nx[T] != x);

    hlist_add_next(HN_(x), HS_(s));

    __CPROVER_assert(*HS_(s) == HN_(x) && HN_(x)->pprev == HS_(s), "hlist_add_next: the slot holds n and n points back at it");
    __CPROVER_assert(HN_(x)->next == HN_(T), "hlist_add_next: the old occupant follows n");
    if (T != HN_NULL)
        __CPROVER_assert(HN_(T)->pprev == &HN_(x)->next, "hlist_add_next: the old occupant points back at n->next");
    c01h_frame(HBIT(x) | HSLOT_NX(s), HBIT(x) | (T != HN_NULL ? HBIT(T) : 0u), HSLOT_FIRST(s));
    __CPROVER_assert(c01h_linked(HN_(x)), "hlist_add_next: invariant at n");
    __CPROVER_assert(c01h_linked(HN_(g)), "hlist_add_next: invariant preserved at any other node");
    __CPROVER_assert(c01h_headok(HH_(gh)), "hlist_add_next: any well-formed head stays well-formed");
#else
    uchar ps = c01h_pp[x], N = c01h_nx[x];
    __CPROVER_assume(ps == HS_NULL || HLINKED0(x));

    hlist_del(HN_(x));

    if (ps == HS_NULL) {
        c01h_frame(0u, 0u, 0u);
    } else {
        __CPROVER_assert(*HS_(ps) == HN_(N), "hlist_del: the slot that held n holds its old successor");
        if (N != HN_NULL)
            __CPROVER_assert(HN_(N)->pprev == HS_(ps), "hlist_del: the old successor points back at that slot");
        c01h_frame(HSLOT_NX(ps), N != HN_NULL ? HBIT(N) : 0u, HSLOT_FIRST(ps));
        if (g != x) {
            __CPROVER_assert(c01h_linked(HN_(g)), "hlist_del: invariant preserved at any other node");
            __CPROVER_assert(HN_(g)->next != HN_(x) && HN_(g)->pprev != &HN_(x)->next, "hlist_del: removed node is reachable from no chain node");
        }
        __CPROVER_assert(c01h_headok(HH_(gh)) && HH_(gh)->first != HN_(x), "hlist_del: any well-formed head stays well-formed and does not point at the removed node");
    }
#endif
    __CPROVER_assert(OP == 3 || (c01h_linked(HN_(g)) && (OP == 0 || c01h_headok(HH_(gh)))), "invariant preserved at the third-party node and head");
    CANARY("hl_local end reachable");
}
