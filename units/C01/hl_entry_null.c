/*@unit {
 'kind': 'bounded', 'mode': 'plain',
 'bound': 'chains of 0..3 entries built by the real hlist_add_next; unwind 6 is complete (unwinding assertions)',
 'functions': ['hlist_for_each_entry', 'hlist_for_each', 'hlist_entry', 'hlist_first_entry', 'hlist_next_entry', 'hlist_add_next', 'hlist_head_init'],
 'clauses': 'entry-wise forward traversal of an hlist (link member at a non-zero offset) through the public macros yields the reference sequence of entries WITHOUT arithmetic on a null pointer (checked with --pointer-overflow-check): holds for hlist_for_each + hlist_entry; hlist_for_each_entry computes mcast_out(NULL) at the end of every chain and tests &pos->member != 0, which optimising compilers fold to true (known finding)',
 'checks_extra': ['--pointer-overflow-check'],
 'unwind': 6,
 'kf': ['C01_hlist_entry_null'],
 'witness': {'unwind': 6},
} @*/
#include "vc.h"
#include <igris/util/member.h>
#include <igris/datastruct/hlist.h>

#ifdef REPLAY   /* see c01_pool.h: member_offsetof trips UBSan's `null` group; the finding is in the `pointer-overflow` group */
#define C01_NO_UBSAN_NULL __attribute__((no_sanitize("null")))
#else
#define C01_NO_UBSAN_NULL
#endif
struct ent {
    long key;
    struct hlist_node lnk;
};

C01_NO_UBSAN_NULL void harness(void)
{
    WIT(uchar, n);                /* chain length */
    WIT(uchar, via_entry_macro);  /* which public macro traverses */
    __CPROVER_assume(n <= 3 && via_entry_macro <= 1);
    __CPROVER_assume(KF_C01_hlist_entry_null == 0 ? 1 : KF_C01_hlist_entry_null == 1 ? !(via_entry_macro == 1) : (via_entry_macro == 1));
    static struct ent e[3];
    struct hlist_head h;
    hlist_head_init(&h);
    for (int i = 0; i < 3; i++) {
        e[i].key = i;
        if (i < n)
            hlist_add_next(&e[i].lnk, &h.first);      /* push front: reference order n-1 .. 0 */
    }
    int k = 0;
    if (via_entry_macro) {
        struct ent *pos;
        hlist_for_each_entry(pos, &h, lnk)
        {
            __CPROVER_assert(k < n && pos == &e[n - 1 - k], "hlist_for_each_entry yields the reference sequence of entries");
            k++;
        }
    } else {
        struct hlist_node *it;
        hlist_for_each(it, &h)
        {
            struct ent *pos = hlist_entry(it, struct ent, lnk);
            __CPROVER_assert(k < n && pos == &e[n - 1 - k], "hlist_for_each + hlist_entry yields the reference sequence of entries");
            k++;
        }
    }
    __CPROVER_assert(k == n, "the whole reference sequence is visited and the traversal stops");
    CANARY("hl_entry_null end reachable");
}
