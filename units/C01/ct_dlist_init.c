/*@unit {
 'kind': 'proof', 'mode': 'dfcc', 'enforce': 'dlist_init',
 'functions': ['dlist_init'],
 'clauses': 'contract form (contracts/c01_list_contracts.h, is_fresh footprint with aliasing disjunctions, cbmc-checked assigns clause): dlist_init: self-link, writes only head.next/head.prev',
} @*/
#include "vc.h"
#include "c01_list_contracts.h"

void harness(void)
{
    struct dlist_head *a;
    dlist_init(a);
    CANARY("dlist_init returns");
}
