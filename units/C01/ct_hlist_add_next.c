/*@unit {
 'kind': 'proof', 'mode': 'dfcc', 'enforce': 'hlist_add_next',
 'functions': ['hlist_add_next'],
 'clauses': 'contract form (contracts/c01_list_contracts.h, is_fresh footprint with aliasing disjunctions, cbmc-checked assigns clause): insert into a slot (empty or occupied): slot holds the node, node points back, old occupant follows and points back at node->next; writes exactly node.next, node.pprev, *slot, occupant.pprev',
} @*/
#include "vc.h"
#include "c01_list_contracts.h"

void harness(void)
{
    struct hlist_node *a, **b;
    hlist_add_next(a, b);
    CANARY("hlist_add_next returns");
}
