/*@unit {
 'kind': 'bounded', 'mode': 'plain',
 'bound': 'lists of 0..5 nodes (every length; the nodes are interchangeable, so one linking order); loops unwound completely (unwinding assertions on)',
 'functions': ['igris::dlist_base::~dlist_base', 'igris::dlist_node::~dlist_node', 'dlist_base::pop_front', 'dlist_base::empty', 'dlist_node::unlink'],
 'extract': 'units/C01/cxx_dlist_extract.py',
 'unwind': 8,
 'clauses': 'destroying a C++ list (the destructor body followed by the implicit destruction of its head node, cxx2c rule R11) leaves every node it held unlinked: is_linked() false, '
            'self-linked (unlinking it again is harmless), reachable from no other node; the head is self-linked; a node outside the list is untouched. '
            'The step for rings of ANY length is unit cxx_base_ops (pop_front, OP 0) and cxx_node_ops (unlink); this unit adds the loop of the destructor for short lists',
 'witness': {'unwind': 8},
} @*/
#include "vc.h"
#include "cxx/dlist_cxx.c"
#define KMAX 5

void harness(void)
{
    struct dlist_base L;
    struct dlist_node nd[KMAX], other1, other2;
    WIT(uchar, n);
    __CPROVER_assume(n <= KMAX);
    dlist_base_ctor(&L);
    /* ring  head -> nd[0] -> ... -> nd[n-1] -> head  */
    struct dlist_node *prev = &L.list;
    for (int i = 0; i < KMAX; i++) {
        if (i >= n) { nd[i].next = nd[i].prev = &nd[i]; continue; }      /* not in the list: unlinked (self-linked) */
        prev->next = &nd[i]; nd[i].prev = prev; prev = &nd[i];
    }
    prev->next = &L.list; L.list.prev = prev;
    /* a ring of two nodes that belongs to no list */
    other1.next = other1.prev = &other2; other2.next = other2.prev = &other1;

    dlist_base_dtor(&L);

    for (int i = 0; i < KMAX; i++) {
        __CPROVER_assert(nd[i].next == &nd[i] && nd[i].prev == &nd[i], "after the list is destroyed every node it held is self-linked (reachable from no node, unlinking again is harmless)");
        __CPROVER_assert(!dlist_node_is_linked(&nd[i]), "after the list is destroyed none of its nodes reports is_linked()");
    }
    __CPROVER_assert(L.list.next == &L.list && L.list.prev == &L.list, "the head of a destroyed list is self-linked");
    __CPROVER_assert(other1.next == &other2 && other1.prev == &other2 && other2.next == &other1 && other2.prev == &other1, "nodes outside the list are untouched");
    CANARY("cxx_base_dtor end reachable");
}
