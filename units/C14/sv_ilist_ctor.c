/*@unit {
 'kind': 'proof', 'mode': 'legacy',
 'functions': ['static_vector::static_vector(const std::initializer_list<T>&)'],
 'extract': 'units/C14/extract_sv.py',
 'params': {'GROUP': [1, 2]},
 'kf': ['C14_ilist_overflow'], 'kf_probe_case': {'C14_ilist_overflow': {'GROUP': 1}},
 'inject': [{'file': 'overlay:cxx/sv.c', 'func': 'static_vector_ctor_ilist', 'loop': 0, 'expect': 'lst_i < lst_len',
             'assigns': 'lst_i, self->m_size, __CPROVER_object_whole(self->_data)',
             'invariants': ['lst_i <= lst_len', 'self->m_size == C14_MIN(lst_i, CAP)', 'SPEC_INV(g_k)'],
             'decreases': 'lst_len - lst_i'},
            {'file': 'overlay:cxx/sv.c', 'func': 'static_vector_ctor_ilist', 'ghost': 'G_INST(SPEC_INV(lst_i));', 'at': 'body-begin', 'loop': 0}],
 'clauses': 'initializer-list constructor (the list is an (array, length) pair of L >= 0 elements, L unrelated to N: 0..2N and beyond), for every capacity N >= 1: '
            'size == min(L, N), element k equals list[k] for every k < size (excess input dropped, prefix kept), slots from size on RAW, each element copy-constructed '
            'exactly once over RAW storage; the list is only read; nothing outside the exact-size storage is written '
            '[known finding C14_ilist_overflow carved out: L > N, where the constructor writes past _data[N]]',
 'witness': {'unwind': 8}, 'fallback': 'ghost-free',
 'assumptions': ['every list element is LIVE, instantiated at the ghost slot and at the element the loop reads', 'the object under construction starts with storage in which no element is alive',
                 'T = ELEM, N = CAP arbitrary in [1, 2^36], L in [0, 2^37]'],
} @*/
#include "c14_sv.h"
/* slot j: the constructed prefix holds the list prefix, the rest of the storage is RAW; list element j is LIVE */
#define SPEC_INV(j) (((j) >= CAP || ((j) < self->m_size ? (ELEM_ST(&self->_data[j]) == ELEM_LIVE && ELEM_V(&self->_data[j]) == ELEM_V(&lst[j])) \
                                                         : ELEM_ST(&self->_data[j]) == ELEM_RAW)) && \
                     ((j) >= lst_len || ELEM_ST(&lst[j]) == ELEM_LIVE))
#define C14_HAVE_SV
#include "cxx/sv.c"
#include "c14_harness.h"

void harness(void)
{
    WIT(size_t, cap); WIT(size_t, n); WIT(size_t, k);
    WIT_ARR(int, vals, 6);
    C14_SET_CAP(cap);
    __CPROVER_assume(n <= 2 * C14_MAXCAP);
    g_k = k;
    ELEM *in = c14_input(n, vals);
    struct static_vector v;
    c14_sv_fresh(&v);
    ELEM *storage = v._data;
    ELEM in_k; ELEM_SET(&in_k, ELEM_RAW, 0);
    if (k < n) in_k = in[k];
    /* known finding: no capacity guard - a list longer than N is written past _data[N] (region: L > N; every group,
       the failing obligation is the pointer check of the store) */
    KF_REGION(KF_C14_ilist_overflow, n > cap);

    static_vector_ctor_ilist(&v, in, n);

    V(__CPROVER_assert(v._data == storage, "storage pointer untouched");)
    V(__CPROVER_assert(v.m_size == C14_MIN(n, cap) && SV_SIZE_OK(&v), "size == min(L, N)");)
    if (k < cap && k < n) V(__CPROVER_assert(ELEM_V(&v._data[k]) == ELEM_V(&in_k), "element k equals list[k] (prefix kept)");)
    if (k < n) V(__CPROVER_assert(ELEM_V(&in[k]) == ELEM_V(&in_k) && ELEM_ST(&in[k]) == ELEM_ST(&in_k), "the list is not modified");)
    if (k < cap) L(__CPROVER_assert(SV_SLOT_OK(&v, k), "SV: slots below m_size LIVE, the others RAW");)
    CANARY("initializer-list ctor end reachable");
}
