/*@unit {
 'kind': 'proof', 'mode': 'plain',
 'functions': ['std_portable.h static_string::data', 'std_portable.h static_string::clear', 'std_portable.h static_string::operator+=',
               'std_portable.h static_string::operator[]', 'std_portable.h static_string::operator[] const'],
 'extract': 'units/C14/extract_ss_portable.py',
 'defines': ['SS_DATA=_data'],
 'clauses': '[twin only] for every capacity N >= 1 and every state with size <= N: data() is the storage; clear() sets size 0 and writes no byte; s += c is push_back(c) '
            '(appended within capacity, dropped when full, size <= N) and returns *this; operator[](i) for i < size() refers to / returns byte i of the storage; '
            'no other byte of the exact-size storage of N+1 bytes changes',
 'witness': {'unwind': 8},
 'assumptions': ['size <= N on entry (type invariant)', 'operator[] index < size()', 'N = CAP arbitrary in [1, 2^36]'],
} @*/
#define C14_HAVE_SS
#include "cxx/ss.c"
#include "c14_harness.h"

void harness(void)
{
    WIT(size_t, cap); WIT(size_t, m); WIT(size_t, k); WIT(size_t, i); WIT(char, c); WIT(int, op);
    WIT_ARR(char, content, 4);
    C14_SET_CAP(cap);
    struct static_string s;
    c14_ss_any(&s, m, content);
    char *storage = s.SS_DATA;
    char old_k = k <= cap ? s.SS_DATA[k] : 0;
    int changed = 0;

    switch (op) {
    case 0: __CPROVER_assert(static_string_data(&s) == storage && s.m_size == m, "data() is the storage"); break;
    case 1: static_string_clear(&s); __CPROVER_assert(s.m_size == 0, "clear(): size 0"); break;
    case 2: {
        struct static_string *r = static_string_append_char(&s, c);
        __CPROVER_assert(r == &s, "operator+= returns *this");
        __CPROVER_assert(s.m_size == (m < cap ? m + 1 : cap), "operator+=: size' == min(size + 1, N)");
        if (m < cap) { __CPROVER_assert(s.SS_DATA[m] == c, "operator+=: the character is stored at [old size]"); changed = 1; }
        break; }
    case 3: __CPROVER_assume(i < m); __CPROVER_assert(static_string_at(&s, i) == storage + i && s.m_size == m, "operator[](i) refers to byte i of the storage"); break;
    default: __CPROVER_assume(i < m); __CPROVER_assert(static_string_at_c(&s, i) == storage[i] && s.m_size == m, "operator[](i) const returns byte i"); break;
    }
    __CPROVER_assert(s.SS_DATA == storage && s.m_size <= cap, "storage pointer untouched, size <= N");
    if (k <= cap && !(changed && k == m)) __CPROVER_assert(s.SS_DATA[k] == old_k, "every other byte of the storage is unchanged");
    CANARY("static_string twin extras end reachable");
}
