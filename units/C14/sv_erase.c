/*@unit {
 'kind': 'proof', 'mode': 'legacy',
 'functions': ['static_vector::erase(iterator, iterator)', 'static_vector::end', 'igris::destructor'],
 'extract': 'units/C14/extract_sv.py',
 'params': {'GROUP': [1, 2]},
 'kf': ['C14_erase_lifetime'], 'kf_probe_case': {'C14_erase_lifetime': {'GROUP': 2}},
 'loop_contracts_in_unit': 1, 'defines': ['ELEM_PACKED'], 'solver': 'cadical', 
 'inject': [{'file': 'overlay:cxx/sv.c', 'func': 'static_vector_erase', 'loop': 0, 'expect': 'i < sz',
             'assigns': 'i, __CPROVER_object_whole(self->_data)',
             'invariants': ['i <= sz && sz == g_sz', 'SPEC_VAL0', 'SPEC_ST0(g_k)'],
             'decreases': 'sz - i'},
            {'file': 'overlay:cxx/sv.c', 'func': 'static_vector_erase', 'ghost': 'G_INST(SPEC_ST0(g_f + i));', 'at': 'body-begin', 'loop': 0}],
 'clauses': 'erase(first, last) with begin() <= first <= last <= end(), for every capacity N >= 1 and every SV state: size\' == size - (last-first), the elements before '
            'first keep their values, element k >= first takes the value of old element k + (last-first) (order kept), nothing outside the exact-size storage is '
            'touched [value group: all inputs]; the erased elements are destroyed exactly once, the tail is move-assigned into LIVE|MOVED slots only, the vacated '
            'slots at the end are destroyed: slots from size\' on RAW [lifetime group; known finding C14_erase_lifetime carved out: non-empty range with a non-empty tail]. '
            'std::move(first,last,d) is the ISO element-wise loop of spec/c14_std_stubs.h',
 'witness': {'unwind': 5},
 'trusted': ['libstdc++ std::move(first, last, d_first) behaves as ISO [alg.move] states (spec/c14_std_stubs.h)'],
 'assumptions': ['SV(v) on entry (type invariant), instantiated at the ghost slots and at the slots the loops touch', 'begin() <= first <= last <= end() (as for std::vector::erase)',
                 'T = ELEM, N = CAP arbitrary in [1, 2^36]'],
} @*/
#include "c14_sv.h"
size_t g_f, g_l, g_m, g_sz;   /* first - begin(), last - begin(), old size, last - first */
int g_src_v;                  /* old value of element g_k + g_sz (the one that ends up in slot g_k) */
ELEM *g_st;                   /* the storage */
/* The two obligation groups use separate halves of the loop invariants (a group that does not need a half sees `1`):
   value half   (GROUP 1): where the two values the postcondition speaks about are - old element g_k and old element g_k + g_sz
   lifetime half(GROUP 2): the lifetime state of an arbitrary slot j */
#if C14_V
#define SPEC_VAL(c) (c)
#else
#define SPEC_VAL(c) 1
#endif
#if C14_L
#define SPEC_ST(c) (c)
#else
#define SPEC_ST(c) 1
#endif
/* destroy loop of erase() (i elements destroyed): destruction changes no value */
#define SPEC_VAL0 SPEC_VAL((g_k >= CAP || ELEM_V(&g_st[g_k]) == ELEM_V(&g_old_k)) && (g_k >= CAP || g_k + g_sz >= g_m || ELEM_V(&g_st[g_k + g_sz]) == g_src_v))
/* ... states: [0,f) LIVE, [f,f+i) RAW, [f+i,m) LIVE, [m,N) RAW */
#define SPEC_ST0(j) SPEC_ST((j) >= CAP || ((j) < g_f ? ELEM_ST(&g_st[j]) == ELEM_LIVE : (j) < g_f + i ? ELEM_ST(&g_st[j]) == ELEM_RAW \
                                          : (j) < g_m ? ELEM_ST(&g_st[j]) == ELEM_LIVE : ELEM_ST(&g_st[j]) == ELEM_RAW))
/* std::move loop (t = g_mv_i elements moved): slot g_k is untouched below f and holds old[g_k+sz] once assigned; old[g_k+sz] is still in
   place until it is moved */
#define SPEC_VAL1 SPEC_VAL((g_k >= g_f || ELEM_V(&g_st[g_k]) == ELEM_V(&g_old_k)) && \
                           (!(g_f <= g_k && g_k < g_f + g_mv_i) || ELEM_V(&g_st[g_k]) == g_src_v) && \
                           (!(g_f + g_mv_i <= g_k && g_k < CAP && g_k + g_sz < g_m) || ELEM_V(&g_st[g_k + g_sz]) == g_src_v))
/* ... states: [0,f) LIVE, [f,f+t) LIVE (assigned), [f+t,l) RAW (destroyed, not assigned yet), [max(l,f+t), l+t) MOVED-from, [l+t,m) LIVE, [m,N) RAW */
#define SPEC_ST1(j) SPEC_ST((j) >= CAP || ((j) < g_f + g_mv_i ? ELEM_ST(&g_st[j]) == ELEM_LIVE : (j) < g_l ? ELEM_ST(&g_st[j]) == ELEM_RAW \
                                          : (j) < g_l + g_mv_i ? ELEM_ST(&g_st[j]) == ELEM_MOVED : (j) < g_m ? ELEM_ST(&g_st[j]) == ELEM_LIVE \
                                          : ELEM_ST(&g_st[j]) == ELEM_RAW))
#define C14_MOVE_LOOP_CONTRACT \
    __CPROVER_assigns(g_mv_i, __CPROVER_object_whole(g_st)) \
    __CPROVER_loop_invariant(g_mv_i <= n && n == g_m - g_l) \
    __CPROVER_loop_invariant(SPEC_VAL1) \
    __CPROVER_loop_invariant(SPEC_ST1(g_k)) \
    __CPROVER_decreases(n - g_mv_i)
#define C14_MOVE_BODY_BEGIN G_INST(SPEC_ST1(g_f + g_mv_i)); G_INST(SPEC_ST1(g_l + g_mv_i));
#define C14_HAVE_SV
#include "cxx/sv.c"
#include "c14_harness.h"

void harness(void)
{
    WIT(size_t, cap); WIT(size_t, m); WIT(size_t, f); WIT(size_t, l); WIT(size_t, k);
    WIT_ARR(int, vals, 3);
    C14_SET_CAP(cap);
    g_k = k;
    struct static_vector v;
    c14_sv_any(&v, m, vals);
    __CPROVER_assume(f <= l && l <= m);
    size_t sz = l - f;
    g_f = f; g_l = l; g_m = m; g_sz = sz; g_st = v._data;
    ELEM *storage = v._data;
    if (k < cap) g_old_k = v._data[k];
    if (k < cap && k + sz < m) g_src_v = ELEM_V(&v._data[k + sz]);
#ifdef KF_C14_erase_lifetime
    /* known finding: erase destroys [first,last) FIRST and then move-assigns the tail into the destroyed slots, and the
       moved-from slots at the end are dropped without being destroyed (region: something erased and a tail to move);
       it affects only the lifetime group */
    L(KF_REGION(KF_C14_erase_lifetime, f < l && l < m);)
#endif

    static_vector_erase(&v, v._data + f, v._data + l);

    V(__CPROVER_assert(v._data == storage, "storage pointer untouched");)
    V(__CPROVER_assert(v.m_size == m - sz && SV_SIZE_OK(&v), "size' == size - (last - first)");)
    if (k < cap) {
        if (k < f) V(__CPROVER_assert(ELEM_V(&v._data[k]) == ELEM_V(&g_old_k), "elements before first keep their values");)
        if (k >= f && k < m - sz) V(__CPROVER_assert(ELEM_V(&v._data[k]) == g_src_v, "element k >= first is the old element k + (last - first)");)
        L(__CPROVER_assert(SV_SLOT_OK(&v, k), "SV: slots below m_size LIVE, the others RAW (erased and vacated elements destroyed exactly once)");)
    }
    CANARY("erase end reachable");
}
