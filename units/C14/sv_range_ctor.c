/*@unit {
 'kind': 'proof', 'mode': 'legacy',
 'functions': ['static_vector::static_vector(It, It)', 'static_vector::push_back'],
 'extract': 'units/C14/extract_sv.py',
 'params': {'GROUP': [1, 2]},
 'inject': [{'file': 'overlay:cxx/sv.c', 'func': 'static_vector_ctor_range', 'ghost': 'g_i = 0;', 'at': 'func-begin'},
            {'file': 'overlay:cxx/sv.c', 'func': 'static_vector_ctor_range', 'loop': 0, 'expect': 'b != e',
             'assigns': 'b, g_i, self->m_size, __CPROVER_object_whole(self->_data)',
             'invariants': ['g_i <= g_n', '__CPROVER_same_object(b, g_in) && __CPROVER_POINTER_OFFSET(b) == g_i * sizeof(ELEM)',
                            'self->m_size == C14_MIN(g_i, CAP)', 'SPEC_INV(g_k)'],
             'decreases': 'g_n - g_i'},
            {'file': 'overlay:cxx/sv.c', 'func': 'static_vector_ctor_range', 'ghost': 'G_INST(SPEC_INV(g_i));', 'at': 'body-begin', 'loop': 0},
            {'file': 'overlay:cxx/sv.c', 'func': 'static_vector_ctor_range', 'ghost': 'g_i++;', 'at': 'body-end', 'loop': 0}],
 'clauses': 'iterator-range constructor static_vector(b, e) with It = const T*, for every capacity N >= 1 and every input range of L >= 0 elements (L unrelated to N: '
            '0..2N and beyond): size == min(L, N), element k equals input[k] for every k < size (excess input dropped, prefix kept), slots from size on RAW, each '
            'element copy-constructed exactly once over RAW storage; the input (an exact-size object) is only read, inside [b, e); nothing outside the exact-size storage is written',
 'witness': {'unwind': 8}, 'fallback': 'ghost-free',
 'assumptions': ['every input element is LIVE, instantiated at the ghost slot and at the element the loop reads', 'the object under construction starts with storage in which no element is alive',
                 'b <= e point into one array (valid range)', 'T = ELEM, It = const ELEM*, N = CAP arbitrary in [1, 2^36], L in [0, 2^36]'],
} @*/
#include "c14_sv.h"
const ELEM *g_in;   /* the input range [g_in, g_in + g_n) */
size_t g_n, g_i;    /* its length; number of input elements consumed so far */
/* slot j: the constructed prefix holds the input prefix, the rest of the storage is RAW; input element j is LIVE */
#define SPEC_INV(j) (((j) >= CAP || ((j) < self->m_size ? (ELEM_ST(&self->_data[j]) == ELEM_LIVE && ELEM_V(&self->_data[j]) == ELEM_V(&g_in[j])) \
                                                         : ELEM_ST(&self->_data[j]) == ELEM_RAW)) && \
                     ((j) >= g_n || ELEM_ST(&g_in[j]) == ELEM_LIVE))
#define C14_HAVE_SV
#include "cxx/sv.c"
#include "c14_harness.h"

void harness(void)
{
    WIT(size_t, cap); WIT(size_t, n); WIT(size_t, k);
    WIT_ARR(int, vals, 6);
    C14_SET_CAP(cap);
    __CPROVER_assume(n <= 2 * C14_MAXCAP);
    g_k = k;
    ELEM *in = c14_input(n, vals);
    g_in = in; g_n = n;
    struct static_vector v;
    c14_sv_fresh(&v);
    ELEM *storage = v._data;
    ELEM in_k; ELEM_SET(&in_k, ELEM_RAW, 0);
    if (k < n) in_k = in[k];

    static_vector_ctor_range(&v, in, in + n);

    V(__CPROVER_assert(v._data == storage, "storage pointer untouched");)
    V(__CPROVER_assert(v.m_size == C14_MIN(n, cap) && SV_SIZE_OK(&v), "size == min(L, N)");)
    if (k < cap && k < n) V(__CPROVER_assert(ELEM_V(&v._data[k]) == ELEM_V(&in_k), "element k equals input[k] (prefix kept)");)
    if (k < n) V(__CPROVER_assert(ELEM_V(&in[k]) == ELEM_V(&in_k) && ELEM_ST(&in[k]) == ELEM_ST(&in_k), "the input is not modified");)
    if (k < cap) L(__CPROVER_assert(SV_SLOT_OK(&v, k), "SV: slots below m_size LIVE, the others RAW");)
    CANARY("range ctor end reachable");
}
