// Bounded native run of the REAL igris::static_vector<T,N> (igris/container/static_vector.h - not the extraction) against a std::vector model
// truncated to the capacity, with an element type that tracks object lifetimes, under ASan/UBSan.  Stands in when a changed member function is
// outside the extractor's dialect (bounded stand-in, never counted as proved).
// Bound: capacity N = 4; ONE operation from every start state with 0..4 elements: push_back / emplace_back (also when full), erase(first,last) for
//        every range, resize(0..6), clear, copy/move construction, copy/move assignment from every length 0..4 onto every length 0..4,
//        construction from an iterator range and an initializer list of 0..6 elements.
// C14 clauses: size() <= N; contents == the reference sequence truncated to N keeping the prefix; exactly the elements below size() are
// constructed objects (nothing constructed over a live object, nothing destroyed twice, everything destroyed at destruction).
#include <igris/container/static_vector.h>
#include <cstdio>
#include <set>
#include <vector>

static int fails;
static char ctx[160];
static void fail(const char *what) { if (fails++ < 5) std::printf("FAIL: %s (%s)\n", what, ctx); }

struct Tracked
{
    int v;
    static std::set<const Tracked *> &live() { static std::set<const Tracked *> s; return s; }
    void born() { if (!live().insert(this).second) fail("an object is constructed over a live object"); }
    Tracked() : v(0) { born(); }
    Tracked(int x) : v(x) { born(); }
    Tracked(const Tracked &o) : v(o.v) { if (!live().count(&o)) fail("copy construction from a dead object"); born(); }
    Tracked(Tracked &&o) : v(o.v) { if (!live().count(&o)) fail("move construction from a dead object"); born(); if (&o != this) o.v = -1; }
    Tracked &operator=(const Tracked &o) { if (!live().count(this) || !live().count(&o)) fail("assignment to or from a dead object"); v = o.v; return *this; }
    Tracked &operator=(Tracked &&o) { if (!live().count(this) || !live().count(&o)) fail("move assignment to or from a dead object"); int x = o.v; if (&o != this) o.v = -1; v = x; return *this; }
    ~Tracked() { if (!live().erase(this)) fail("an object is destroyed twice (or was never constructed)"); }
};
static const int N = 4;
typedef igris::static_vector<Tracked, N> SVT;
typedef std::vector<int> M;

static void compare(SVT &a, M m, size_t outside_live)
{
    if (m.size() > (size_t)N) m.resize(N);                        // the reference sequence truncated to the capacity, prefix kept
    if (a.size() > (size_t)N) { fail("size() exceeds the capacity"); return; }
    if (a.size() != m.size()) { fail("size differs from the (truncated) reference"); return; }
    for (size_t i = 0; i < m.size(); i++) if (a[i].v != m[i]) { fail("contents differ from the (truncated) reference"); return; }
    if (Tracked::live().size() != m.size() + outside_live) fail("number of constructed element objects != size() (leak or lost destruction)");
    for (size_t i = 0; i < m.size(); i++) if (!Tracked::live().count(&a[i])) { fail("an element below size() is not a live object"); return; }
    if (a.room() != (size_t)N - a.size()) fail("room() != N - size()");
}
static void build(SVT &a, M &m, int n) { for (int i = 0; i < n; i++) { a.emplace_back(10 + i); m.push_back(10 + i); } }
static long cnt;
static void end_of_case(const char *op, int n)
{
    if (!Tracked::live().empty()) { std::snprintf(ctx, sizeof ctx, "%s from %d elements: after destruction", op, n); fail("objects still alive after the container was destroyed"); Tracked::live().clear(); }
    cnt++;
}
#define STATE(opname, ...) for (int n = 0; n <= N && !fails; n++) { \
    { SVT a; M m; build(a, m, n); std::snprintf(ctx, sizeof ctx, "%s from %d elements", opname, n); __VA_ARGS__ } end_of_case(opname, n); }

int main()
{
    STATE("push_back", { Tracked x(99); a.push_back(x); m.push_back(99); compare(a, m, 1); })
    STATE("emplace_back", a.emplace_back(77); m.push_back(77); compare(a, m, 0);)
    for (int first = 0; first <= N; first++) for (int last = first; last <= N; last++)
        STATE("erase(first, last)", if (last <= n) { a.erase(a.begin() + first, a.begin() + last); m.erase(m.begin() + first, m.begin() + last); compare(a, m, 0); })
    for (int k = 0; k <= 6; k++) STATE("resize", if (k <= N) { a.resize(k); m.resize(k); compare(a, m, 0); })
    STATE("clear", a.clear(); m.clear(); compare(a, m, 0);)
    STATE("copy construction", { SVT b(a); compare(b, m, m.size()); } compare(a, m, 0);)
    STATE("move construction", { SVT b(std::move(a)); compare(b, m, a.size()); })
    for (int k = 0; k <= N; k++) {
        STATE("copy assignment", { SVT b; M mb; build(b, mb, k); b = a; compare(b, m, m.size()); } compare(a, m, 0);)
        STATE("move assignment", { SVT b; M mb; build(b, mb, k); b = std::move(a); compare(b, m, a.size()); })
    }
    STATE("self copy assignment", { SVT &r = a; a = r; compare(a, m, 0); })
    for (int k = 0; k <= 6; k++) {
        std::snprintf(ctx, sizeof ctx, "construction from a range of %d elements", k);
        { std::vector<Tracked> src; M m; for (int i = 0; i < k; i++) { src.emplace_back(20 + i); m.push_back(20 + i); }
          { SVT a(src.data(), src.data() + k); compare(a, m, src.size()); } }
        end_of_case("range construction", k);
    }
    { std::snprintf(ctx, sizeof ctx, "initializer list of 6"); { SVT a({Tracked(1), Tracked(2), Tracked(3), Tracked(4), Tracked(5), Tracked(6)}); M m{1, 2, 3, 4, 5, 6}; compare(a, m, 0); } end_of_case("initializer list", 6); }
    { std::snprintf(ctx, sizeof ctx, "initializer list of 2"); { SVT a({Tracked(1), Tracked(2)}); M m{1, 2}; compare(a, m, 0); } end_of_case("initializer list", 2); }
    if (fails) { std::printf("%d clause violations (first shown) after %ld start states x operations\n", fails, cnt); return 1; }
    std::printf("ok: %ld start states x operations\n", cnt);
    return 0;
}
