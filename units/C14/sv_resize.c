/*@unit {
 'kind': 'proof', 'mode': 'legacy',
 'functions': ['static_vector::resize'],
 'extract': 'units/C14/extract_sv.py',
 'params': {'GROUP': [1, 2]},
 'kf': ['C14_resize_shrink_no_destroy'], 'kf_probe_case': {'C14_resize_shrink_no_destroy': {'GROUP': 2}},
 'inject': [{'file': 'overlay:cxx/sv.c', 'func': 'static_vector_resize', 'loop': 0, 'expect': 'i < newsize',
             'assigns': 'i, __CPROVER_object_whole(self->_data)',
             'invariants': ['self->m_size <= i && (i <= newsize || i == self->m_size)', 'newsize <= CAP', 'SPEC_INV(g_k)'],
             'decreases': 'newsize - i'},
            {'file': 'overlay:cxx/sv.c', 'func': 'static_vector_resize', 'ghost': 'G_INST(SPEC_INV(i));', 'at': 'body-begin', 'loop': 0}],
 'clauses': 'resize(n), for every capacity N >= 1, every SV state and every n (0..2N and beyond): size\' == min(n, N); the first min(size, size\') elements keep their '
            'values, elements size..size\'-1 are value-initialised (T{}), nothing outside the exact-size storage is written [value group: all inputs]; new elements are '
            'constructed exactly once over RAW storage and the elements dropped by a shrinking resize are destroyed exactly once: slots from size\' on RAW '
            '[lifetime group; known finding C14_resize_shrink_no_destroy carved out: min(n, N) < size]',
 'witness': {'unwind': 5},
 'assumptions': ['SV(v) on entry (type invariant), instantiated at the ghost slot and at the slot the loop constructs', 'T = ELEM (T{} = ELEM_construct_default, value 0), N = CAP arbitrary in [1, 2^36]'],
} @*/
#include "c14_sv.h"
/* slot j: old elements [0, m_size) untouched, new elements [m_size, i) value-initialised and LIVE, the rest RAW */
#define SPEC_INV(j) ((j) >= CAP || ((j) < self->m_size ? ((j) != g_k || (ELEM_V(&self->_data[j]) == ELEM_V(&g_old_k) && ELEM_ST(&self->_data[j]) == ELEM_ST(&g_old_k))) \
                                   : (j) < i ? (ELEM_ST(&self->_data[j]) == ELEM_LIVE && ELEM_V(&self->_data[j]) == 0) \
                                             : ELEM_ST(&self->_data[j]) == ELEM_RAW))
#define C14_HAVE_SV
#include "cxx/sv.c"
#include "c14_harness.h"

void harness(void)
{
    WIT(size_t, cap); WIT(size_t, m); WIT(size_t, n); WIT(size_t, k);
    WIT_ARR(int, vals, 3);
    C14_SET_CAP(cap);
    g_k = k;
    struct static_vector v;
    c14_sv_any(&v, m, vals);
    ELEM *storage = v._data;
    if (k < cap) g_old_k = v._data[k];
    size_t want = C14_MIN(n, cap);
#ifdef KF_C14_resize_shrink_no_destroy
    /* known finding: a shrinking resize only lowers m_size, the elements beyond the new size are never destroyed
       (region: new size < old size); it affects only the lifetime group */
    L(KF_REGION(KF_C14_resize_shrink_no_destroy, want < m);)
#endif

    static_vector_resize(&v, n);

    V(__CPROVER_assert(v._data == storage, "storage pointer untouched");)
    V(__CPROVER_assert(v.m_size == want && SV_SIZE_OK(&v), "size' == min(n, N)");)
    if (k < cap) {
        if (k < m && k < want) V(__CPROVER_assert(ELEM_V(&v._data[k]) == ELEM_V(&g_old_k), "kept elements keep their values");)
        if (k >= m && k < want) V(__CPROVER_assert(ELEM_V(&v._data[k]) == 0, "new elements are value-initialised");)
        L(__CPROVER_assert(SV_SLOT_OK(&v, k), "SV: slots below m_size LIVE, the others RAW (dropped elements destroyed exactly once)");)
    }
    CANARY("resize end reachable");
}
