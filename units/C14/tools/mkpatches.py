# developer aid: regenerates proposed_fixes/C14_*.patch from string edits on a scratch worktree /tmp/wt-C14 ("patches"), or applies a subset ("apply <ids>").
import subprocess, sys, os
WT='/tmp/wt-C14'
SV='igris/container/static_vector.h'; SS='igris/container/static_string.h'; SP='igris/container/std_portable.h'
def rd(f): return open(os.path.join(WT,f)).read()
def wr(f,s): open(os.path.join(WT,f),'w').write(s)
def rep(f, old, new, count=1):
    s=rd(f); assert s.count(old)==count, (f, old, s.count(old)); wr(f, s.replace(old,new))
def reset(): subprocess.check_call(['git','-C',WT,'checkout','--','.'])
def dump(name):
    d=subprocess.check_output(['git','-C',WT,'diff']).decode()
    open('/verif/proposed_fixes/%s.patch'%name,'w').write(d); print(name, d.count('\n@@'))

def clear_fix():
    for f,sz in ((SV,'std::size_t'),(SP,'igris::size_t')):
        s=rd(f)
        old='''        void clear()
        {
            m_size = 0;
        }
    };
}
'''
        # in std_portable.h igris::vector etc. have their own clear(); anchor on the class end of static_vector (resize precedes)
        anchor='''            m_size = newsize;
        }

        void clear()
        {
            m_size = 0;
        }'''
        assert s.count(anchor)==1,(f,s.count(anchor))
        s=s.replace(anchor,'''            m_size = newsize;
        }

        void clear()
        {
            for (%s pos = 0; pos < m_size; ++pos)
            {
                reinterpret_cast<T *>(&_data[pos])->~T();
            }
            m_size = 0;
        }''' % sz)
        wr(f,s)
    rep(SP,'''                new (&_data[pos]) T(igris::move(other[pos]));
            }
            other.m_size = 0;
            return *this;''','''                new (&_data[pos]) T(igris::move(other[pos]));
            }
            other.clear();
            return *this;''')

def assign_fix():
    for f in (SV,SP):
        rep(f,'''        static_vector &operator=(const static_vector &other)
        {
            m_size = other.m_size;''','''        static_vector &operator=(const static_vector &other)
        {
            if (this == &other)
                return *this;
            clear();
            m_size = other.m_size;''')
        rep(f,'''        static_vector &operator=(static_vector &&other)
        {
            m_size = other.m_size;''','''        static_vector &operator=(static_vector &&other)
        {
            if (this == &other)
                return *this;
            clear();
            m_size = other.m_size;''')

def resize_fix():
    for f in (SV,SP):
        s=rd(f)
        old='''                new (&_data[i]) T{};
            }

            m_size = newsize;'''
        assert s.count(old)==1,(f,s.count(old))
        wr(f,s.replace(old,'''                new (&_data[i]) T{};
            }

            for (size_t i = newsize; i < m_size; ++i)
            {
                reinterpret_cast<T *>(&_data[i])->~T();
            }

            m_size = newsize;'''))

def erase_fix():
    rep(SV,'''            size_t sz = last - first;
            for (size_t i = 0; i < sz; ++i)
            {
                igris::destructor(first + i);
            }
            std::move(last, end(), first);
            m_size -= sz;''','''            size_t sz = last - first;
            iterator tail = std::move(last, end(), first);
            for (size_t i = 0; i < sz; ++i)
            {
                igris::destructor(tail + i);
            }
            m_size -= sz;''')

def ilist_fix():
    rep(SV,'''            for (auto &obj : lst)
            {
                new (&_data[m_size]) T(obj);''','''            for (auto &obj : lst)
            {
                if (m_size >= N)
                    break;
                new (&_data[m_size]) T(obj);''')

def sstring_fix():
    rep(SS,'''            m_size = strlen(dat);
            memcpy(data, dat, m_size);''','''            m_size = strlen(dat);
            if (m_size > N)
                m_size = N;
            memcpy(data, dat, m_size);''')
    rep(SP,'''            m_size = strlen(dat);
            memcpy(_data, dat, m_size);''','''            m_size = strlen(dat);
            if (m_size > N)
                m_size = N;
            memcpy(_data, dat, m_size);''')
    rep(SP,'''            m_size = sz;
            memcpy(_data, dat, sz);''','''            m_size = sz > N ? N : sz;
            memcpy(_data, dat, m_size);''')

def index_fix():
    rep(SS,'''            return &data[pos];''','''            return data[pos];''',2)

FIX={'C14_clear_no_destroy':clear_fix,'C14_assign_over_live':assign_fix,'C14_resize_shrink_no_destroy':resize_fix,
     'C14_erase_lifetime':erase_fix,'C14_ilist_overflow':ilist_fix,'C14_sstring_ctor_overflow':sstring_fix,'C14_sstring_index_compile':index_fix}
if sys.argv[1]=='patches':
    for n,f in FIX.items():
        reset(); f(); dump(n)
    reset()
elif sys.argv[1]=='apply':
    reset()
    for n in sys.argv[2:]: FIX[n]()
