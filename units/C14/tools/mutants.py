# developer aid: mutation catalogue of C14 (needs a scratch worktree: git -C /repo worktree add --detach /tmp/wt-C14); prints one line per mutant.
# usage: python3 mutants.py [ids...]   (results of the last full run: NOTES.md)
import subprocess, os, sys, re
WT='/tmp/wt-C14'
SV='igris/container/static_vector.h'; SS='igris/container/static_string.h'; SP='igris/container/std_portable.h'
def reset(): subprocess.check_call(['git','-C',WT,'checkout','--','.'])
def rep(f, old, new, nth=0):
    p=os.path.join(WT,f); s=open(p).read()
    idxs=[m.start() for m in re.finditer(re.escape(old), s)]
    assert len(idxs)>nth,(f,old,len(idxs))
    i=idxs[nth]; s=s[:i]+new+s[i+len(old):]; open(p,'w').write(s)
# (id, description, file, old, new, nth, units)
M=[
 ('M01','push_back guard m_size >= N -> m_size > N',SV,'            if (m_size >= N)\n                return;\n            new (&_data[m_size]) T(obj);','            if (m_size > N)\n                return;\n            new (&_data[m_size]) T(obj);',0,['sv_push_back','sv_range_ctor']),
 ('M02','emplace_back forgets ++m_size',SV,'T(std::forward<Args>(args)...);\n            ++m_size;','T(std::forward<Args>(args)...);',0,['sv_push_back']),
 ('M03','operator[] returns slot pos+1',SV,'return *reinterpret_cast<T *>(&_data[pos]);','return *reinterpret_cast<T *>(&_data[pos + 1]);',0,['sv_access','sv_move_ctor']),
 ('M04','operator[] const returns slot pos+1',SV,'return *reinterpret_cast<const T *>(&_data[pos]);','return *reinterpret_cast<const T *>(&_data[pos + 1]);',0,['sv_access','sv_copy_ctor']),
 ('M05','room() off by one',SV,'return N - m_size;','return N - m_size - 1;',0,['sv_access']),
 ('M06','end() returns &_data[N]',SV,'return reinterpret_cast<T *>(&_data[m_size]);','return reinterpret_cast<T *>(&_data[N]);',0,['sv_access','sv_erase']),
 ('M07','back() reads slot m_size',SV,'return *reinterpret_cast<T *>(&_data[m_size - 1]);','return *reinterpret_cast<T *>(&_data[m_size]);',0,['sv_access']),
 ('M08','front() reads slot 1',SV,'        T &front()\n        {\n            return *reinterpret_cast<T *>(&_data[0]);','        T &front()\n        {\n            return *reinterpret_cast<T *>(&_data[1]);',0,['sv_access']),
 ('M09','data() returns &_data[1]',SV,'        T *data()\n        {\n            return reinterpret_cast<T *>(&_data[0]);','        T *data()\n        {\n            return reinterpret_cast<T *>(&_data[1]);',0,['sv_access']),
 ('M10','copy ctor skips element 0',SV,'for (std::size_t pos = 0; pos < m_size; ++pos)','for (std::size_t pos = 1; pos < m_size; ++pos)',0,['sv_copy_ctor']),
 ('M11','move ctor skips element 0',SV,'for (std::size_t pos = 0; pos < m_size; ++pos)','for (std::size_t pos = 1; pos < m_size; ++pos)',1,['sv_move_ctor']),
 ('M12','copy assignment skips element 0',SV,'for (std::size_t pos = 0; pos < m_size; ++pos)','for (std::size_t pos = 1; pos < m_size; ++pos)',2,['sv_copy_assign']),
 ('M13','move assignment skips element 0',SV,'for (std::size_t pos = 0; pos < m_size; ++pos)','for (std::size_t pos = 1; pos < m_size; ++pos)',3,['sv_move_assign']),
 ('M14','destructor skips element 0',SV,'for (std::size_t pos = 0; pos < m_size; ++pos)','for (std::size_t pos = 1; pos < m_size; ++pos)',4,['sv_dtor']),
 ('M15','default ctor memset one byte too many',SV,'memset(_data, 0, sizeof(_data));','memset(_data, 0, sizeof(_data) + 1);',0,['sv_default_ctor']),
 ('M16','resize loses the clamp to N',SV,'            if (newsize >= N)\n                newsize = N;\n','',0,['sv_resize']),
 ('M17','resize constructs from m_size+1',SV,'for (size_t i = m_size; i < newsize; ++i)','for (size_t i = m_size + 1; i < newsize; ++i)',0,['sv_resize']),
 ('M18','clear() sets m_size = 1',SV,'        void clear()\n        {\n            m_size = 0;','        void clear()\n        {\n            m_size = 1;',0,['sv_clear','sv_move_ctor']),
 ('M19','erase: m_size -= sz + 1',SV,'m_size -= sz;','m_size -= sz + 1;',0,['sv_erase']),
 ('M20','erase: moves the tail to first + 1',SV,'std::move(last, end(), first);','std::move(last, end(), first + 1);',0,['sv_erase']),
 ('M21','initializer-list ctor: m_size += 2',SV,'                new (&_data[m_size]) T(obj);\n                ++m_size;\n            }\n        }\n\n        // Create','                new (&_data[m_size]) T(obj);\n                m_size += 2;\n            }\n        }\n\n        // Create',0,['sv_ilist_ctor']),
 ('M22','range ctor stops one element early',SV,'for (; b != e; ++b)','for (; b != e && b + 1 != e; ++b)',0,['sv_range_ctor']),
 ('M23','size() returns N',SV,'        std::size_t size() const\n        {\n            return m_size;','        std::size_t size() const\n        {\n            return N;',0,['sv_access']),
 ('M24','begin() const returns &_data[1]',SV,'        const_iterator begin() const\n        {\n            return reinterpret_cast<const T *>(&_data[0]);','        const_iterator begin() const\n        {\n            return reinterpret_cast<const T *>(&_data[1]);',0,['sv_access']),
 ('S01','static_string push_back guard m_size > N',SS,'if (m_size >= N)','if (m_size > N)',0,['ss_ops']),
 ('S02','c_str writes the NUL at [m_size + 1]',SS,'data[m_size] = 0;','data[m_size + 1] = 0;',0,['ss_ops']),
 ('S03','static_string(const char*) size = strlen + 1',SS,'m_size = strlen(dat);','m_size = strlen(dat) + 1;',0,['ss_ctor_cstr']),
 ('S04','static_string room() off by one',SS,'return N - m_size;','return N + 1 - m_size;',0,['ss_ops']),
 ('S05','static_string end() one too far',SS,'return &data[m_size];','return &data[m_size + 1];',0,['ss_ops']),
 ('S06','static_string size() returns N',SS,'            return m_size;\n        }\n\n        // Delete','            return N;\n        }\n\n        // Delete',0,['ss_ops']),
 ('S07','static_string begin() returns &data[1]',SS,'return &data[0];','return &data[1];',0,['ss_ops']),
 ('P01','twin push_back guard m_size > N',SP,'            if (m_size >= N)\n                return;\n            new (&_data[m_size]) T(obj);','            if (m_size > N)\n                return;\n            new (&_data[m_size]) T(obj);',0,['p_sv_push_back']),
 ('P02','twin resize loses the clamp',SP,'            if (newsize >= N)\n                newsize = N;\n\n            for (size_t i = m_size; i < newsize; ++i)\n            {\n                new (&_data[i]) T{};','            for (size_t i = m_size; i < newsize; ++i)\n            {\n                new (&_data[i]) T{};',0,['p_sv_resize']),
 ('P03','twin static_string push_back guard m_size > N',SP,'            if (m_size >= N)\n                return;\n\n            _data[m_size++] = c;','            if (m_size > N)\n                return;\n\n            _data[m_size++] = c;',0,['p_ss_ops','p_ss_extras']),
 ('P04','twin static_string operator[] returns byte pos+1',SP,'        char &operator[](igris::size_t pos)\n        {\n            return _data[pos];','        char &operator[](igris::size_t pos)\n        {\n            return _data[pos + 1];',0,['p_ss_extras']),
 ('P05','twin move ctor skips element 0',SP,'for (igris::size_t pos = 0; pos < m_size; ++pos)','for (igris::size_t pos = 1; pos < m_size; ++pos)',1,['p_sv_move_ctor']),
 ('P06','twin static_string(p, n): size = n + 1',SP,'m_size = sz;','m_size = sz + 1;',1,['p_ss_ctor_ptrlen']),
]
only=sys.argv[1:] 
env=dict(os.environ, VERIF_REPO=WT, VERIF_JOBS='6', VERIF_EVIDENCE_DIR='/var/tmp/c14_ev')
for (mid,desc,f,old,new,nth,units) in M:
    if only and mid not in only: continue
    reset(); rep(f,old,new,nth)
    cmd=['/verif/vc','check','C14']+sum([['--unit',u] for u in units],[])
    out=subprocess.run(cmd,cwd='/verif',env=env,capture_output=True,text=True)
    lines=[l for l in out.stdout.splitlines() if l.startswith('VIOLATION') or l.startswith('UNDECIDED') or l.strip().startswith(('harness.','static_','ELEM_','std_move','memset','memcpy','strlen','igris_'))]
    viol=[re.search(r'replay=\S+/(C14-\S+)\.json( no-failing-input-found)?',l) for l in out.stdout.splitlines() if l.startswith('VIOLATION')]
    v=', '.join('%s%s'%(m.group(1)[4:], '' if m.group(2) else ' (replayed natively)') for m in viol if m)
    first=[l.strip() for l in out.stdout.splitlines() if re.match(r'\s+\S+\.\S+\s\s',l)]
    print('%s | %s | exit %d | %s | %s' % (mid,desc,out.returncode,v or '-', (first[0][:110] if first else (lines[0][:150] if lines else ''))), flush=True)
reset()
