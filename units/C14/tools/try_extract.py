#!/usr/bin/env python3
"""developer aid: run one recipe outside the driver and print the generated C.  usage: try_extract.py extract_sv.py [repo]"""
import ast, os, sys
sys.path.insert(0, '/verif')
from vclib import cxx2c
rec = ast.literal_eval(open(os.path.join(os.path.dirname(os.path.dirname(os.path.abspath(__file__))), sys.argv[1])).read())
repo = sys.argv[2] if len(sys.argv) > 2 else '/repo'
ov = '/var/tmp/c14_try_overlay'
for ex in rec:
    rep = cxx2c.extract(repo, ov, ex)
    print(open(os.path.join(ov, ex['out'])).read())
