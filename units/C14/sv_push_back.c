/*@unit {
 'kind': 'proof', 'mode': 'plain',
 'functions': ['static_vector::push_back', 'static_vector::emplace_back'],
 'extract': 'units/C14/extract_sv.py',
 'params': {'GROUP': [1, 2]},
 'clauses': 'for every capacity N >= 1 and every SV state: push_back(obj) / emplace_back(arg) append one element constructed from the argument when size < N '
            'and do nothing when size == N (excess input dropped, prefix kept); size <= N afterwards; only slot [old size] of the storage is written, every '
            'other slot, the argument and every byte outside the exact-size storage are untouched (pointer obligations); the new element is constructed '
            'over RAW storage exactly once (ELEM protocol), SV preserved; obj may be an element of the vector itself',
 'witness': {'unwind': 5},
 'assumptions': ['SV(v) on entry (type invariant), instantiated at the ghost slots', 'T = ELEM, N = CAP arbitrary in [1, 2^36]',
                 'emplace_back instantiated with a one-element pack (Args = int, T(int) = ELEM_construct_value)'],
} @*/
#define C14_HAVE_SV
#include "cxx/sv.c"
#include "c14_harness.h"

void harness(void)
{
    WIT(size_t, cap); WIT(size_t, m); WIT(size_t, k); WIT(int, val); WIT(size_t, alias); WIT(int, op);
    WIT_ARR(int, vals, 3);
    C14_SET_CAP(cap);
    g_k = k;
    struct static_vector v;
    c14_sv_any(&v, m, vals);
    C14_SV_AT(&v, m);       /* the slot push_back constructs */
    C14_SV_AT(&v, alias);   /* the element passed as argument */
    ELEM x; ELEM_SET(&x, ELEM_LIVE, val);
    const ELEM *obj = alias < m ? &v._data[alias] : &x;   /* the argument: a separate object or one of v's own elements */
    int objv = obj->v;
    ELEM *storage = v._data;
    ELEM old_k; ELEM_SET(&old_k, ELEM_RAW, 0);
    if (k < cap) old_k = v._data[k];

    if (op) static_vector_push_back(&v, obj);
    else { objv = val; static_vector_emplace_back(&v, val); }

    V(__CPROVER_assert(v._data == storage, "storage pointer untouched");)
    V(__CPROVER_assert(v.m_size == (m < cap ? m + 1 : cap), "size' == min(size + 1, N): appended within capacity, dropped when full");)
    V(__CPROVER_assert(SV_SIZE_OK(&v), "SV: m_size <= N");)
    V(__CPROVER_assert(ELEM_V(&x) == val && ELEM_ST(&x) == ELEM_LIVE, "the argument object is untouched");)
    if (k < cap) {
        if (k == m) V(__CPROVER_assert(ELEM_V(&v._data[k]) == objv, "the new last element has the argument's value");)
        else V(__CPROVER_assert(ELEM_V(&v._data[k]) == ELEM_V(&old_k), "every other element keeps its value (prefix kept)");)
        L(__CPROVER_assert(SV_SLOT_OK(&v, k), "SV: slots below m_size LIVE, the others RAW");)
        if (k != m) L(__CPROVER_assert(ELEM_ST(&v._data[k]) == ELEM_ST(&old_k), "no other slot changes its lifetime state");)
    }
    CANARY("push_back/emplace_back end reachable");
}
