/*@unit {
 'kind': 'proof', 'mode': 'dfcc',
 'functions': ['static_string::static_string(const char*)'],
 'extract': 'units/C14/extract_ss.py',
 'replace': ['strlen', 'memcpy'],
 'kf': ['C14_sstring_ctor_overflow'],
 'clauses': 'static_string(const char *s), for every capacity N >= 1 and every C string of length L >= 0 (an exact-size object of L+1 bytes; L unrelated to N): '
            'size == min(L, N), character k equals s[k] for every k < size (excess input dropped, prefix kept), the copy stays inside the exact-size storage of N+1 '
            'bytes, only s[0..L] is read [known finding C14_sstring_ctor_overflow carved out: L > N, where strlen(s) bytes are copied without clamping]',
 'witness': {'unwind': 8},
 'trusted': ['strlen / memcpy: ISO C 7.24.6.3 / 7.24.2.1 contracts in contracts/c14_libc.h (proved for the bundled shim by C08)'],
 'assumptions': ['s is a C string of length L (NUL at L, none before: stated at the ghost index)', 'N = CAP arbitrary in [1, 2^36], L in [0, 2^37]'],
} @*/
#include "c14_libc.h"
#define C14_HAVE_SS
#include "cxx/ss.c"
#include "c14_harness.h"

void harness(void)
{
    WIT(size_t, cap); WIT(size_t, len); WIT(size_t, k);
    WIT_ARR(char, content, 8);
    C14_SET_CAP(cap);
    __CPROVER_assume(len <= 2 * C14_MAXCAP);
    char *str = NEW_OBJ(len + 1);
    FILL(str, len + 1, content);
    __CPROVER_assume(str[len] == 0);
    if (k < len) __CPROVER_assume(str[k] != 0);
    g_strlen_L = len; g_strlen_k = k; g_memcpy_k = k;
    char old_k = k <= len ? str[k] : 0;
    struct static_string s;
    s.SS_DATA = (char *)NEW_OBJ(CAP + 1);
    static_string_nsdmi(&s);
    char *storage = s.SS_DATA;
    /* known finding: m_size = strlen(dat) and memcpy(data, dat, m_size) without clamping to N (region: L > N) */
    KF_REGION(KF_C14_sstring_ctor_overflow, len > cap);

    static_string_ctor_cstr(&s, str);

    __CPROVER_assert(s.SS_DATA == storage, "storage pointer untouched");
    __CPROVER_assert(s.m_size <= cap, "size <= N");
    __CPROVER_assert(s.m_size == C14_MIN(len, cap), "size == min(L, N)");
    if (k < s.m_size) __CPROVER_assert(s.SS_DATA[k] == old_k, "character k equals s[k] (prefix kept)");
    if (k <= len) __CPROVER_assert(str[k] == old_k, "the source string is not modified");
    CANARY("static_string(const char*) end reachable");
}
