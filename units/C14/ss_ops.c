/*@unit {
 'kind': 'proof', 'mode': 'plain',
 'functions': ['static_string::push_back', 'static_string::c_str', 'static_string::size', 'static_string::room', 'static_string::begin', 'static_string::end'],
 'extract': 'units/C14/extract_ss.py',
 'clauses': 'for every capacity N >= 1 and every state with size <= N (storage: an exact-size object of N+1 bytes): push_back(c) appends c when size < N and does '
            'nothing when size == N, every other byte of the storage untouched, size <= N preserved; c_str() returns the storage with the terminating NUL written at '
            '[size], which is inside the N+1 bytes, no other byte changed, size unchanged; size() == m_size, room() == N - size() (no wrap-around), begin() is byte 0, '
            'end() == begin() + size(); every access inside the storage (pointer obligations)',
 'witness': {'unwind': 8},
 'assumptions': ['size <= N on entry (type invariant)', 'N = CAP arbitrary in [1, 2^36]'],
} @*/
#define C14_HAVE_SS
#include "cxx/ss.c"
#include "c14_harness.h"

void harness(void)
{
    WIT(size_t, cap); WIT(size_t, m); WIT(size_t, k); WIT(char, c); WIT(int, op);
    WIT_ARR(char, content, 4);
    C14_SET_CAP(cap);
    struct static_string s;
    c14_ss_any(&s, m, content);
    char *storage = s.SS_DATA;
    char old_k = k <= cap ? s.SS_DATA[k] : 0;
    int changed = 0;   /* 1: byte [m] may change */

    switch (op) {
    case 0:
        static_string_push_back(&s, c);
        __CPROVER_assert(s.m_size == (m < cap ? m + 1 : cap), "push_back: size' == min(size + 1, N): appended within capacity, dropped when full");
        if (m < cap) { __CPROVER_assert(s.SS_DATA[m] == c, "push_back: the character is stored at [old size]"); changed = 1; }
        break;
    case 1: {
        const char *r = static_string_c_str(&s);
        __CPROVER_assert(r == storage, "c_str() is the storage");
        __CPROVER_assert(s.m_size == m, "c_str() leaves size");
        __CPROVER_assert(r[m] == 0, "c_str()[size] == 0, written inside the N+1 bytes");
        changed = 1;
        break; }
    case 2: __CPROVER_assert(static_string_size(&s) == m && s.m_size == m, "size() == m_size"); break;
    case 3: __CPROVER_assert(static_string_room(&s) == cap - m && static_string_room(&s) <= cap && s.m_size == m, "room() == N - size(), in 0..N"); break;
    case 4: __CPROVER_assert(static_string_begin(&s) == storage && s.m_size == m, "begin() is byte 0 of the storage"); break;
    default: __CPROVER_assert(static_string_end(&s) == storage + m && s.m_size == m, "end() == begin() + size()"); break;
    }
    __CPROVER_assert(s.SS_DATA == storage && s.m_size <= cap, "storage pointer untouched, size <= N");
    if (k <= cap && !(changed && k == m)) __CPROVER_assert(s.SS_DATA[k] == old_k, "every other byte of the storage is unchanged");
    CANARY("static_string operations end reachable");
}
