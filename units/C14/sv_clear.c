/*@unit {
 'kind': 'proof', 'mode': 'plain',
 'functions': ['static_vector::clear'],
 'extract': 'units/C14/extract_sv.py',
 'params': {'GROUP': [1, 2]},
 'kf': ['C14_clear_no_destroy'], 'kf_probe_case': {'C14_clear_no_destroy': {'GROUP': 2}},
 'clauses': 'clear(), for every capacity N >= 1 and every SV state: size becomes 0, nothing outside the storage is written; every element is destroyed exactly '
            'once: all slots RAW afterwards [known finding C14_clear_no_destroy carved out of the lifetime group: size > 0]',
 'witness': {'unwind': 5},
 'assumptions': ['SV(v) on entry (type invariant), instantiated at the ghost slot', 'T = ELEM, N = CAP arbitrary in [1, 2^36]'],
} @*/
#define C14_HAVE_SV
#include "cxx/sv.c"
#include "c14_harness.h"

void harness(void)
{
    WIT(size_t, cap); WIT(size_t, m); WIT(size_t, k);
    WIT_ARR(int, vals, 3);
    C14_SET_CAP(cap);
    g_k = k;
    struct static_vector v;
    c14_sv_any(&v, m, vals);
    ELEM *storage = v._data;
#ifdef KF_C14_clear_no_destroy
    L(KF_REGION(KF_C14_clear_no_destroy, m > 0);)
#endif

    static_vector_clear(&v);

    V(__CPROVER_assert(v._data == storage, "storage pointer untouched");)
    V(__CPROVER_assert(v.m_size == 0, "empty after clear()");)
    if (k < cap) L(__CPROVER_assert(SV_SLOT_OK(&v, k), "SV: every slot RAW after clear() (each element destroyed exactly once)");)
    CANARY("clear end reachable");
}
