// static_string<N>::operator[] in igris/container/static_string.h returns `&data[pos]` from a function returning char&:
// the template member does not compile as soon as it is used.   g++ -std=c++17 -I/repo -fsyntax-only C14_sstring_index.cpp
#include <igris/container/static_string.h>
char f() { igris::static_string<4> s; s.push_back('a'); return s[0]; }
