// Native reproducer for the C14 lifetime findings (real igris/container/static_vector.h).
// Element type `Cnt` counts constructions / destructions and tracks, per address, whether an object is alive:
//   double_ctor : a constructor ran on an address that already holds a live object
//   dead_assign : an assignment ran on an address that holds no live object
//   dead_dtor   : a destructor ran on an address that holds no live object
//   live        : objects alive now (must be 0 once every container is gone)
// build: g++ -std=c++17 -I/repo [-DTWIN] C14_lifetime.cpp && ./a.out   (exit 1 = at least one defect observed)
#include <cstdio>
#include <set>
#ifdef TWIN
#include <igris/container/std_portable.h>
#else
#include <igris/container/static_vector.h>
#endif
static std::set<const void *> alive;
static int double_ctor, dead_assign, dead_dtor;
struct Cnt
{
    int v;
    void born() { if (!alive.insert(this).second) ++double_ctor; }
    Cnt() : v(0) { born(); }
    Cnt(int x) : v(x) { born(); }
    Cnt(const Cnt &o) : v(o.v) { born(); }   // copy-only: std::move(x) copies, as for every type without a move ctor
    Cnt &operator=(const Cnt &o) { if (!alive.count(this)) ++dead_assign; v = o.v; return *this; }
    ~Cnt() { if (!alive.erase(this)) ++dead_dtor; }
};
static int bad;
static void report(const char *what)
{
    int live = (int)alive.size();
    int b = live || double_ctor || dead_assign || dead_dtor;
    printf("%-44s live=%d double_ctor=%d dead_assign=%d dead_dtor=%d %s\n", what, live, double_ctor, dead_assign, dead_dtor, b ? "DEFECT" : "ok");
    bad |= b; alive.clear(); double_ctor = dead_assign = dead_dtor = 0;
}
typedef igris::static_vector<Cnt, 4> V;
static void fill(V &v, int n) { for (int i = 0; i < n; i++) v.push_back(Cnt(10 + i)); }
int main()
{
    { V a; fill(a, 3); } report("push_back x3 + destructor");
    { V a; fill(a, 3); a.clear(); } report("clear() on 3 elements");
    { V a; fill(a, 3); a.resize(1); } report("resize(1) on 3 elements");
    { V a; fill(a, 1); a.resize(3); } report("resize(3) on 1 element");
    { V a, b; fill(a, 3); fill(b, 2); a = b; } report("copy assignment 3 <- 2");
    { V a, b; fill(a, 1); fill(b, 2); a = b; } report("copy assignment 1 <- 2");
    { V a, b; fill(b, 2); a = b; } report("copy assignment 0 <- 2");
    { V a, b; fill(a, 3); fill(b, 2); a = std::move(b); } report("move assignment 3 <- 2");
    { V a, b; fill(b, 2); a = std::move(b); } report("move assignment 0 <- 2");
    { V b; fill(b, 2); V a(std::move(b)); } report("move constructor from 2");
    { V b; fill(b, 2); V a(b); } report("copy constructor from 2");
#ifndef TWIN
    { V a; fill(a, 4); a.erase(a.begin() + 1, a.begin() + 2); } report("erase [1,2) of 4 (tail 2)");
    { V a; fill(a, 4); a.erase(a.begin() + 2, a.end()); } report("erase [2,4) of 4 (no tail)");
    { Cnt src[6] = {1, 2, 3, 4, 5, 6}; V a(src, src + 6); printf("  range ctor of 6 into N=4: size=%zu\n", a.size()); } report("iterator-range constructor, 6 > N");
#endif
    return bad;
}
