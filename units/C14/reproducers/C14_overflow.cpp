// Native reproducer for the C14 capacity findings (AddressSanitizer).
// build: g++ -std=c++17 -fsanitize=address -g -I/repo -DCASE=k [-DTWIN] C14_overflow.cpp && ./a.out
//   CASE 1: static_vector<int,2>{1,2,3,4,5,6}   initializer-list constructor writes past _data[N]   (static_vector.h only)
//   CASE 2: static_string<4>(STR)               static_string(const char*) copies strlen bytes, no clamp
//   CASE 3: static_string<4>(STR, strlen(STR))  static_string(const char*, size_t)                    (std_portable.h only)
//   STR is 10 characters: the copy runs over data[N+1] into m_size inside the same object (size() then reports 14648, exit 1);
//   with -DLONG it is 30 characters and leaves the heap object (AddressSanitizer heap-buffer-overflow).
#include <cstdio>
#include <cstring>
#ifdef LONG
#define STR "012345678901234567890123456789"
#else
#define STR "0123456789"
#endif
#ifdef TWIN
#include <igris/container/std_portable.h>
#else
#include <igris/container/static_string.h>
#include <igris/container/static_vector.h>
#endif
int main()
{
#if CASE == 1
    auto *v = new igris::static_vector<int, 2>{1, 2, 3, 4, 5, 6};
    printf("size=%zu (capacity 2)\n", v->size());
    delete v;
#elif CASE == 2
    auto *s = new igris::static_string<4>(STR);
    size_t sz = s->size();
    printf("size=%zu (capacity 4)\n", sz);
    delete s;
    return sz > 4;
#elif CASE == 3
    auto *s = new igris::static_string<4>(STR, strlen(STR));
    size_t sz = s->size();
    printf("size=%zu (capacity 4)\n", sz);
    delete s;
    return sz > 4;
#endif
    return 0;
}
