/*@unit {
 'kind': 'proof', 'mode': 'legacy',
 'functions': ['static_vector::~static_vector'],
 'extract': 'units/C14/extract_sv.py',
 'params': {'GROUP': [1, 2]},
 'inject': [{'file': 'overlay:cxx/sv.c', 'func': 'static_vector_dtor', 'loop': 0, 'expect': 'pos < self->m_size',
             'assigns': 'pos, __CPROVER_object_whole(self->_data)',
             'invariants': ['pos <= self->m_size', 'SPEC_CLR(g_k)'],
             'decreases': 'self->m_size - pos'},
            {'file': 'overlay:cxx/sv.c', 'func': 'static_vector_dtor', 'ghost': 'G_INST(SPEC_CLR(pos));', 'at': 'body-begin', 'loop': 0}],
 'clauses': 'destructor, for every capacity N >= 1 and every valid state (elements LIVE or MOVED-from below size, RAW above): every constructed object is destroyed '
            'exactly once (ELEM_destroy only on LIVE|MOVED slots), every slot is RAW afterwards, nothing outside the storage is touched',
 'witness': {'unwind': 5}, 'fallback': 'ghost-free',
 'assumptions': ['valid state on entry (SV with moved-from elements allowed), instantiated at the ghost slot and at the slot the loop destroys', 'T = ELEM, N = CAP arbitrary in [1, 2^36]'],
} @*/
#include "c14_sv.h"
#define C14_HAVE_SV
#include "cxx/sv.c"
#include "c14_harness.h"

void harness(void)
{
    WIT(size_t, cap); WIT(size_t, m); WIT(size_t, k); WIT(uchar, st);
    WIT_ARR(int, vals, 3);
    C14_SET_CAP(cap);
    g_k = k;
    struct static_vector v;
    c14_sv_any(&v, m, vals);
    if (k < m && st) ELEM_SET(&v._data[k], ELEM_MOVED, ELEM_V(&v._data[k]));   /* an element may be in the moved-from state */
    ELEM *storage = v._data;

    static_vector_dtor(&v);

    V(__CPROVER_assert(v._data == storage, "storage pointer untouched");)
    V(__CPROVER_assert(v.m_size == 0, "size 0 after destruction");)
    if (k < cap) L(__CPROVER_assert(ELEM_ST(&v._data[k]) == ELEM_RAW, "every slot RAW at destruction: each constructed element destroyed exactly once");)
    CANARY("destructor end reachable");
}
