#!/usr/bin/env python3
"""Writes the four cxx2c recipe files of C14 (python literals read by the driver):
     extract_sv.py            static_vector<T,N>   from igris/container/static_vector.h
     extract_sv_portable.py   its twin             from igris/container/std_portable.h
     extract_ss.py            static_string<N>     from igris/container/static_string.h
     extract_ss_portable.py   its twin             from igris/container/std_portable.h
   The twins use the SAME rewrite rules (the regexes accept std:: and igris:: spellings); only the file name, the
   name of the storage member and the list of members that exist differ.  Run after editing:  python3 gen_recipes.py
   Nothing here is C code of a container: every function body comes out of /repo by position at check time."""
import os
import pprint

HERE = os.path.dirname(os.path.abspath(__file__))
NS = r'(?:std|igris)'


def sv(file, twin):
    TP = {'std::size_t': 'size_t', 'igris::size_t': 'size_t', 'const_iterator': 'const ELEM *', 'iterator': 'ELEM *',
          'T': 'ELEM', 'N': 'CAP'}
    C = 'static_vector'
    base = {'op': 'func', 'file': file, 'in_class': C, 'self': C, 'members': ['_data', 'm_size'], 'tparams': TP}

    def f(name, cname, **kw):
        d = dict(base)
        d.update({'name': name, 'as': cname})
        d.update(kw)
        return d

    # R5: placement-new / destructor calls -> ELEM protocol functions; R6: reference return -> pointer return
    ret_ref = [[r'return \*', 'return ', 1]]

    def dtor_call(ix, mn):      # reinterpret_cast<T *>(&_data[ix])->~T();
        return [r'\(ELEM \*\)\((&self->_data\[%s\])\)->~ELEM\(\);' % ix, r'ELEM_destroy((ELEM *)(\1));', mn]
    # operator=: `if (this == &other) return *this; clear();` exists only in the repaired code (C14_assign_over_live.patch)
    self_guard = [r'\(self == &\(\*other\)\)', '(self == other)', 0]
    pieces = [
        {'op': 'glue', 'text': '#include "c14_sv.h"\n#include "c14_std_stubs.h"\n#include "elem_algos.h"\n'
                               '/* R4: the inline storage member, copied here as an anchor (the extraction stops if it changes):'},
        {'op': 'lines', 'file': file,
         'regex': r'^\s*typename ' + NS + r'::aligned_storage<sizeof\(T\), alignof\(T\)>::type _data\[N\];\s*$', 'min': 1},
        {'op': 'glue', 'text': '   it becomes `ELEM *_data`, a pointer to a separate object of exactly N slots (spec/c14_sv.h), declared by the\n'
                               '   struct piece below in front of m_size (same member order as the class). */'},
        {'op': 'struct', 'file': file, 'name': C, 'ctor': 'static_vector_nsdmi',
         'tparams': {'std::size_t m_size': 'ELEM *_data; size_t m_size', 'igris::size_t m_size': 'ELEM *_data; size_t m_size'}},
        # ---- accessors
        f('operator[]', 'static_vector_at', occurrence=0, ret='ELEM *', rewrite=ret_ref),
        f('operator[]', 'static_vector_at_c', occurrence=1, ret='const ELEM *', const_self=True, rewrite=ret_ref),
        f('data', 'static_vector_data', occurrence=0),
        f('data', 'static_vector_data_c', occurrence=1, const_self=True),
        f('room', 'static_vector_room', const_self=True),
        f('size', 'static_vector_size', const_self=True),
        f('begin', 'static_vector_begin', occurrence=0),
        f('end', 'static_vector_end', occurrence=0),
        f('begin', 'static_vector_begin_c', occurrence=1, const_self=True),
        f('end', 'static_vector_end_c', occurrence=1, const_self=True),
        f('back', 'static_vector_back', occurrence=0, ret='ELEM *', rewrite=ret_ref),
        f('back', 'static_vector_back_c', occurrence=1, ret='const ELEM *', const_self=True, rewrite=ret_ref),
        f('front', 'static_vector_front', occurrence=0, ret='ELEM *', rewrite=ret_ref),
        f('front', 'static_vector_front_c', occurrence=1, ret='const ELEM *', const_self=True, rewrite=ret_ref),
        # ---- modifiers
        # (the destructor-call rule fires only once clear() destroys its elements: proposed_fixes/C14_clear_no_destroy.patch)
        f('clear', 'static_vector_clear', rewrite=[dtor_call('pos', 0)]),
        f('push_back', 'static_vector_push_back', refs=['obj'],
          rewrite=[[r'new \((&self->_data\[self->m_size\])\) ELEM\(\(\*obj\)\);', r'ELEM_copy_construct(\1, obj);', 1]]),
        f('emplace_back', 'static_vector_emplace_back', ret='void',
          sig_rewrite=[[r'Args &&\.\.\. args', 'int args', 1]],
          rewrite=[[r'new \((&self->_data\[self->m_size\])\) ELEM\(' + NS + r'::forward<Args>\(args\)\.\.\.\);',
                    r'ELEM_construct_value(\1, args);', 1]]),
        f('resize', 'static_vector_resize',
          rewrite=[[r'new \((&self->_data\[i\])\) ELEM\{\};', r'ELEM_construct_default(\1);', 1], dtor_call('i', 0)]),
        # ---- special members
        # constructors are told apart by their position in the class: 0 default, 1 copy, 2 move, 3 iterator range, 4 initializer list
        f('static_vector', 'static_vector_ctor_default', occurrence=0,
          rewrite=[[r'sizeof\(self->_data\)', '(CAP * sizeof(ELEM))', 1]]),
        f('static_vector', 'static_vector_ctor_copy', occurrence=1, refs=['other'],
          rewrite=[[r'new \((&self->_data\[pos\])\) ELEM\(\(\*other\)\[pos\]\);',
                    r'ELEM_copy_construct(\1, static_vector_at_c(other, pos));', 1]]),
        f('static_vector', 'static_vector_ctor_move', occurrence=2, refs=['other'],
          sig_rewrite=[[r'&\*other', '*other', 1]],
          rewrite=[[r'new \((&self->_data\[pos\])\) ELEM\(' + NS + r'::move\(\(\*other\)\[pos\]\)\);',
                    r'ELEM_move_construct(\1, static_vector_at(other, pos));', 1],
                   [r'other->clear\(\)', 'static_vector_clear(other)', 0 if twin else 1]]),
        f('operator=', 'static_vector_assign_copy', occurrence=0, refs=['other'], ret='struct static_vector *',
          methods={'clear': 'static_vector_clear'},
          rewrite=[self_guard, [r'new \((&self->_data\[pos\])\) ELEM\(\(\*other\)\[pos\]\);',
                    r'ELEM_copy_construct(\1, static_vector_at_c(other, pos));', 1],
                   [r'return \*self;', 'return self;', 1]]),
        f('operator=', 'static_vector_assign_move', occurrence=1, refs=['other'], ret='struct static_vector *',
          methods={'clear': 'static_vector_clear'},
          sig_rewrite=[[r'&\*other', '*other', 1]],
          rewrite=[self_guard, [r'new \((&self->_data\[pos\])\) ELEM\(' + NS + r'::move\(\(\*other\)\[pos\]\)\);',
                    r'ELEM_move_construct(\1, static_vector_at(other, pos));', 1],
                   [r'other->clear\(\)', 'static_vector_clear(other)', 0 if twin else 1],
                   [r'return \*self;', 'return self;', 1]]),
        f('~static_vector', 'static_vector_dtor', ret='void',
          rewrite=[dtor_call('pos', 1)]),
    ]
    if not twin:
        pieces += [
            # igris::destructor(p) is p->~T() (igris/util/ctrdtr.h), extracted too
            {'op': 'func', 'file': 'igris/util/ctrdtr.h', 'name': 'destructor', 'as': 'igris_destructor', 'ret': 'void',
             'tparams': {'T': 'ELEM'}, 'rewrite': [[r'ptr->~ELEM\(\);', 'ELEM_destroy(ptr);', 1]]},
            f('erase', 'static_vector_erase', methods={'end': 'static_vector_end'},
              rewrite=[[r'igris::destructor\(', 'igris_destructor(', 1],
                       [r'std::move\(', 'std_move_range(', 1]]),     # the 3-argument algorithm std::move(first, last, d_first)
            # template <class It> static_vector(It b, It e), It = const T *
            f('static_vector', 'static_vector_ctor_range', occurrence=3, methods={'push_back': 'static_vector_push_back'},
              tparams=dict(TP, It='const ELEM *'),
              rewrite=[[r'static_vector_push_back\(self, \*b\)', 'static_vector_push_back(self, b)', 1]]),
            # std::initializer_list<T> = (array, length); range-for -> index loop (R10)
            f('static_vector', 'static_vector_ctor_ilist', occurrence=4,
              sig_rewrite=[[r'const std::initializer_list<ELEM> &lst', 'const ELEM *lst, size_t lst_len', 1]],
              rewrite=[[r'for \(auto &obj : lst\)(\s*)\{',
                        r'for (size_t lst_i = 0; lst_i < lst_len; ++lst_i)\1{ const ELEM *obj = &lst[lst_i];', 1],
                       [r'new \((&self->_data\[self->m_size\])\) ELEM\(obj\);', r'ELEM_copy_construct(\1, obj);', 1]]),
        ]
    methods_all = {C: {'begin': 'static_vector_begin', 'end': 'static_vector_end', 'data': 'static_vector_data', 'size': 'static_vector_size',
                       'room': 'static_vector_room', 'clear': 'static_vector_clear', 'push_back': 'static_vector_push_back',
                       'resize': 'static_vector_resize'}}
    return [{'out': 'cxx/sv.c', 'typedefs': ['static_vector'], 'std_after': ['elemalgos'], 'methods_all': methods_all, 'pieces': pieces}]


def ss(file, twin):
    TP = {'std::size_t': 'size_t', 'igris::size_t': 'size_t', 'const_iterator': 'const char *', 'iterator': 'char *', 'N': 'CAP'}
    C = 'static_string'
    D = '_data' if twin else 'data'
    base = {'op': 'func', 'file': file, 'in_class': C, 'self': C, 'members': [D, 'm_size'], 'tparams': TP}

    def f(name, cname, **kw):
        d = dict(base)
        d.update({'name': name, 'as': cname})
        d.update(kw)
        return d

    pieces = [
        {'op': 'glue', 'text': '#include "c14_sv.h"\n'
                               '/* R4: the inline storage member, copied here as an anchor (the extraction stops if it changes):'},
        {'op': 'lines', 'file': file, 'regex': r'^\s*mutable char %s\[N \+ 1\];\s*$' % D, 'min': 1},
        {'op': 'glue', 'text': '   it becomes `char *%s`, a pointer to a separate object of exactly N+1 bytes. */' % D},
        {'op': 'struct', 'file': file, 'name': C, 'ctor': 'static_string_nsdmi', 'drop_fields': [D],
         'tparams': {'std::size_t m_size': 'char *%s; size_t m_size' % D, 'igris::size_t m_size': 'char *%s; size_t m_size' % D}},
        f('static_string', 'static_string_ctor_cstr', occurrence=0),
        f('room', 'static_string_room'),
        f('size', 'static_string_size'),
        f('begin', 'static_string_begin'),
        f('end', 'static_string_end'),
        f('push_back', 'static_string_push_back'),
        f('c_str', 'static_string_c_str', const_self=True),
    ]
    if twin:
        pieces += [
            f('static_string', 'static_string_ctor_ptrlen', occurrence=1),
            f('data', 'static_string_data'),
            f('clear', 'static_string_clear'),
            f('operator+=', 'static_string_append_char', ret='struct static_string *', methods={'push_back': 'static_string_push_back'},
              rewrite=[[r'return \*self;', 'return self;', 1]]),
            f('operator[]', 'static_string_at', occurrence=0, ret='char *', rewrite=[[r'return ', 'return &', 1]]),
            f('operator[]', 'static_string_at_c', occurrence=1, const_self=True),
        ]
    return [{'out': 'cxx/ss.c', 'typedefs': ['static_string'], 'pieces': pieces}]


def main():
    out = {
        'extract_sv.py': sv('igris/container/static_vector.h', False),
        'extract_sv_portable.py': sv('igris/container/std_portable.h', True),
        'extract_ss.py': ss('igris/container/static_string.h', False),
        'extract_ss_portable.py': ss('igris/container/std_portable.h', True),
    }
    for name, lit in out.items():
        with open(os.path.join(HERE, name), 'w') as fh:
            fh.write('# GENERATED by units/C14/gen_recipes.py (cxx2c recipe, a python literal; see vclib/cxx2c.py)\n')
            fh.write(pprint.pformat(lit, width=150, sort_dicts=False))
            fh.write('\n')


if __name__ == '__main__':
    main()
