/*@unit {
 'kind': 'proof', 'mode': 'legacy',
 'functions': ['static_vector::operator=(const static_vector&)', 'static_vector::operator[] const'],
 'extract': 'units/C14/extract_sv.py',
 'params': {'GROUP': [1, 2]},
 'kf': ['C14_assign_over_live'], 'kf_probe_case': {'C14_assign_over_live': {'GROUP': 2}},
 'inject': [{'file': 'overlay:cxx/sv.c', 'func': 'static_vector_assign_copy', 'loop': 0, 'expect': 'pos < self->m_size',
             'assigns': 'pos, __CPROVER_object_whole(self->_data)',
             'invariants': ['pos <= self->m_size', 'SPEC_INV(g_k)'],
             'decreases': 'self->m_size - pos'},
            {'file': 'overlay:cxx/sv.c', 'func': 'static_vector_assign_copy', 'ghost': 'G_INST(SPEC_INV(pos));', 'at': 'body-begin', 'loop': 0}],
 'clauses': 'copy assignment a = b (a, b distinct objects), for every capacity N >= 1, every SV(a) and SV(b): a has b.size() <= N elements equal to b[k] for every k, '
            'b is unchanged, returns *this, nothing outside a\'s exact-size storage is written [value group: all states]; every old element of a is destroyed exactly '
            'once, every new one constructed over RAW storage, slots from the new size on RAW [lifetime group; known finding C14_assign_over_live carved out: a non-empty]',
 'witness': {'unwind': 5},
 'assumptions': ['SV(a), SV(b) on entry, instantiated at the ghost slot and at the slot the loop touches', 'a and b are different objects (self-assignment not covered)',
                 'T = ELEM, N = CAP arbitrary in [1, 2^36]'],
} @*/
#include "c14_sv.h"
size_t g_m0;   /* a.size() on entry */
/* slot j: assigned prefix [0,pos) == b's prefix; from pos on: slots beyond the old size still RAW, the ghost slot unchanged; b's slot j LIVE below b.size */
#define SPEC_INV(j) ((j) >= CAP || (((j) < pos ? (ELEM_ST(&self->_data[j]) == ELEM_LIVE && ELEM_V(&self->_data[j]) == ELEM_V(&other->_data[j])) \
                                               : ((j) >= g_m0 ? ELEM_ST(&self->_data[j]) == ELEM_RAW \
                                                              : ((j) != g_k || (ELEM_V(&self->_data[j]) == ELEM_V(&g_old_k) && ELEM_ST(&self->_data[j]) == ELEM_ST(&g_old_k))))) && \
                                    ((j) >= other->m_size || ELEM_ST(&other->_data[j]) == ELEM_LIVE)))
#define C14_HAVE_SV
#include "cxx/sv.c"
#include "c14_harness.h"

void harness(void)
{
    WIT(size_t, cap); WIT(size_t, m0); WIT(size_t, m); WIT(size_t, k);
    WIT_ARR(int, vals, 3); WIT_ARR(int, ovals, 3);
    C14_SET_CAP(cap);
    g_k = k; g_m0 = m0;
    struct static_vector o, v;
    c14_sv_any(&o, m, ovals);
    c14_sv_any(&v, m0, vals);
    ELEM *o_storage = o._data, *storage = v._data;
    ELEM o_k; ELEM_SET(&o_k, ELEM_RAW, 0);
    if (k < cap) { o_k = o._data[k]; g_old_k = v._data[k]; }
#ifdef KF_C14_assign_over_live
    /* known finding: the old elements are neither destroyed nor assigned to, the new ones are constructed on top of them
       (region: the assigned-to vector is not empty); it affects only the lifetime group */
    L(KF_REGION(KF_C14_assign_over_live, m0 > 0);)
#endif

    struct static_vector *r = static_vector_assign_copy(&v, &o);

    V(__CPROVER_assert(r == &v, "returns *this");)
    V(__CPROVER_assert(v._data == storage && o._data == o_storage, "storage pointers untouched");)
    V(__CPROVER_assert(v.m_size == m && SV_SIZE_OK(&v), "size' == other.size() <= N");)
    V(__CPROVER_assert(o.m_size == m, "other keeps its size");)
    if (k < cap) {
        if (k < m) V(__CPROVER_assert(ELEM_V(&v._data[k]) == ELEM_V(&o_k), "element k is a copy of other[k]");)
        V(__CPROVER_assert(ELEM_V(&o._data[k]) == ELEM_V(&o_k), "other's elements keep their values");)
        L(__CPROVER_assert(SV_SLOT_OK(&v, k), "SV: slots below m_size LIVE, the others RAW (old elements destroyed exactly once)");)
        L(__CPROVER_assert(ELEM_ST(&o._data[k]) == ELEM_ST(&o_k), "other's elements keep their lifetime state");)
    }
    CANARY("copy assignment end reachable");
}
