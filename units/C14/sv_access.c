/*@unit {
 'kind': 'proof', 'mode': 'plain',
 'functions': ['static_vector::operator[]', 'static_vector::operator[] const', 'static_vector::data', 'static_vector::data const', 'static_vector::room',
               'static_vector::size', 'static_vector::begin', 'static_vector::end', 'static_vector::begin const', 'static_vector::end const',
               'static_vector::back', 'static_vector::back const', 'static_vector::front', 'static_vector::front const'],
 'extract': 'units/C14/extract_sv.py',
 'clauses': 'observers, for every capacity N >= 1 and every SV state: size() == m_size <= N, room() == N - size() (no wrap-around), data()/begin() point at slot 0 of '
            'the storage, end() == begin() + size() (inside or one past the storage), operator[](i) for i < size() / front() / back() (size() >= 1) point at the LIVE '
            'element i / 0 / size()-1 inside the storage; none of them writes anything (container and every slot unchanged)',
 'native_cxx_probes': [{'file': 'units/C14/native/static_vector_model_probe.cpp', 'run': True,
                        'what': 'real igris::static_vector<T,4> (not the extraction) against a truncated std::vector model with a lifetime-tracking element type',
                        'bound': 'capacity 4; one operation (push_back/emplace_back incl. full, erase of every range, resize, clear, copy/move construction and assignment between all lengths, range and initializer-list construction of 0..6 elements) from every start state of 0..4 elements: 199 state x operation pairs'}],
 'witness': {'unwind': 5},
 'assumptions': ['SV(v) on entry (type invariant), instantiated at the ghost slot and the slot accessed', 'operator[] index < size(), front()/back() on a non-empty vector (as for std::vector)',
                 'T = ELEM, N = CAP arbitrary in [1, 2^36]'],
} @*/
#define C14_HAVE_SV
#include "cxx/sv.c"
#include "c14_harness.h"

void harness(void)
{
    WIT(size_t, cap); WIT(size_t, m); WIT(size_t, k); WIT(size_t, i); WIT(int, op);
    WIT_ARR(int, vals, 3);
    C14_SET_CAP(cap);
    g_k = k;
    struct static_vector v;
    c14_sv_any(&v, m, vals);
    ELEM *storage = v._data;
    ELEM old_k; ELEM_SET(&old_k, ELEM_RAW, 0);
    if (k < cap) old_k = v._data[k];
    const ELEM *e = 0;
    size_t want = 0;

    switch (op) {
    case 0: __CPROVER_assert(static_vector_size(&v) == m && m <= cap, "size() == m_size <= N"); break;
    case 1: __CPROVER_assert(static_vector_room(&v) == cap - m && static_vector_room(&v) <= cap, "room() == N - size(), in 0..N"); break;
    case 2: __CPROVER_assert(static_vector_data(&v) == storage && static_vector_data_c(&v) == storage, "data() is slot 0 of the storage"); break;
    case 3: __CPROVER_assert(static_vector_begin(&v) == storage && static_vector_begin_c(&v) == storage, "begin() is slot 0 of the storage"); break;
    case 4: __CPROVER_assert(static_vector_end(&v) == storage + m && static_vector_end_c(&v) == storage + m, "end() == begin() + size()"); break;
    case 5: __CPROVER_assume(i < m); C14_SV_AT(&v, i); e = static_vector_at(&v, i); want = i; break;
    case 6: __CPROVER_assume(i < m); C14_SV_AT(&v, i); e = static_vector_at_c(&v, i); want = i; break;
    case 7: __CPROVER_assume(m >= 1); C14_SV_AT(&v, 0); e = static_vector_front(&v); want = 0; break;
    case 8: __CPROVER_assume(m >= 1); C14_SV_AT(&v, 0); e = static_vector_front_c(&v); want = 0; break;
    case 9: __CPROVER_assume(m >= 1); C14_SV_AT(&v, m - 1); e = static_vector_back(&v); want = m - 1; break;
    default: __CPROVER_assume(m >= 1); C14_SV_AT(&v, m - 1); e = static_vector_back_c(&v); want = m - 1; break;
    }
    if (e) {
        __CPROVER_assert(e == storage + want, "element reference points at the requested slot inside the storage");
        __CPROVER_assert(ELEM_value(e) == ELEM_V(&storage[want]), "the referenced element is LIVE (readable)");
    }
    __CPROVER_assert(v._data == storage && v.m_size == m, "observers leave the container unchanged");
    if (k < cap) __CPROVER_assert(ELEM_V(&v._data[k]) == ELEM_V(&old_k) && ELEM_ST(&v._data[k]) == ELEM_ST(&old_k), "observers leave every slot unchanged");
    CANARY("observers end reachable");
}
