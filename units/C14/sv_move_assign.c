/*@unit {
 'kind': 'proof', 'mode': 'legacy',
 'functions': ['static_vector::operator=(static_vector&&)', 'static_vector::operator[]', 'static_vector::clear'],
 'extract': 'units/C14/extract_sv.py',
 'params': {'GROUP': [1, 2]},
 'kf': ['C14_assign_over_live', 'C14_clear_no_destroy'], 'kf_probe_case': {'C14_assign_over_live': {'GROUP': 2}, 'C14_clear_no_destroy': {'GROUP': 2}},
 'inject': [{'file': 'overlay:cxx/sv.c', 'func': 'static_vector_assign_move', 'loop': 0, 'expect': 'pos < self->m_size',
             'assigns': 'pos, __CPROVER_object_whole(self->_data), __CPROVER_object_whole(other->_data)',
             'invariants': ['pos <= self->m_size', 'SPEC_INV(g_k)'],
             'decreases': 'self->m_size - pos'},
            {'file': 'overlay:cxx/sv.c', 'func': 'static_vector_assign_move', 'ghost': 'G_INST(SPEC_INV(pos));', 'at': 'body-begin', 'loop': 0}],
 'clauses': 'move assignment a = std::move(b) (a, b distinct objects), for every capacity N >= 1, every SV(a) and SV(b): a has the old b.size() <= N elements with the '
            'old values in order, b is left with a size <= N, returns *this, nothing outside the two exact-size storages is written [value group: all states]; every old '
            'element of a is destroyed exactly once, every new one move-constructed over RAW storage from a LIVE source, and b is left in a state in which every object '
            'it still holds is counted by its size [lifetime group; known findings C14_assign_over_live (a non-empty) and C14_clear_no_destroy (b non-empty) carved out]',
 'witness': {'unwind': 5},
 'assumptions': ['SV(a), SV(b) on entry, instantiated at the ghost slot and at the slot the loop touches', 'a and b are different objects (self-move-assignment not covered)',
                 'T = ELEM, N = CAP arbitrary in [1, 2^36]'],
} @*/
#include "c14_sv.h"
size_t g_m0;    /* a.size() on entry */
ELEM g_old_o;   /* b[g_k] on entry */
#define SPEC_INV(j) ((j) >= CAP || (((j) < pos ? (ELEM_ST(&self->_data[j]) == ELEM_LIVE && ELEM_V(&self->_data[j]) == ELEM_V(&other->_data[j]) && \
                                                  ELEM_ST(&other->_data[j]) == ELEM_MOVED) \
                                               : (((j) >= g_m0 ? ELEM_ST(&self->_data[j]) == ELEM_RAW \
                                                               : ((j) != g_k || (ELEM_V(&self->_data[j]) == ELEM_V(&g_old_k) && ELEM_ST(&self->_data[j]) == ELEM_ST(&g_old_k)))) && \
                                                  ((j) < other->m_size ? ELEM_ST(&other->_data[j]) == ELEM_LIVE : ELEM_ST(&other->_data[j]) == ELEM_RAW))) && \
                                    ((j) != g_k || ELEM_V(&other->_data[j]) == ELEM_V(&g_old_o))))
#define C14_HAVE_SV
#include "cxx/sv.c"
#include "c14_harness.h"

void harness(void)
{
    WIT(size_t, cap); WIT(size_t, m0); WIT(size_t, m); WIT(size_t, k);
    WIT_ARR(int, vals, 3); WIT_ARR(int, ovals, 3);
    C14_SET_CAP(cap);
    g_k = k; g_m0 = m0;
    struct static_vector o, v;
    c14_sv_any(&o, m, ovals);
    c14_sv_any(&v, m0, vals);
    ELEM *o_storage = o._data, *storage = v._data;
    if (k < cap) { g_old_o = o._data[k]; g_old_k = v._data[k]; }
#ifdef KF_C14_assign_over_live
    L(KF_REGION(KF_C14_assign_over_live, m0 > 0);)
#endif
#ifdef KF_C14_clear_no_destroy
    L(KF_REGION(KF_C14_clear_no_destroy, m > 0);)
#endif

    struct static_vector *r = static_vector_assign_move(&v, &o);

    V(__CPROVER_assert(r == &v, "returns *this");)
    V(__CPROVER_assert(v._data == storage && o._data == o_storage, "storage pointers untouched");)
    V(__CPROVER_assert(v.m_size == m && SV_SIZE_OK(&v), "size' == old other.size() <= N");)
    V(__CPROVER_assert(SV_SIZE_OK(&o), "the moved-from vector has a size <= N");)
    if (k < cap) {
        if (k < m) V(__CPROVER_assert(ELEM_V(&v._data[k]) == ELEM_V(&g_old_o), "element k has the value other[k] had");)
        L(__CPROVER_assert(SV_SLOT_OK(&v, k), "SV: slots below m_size LIVE, the others RAW (old elements destroyed exactly once)");)
        L(__CPROVER_assert(SV_SLOT_VALID(&o, k), "moved-from vector: every object it still holds is below its size (will be destroyed exactly once), none beyond");)
    }
    CANARY("move assignment end reachable");
}
