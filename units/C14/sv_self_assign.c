/*@unit {
 'kind': 'proof', 'mode': 'legacy',
 'functions': ['static_vector::operator=(const static_vector&) [a = a]', 'static_vector::operator=(static_vector&&) [a = std::move(a)]'],
 'extract': 'units/C14/extract_sv.py',
 'params': {'GROUP': [1, 2]},
 'kf': ['C14_assign_over_live'], 'kf_probe_case': {'C14_assign_over_live': {'GROUP': 2}},
 'inject': [{'file': 'overlay:cxx/sv.c', 'func': 'static_vector_assign_copy', 'loop': 0, 'expect': 'pos < self->m_size',
             'assigns': 'pos, __CPROVER_object_whole(self->_data)',
             'invariants': ['pos <= self->m_size', 'SPEC_INV(g_k)'],
             'decreases': 'self->m_size - pos'},
            {'file': 'overlay:cxx/sv.c', 'func': 'static_vector_assign_move', 'loop': 0, 'expect': 'pos < self->m_size',
             'assigns': 'pos, __CPROVER_object_whole(self->_data)',
             'invariants': ['pos <= self->m_size', 'SPEC_INV(g_k)'],
             'decreases': 'self->m_size - pos'}],
 'clauses': 'self-assignment, for every capacity N >= 1 and every SV(a): a = a leaves the size and every element value unchanged; a = std::move(a) leaves a size <= N '
            'and the values of the elements it keeps; returns *this; nothing outside the exact-size storage is written [value group: all states]; no element is '
            'constructed over a live one or lost without destruction: SV (copy) / a valid state (move) afterwards [lifetime group; known finding '
            'C14_assign_over_live carved out: a non-empty]',
 'witness': {'unwind': 5},
 'assumptions': ['SV(a) on entry, instantiated at the ghost slot', 'T = ELEM, N = CAP arbitrary in [1, 2^36]'],
} @*/
#include "c14_sv.h"
/* in-place construction from itself changes no value; slots the loop has not reached keep their state */
#define SPEC_INV(j) ((j) >= CAP || (j) != g_k || (ELEM_V(&self->_data[j]) == ELEM_V(&g_old_k) && ((j) < pos || ELEM_ST(&self->_data[j]) == ELEM_ST(&g_old_k))))
#define C14_HAVE_SV
#include "cxx/sv.c"
#include "c14_harness.h"

void harness(void)
{
    WIT(size_t, cap); WIT(size_t, m); WIT(size_t, k); WIT(int, op);
    WIT_ARR(int, vals, 3);
    C14_SET_CAP(cap);
    g_k = k;
    struct static_vector v;
    c14_sv_any(&v, m, vals);
    ELEM *storage = v._data;
    if (k < cap) g_old_k = v._data[k];
#ifdef KF_C14_assign_over_live
    L(KF_REGION(KF_C14_assign_over_live, m > 0);)
#endif

    struct static_vector *r = op ? static_vector_assign_copy(&v, &v) : static_vector_assign_move(&v, &v);

    V(__CPROVER_assert(r == &v, "returns *this");)
    V(__CPROVER_assert(v._data == storage && SV_SIZE_OK(&v), "storage pointer untouched, size <= N");)
    if (op) V(__CPROVER_assert(v.m_size == m, "a = a keeps the size");)
    if (k < cap && k < v.m_size) V(__CPROVER_assert(ELEM_V(&v._data[k]) == ELEM_V(&g_old_k), "the elements kept keep their values");)
    if (k < cap) {
        if (op) L(__CPROVER_assert(SV_SLOT_OK(&v, k), "a = a: SV (nothing constructed over a live element, nothing lost)");)
        else L(__CPROVER_assert(SV_SLOT_VALID(&v, k), "a = std::move(a): every object still held is below the size, none beyond");)
    }
    CANARY("self-assignment end reachable");
}
