/*@unit {
 'kind': 'proof', 'mode': 'legacy',
 'functions': ['static_vector::static_vector(static_vector&&)', 'static_vector::operator[]', 'static_vector::clear'],
 'extract': 'units/C14/extract_sv.py',
 'params': {'GROUP': [1, 2]},
 'kf': ['C14_clear_no_destroy'], 'kf_probe_case': {'C14_clear_no_destroy': {'GROUP': 2}},
 'inject': [{'file': 'overlay:cxx/sv.c', 'func': 'static_vector_ctor_move', 'loop': 0, 'expect': 'pos < self->m_size',
             'assigns': 'pos, __CPROVER_object_whole(self->_data), __CPROVER_object_whole(other->_data)',
             'invariants': ['pos <= self->m_size', 'SPEC_INV(g_k)'],
             'decreases': 'self->m_size - pos'},
            {'file': 'overlay:cxx/sv.c', 'func': 'static_vector_ctor_move', 'ghost': 'G_INST(SPEC_INV(pos));', 'at': 'body-begin', 'loop': 0}],
 'clauses': 'move constructor, for every capacity N >= 1 and every SV(other): the new vector has the old other.size() <= N elements with the old values in order, '
            'every slot from size on is RAW, each element is move-constructed exactly once over RAW storage from a LIVE source; the source is left in a state in '
            'which every object it still holds is counted by its size (so its destructor destroys each exactly once) '
            '[known finding C14_clear_no_destroy carved out of the lifetime group: non-empty source]; nothing outside the two exact-size storages is written',
 'witness': {'unwind': 5},
 'assumptions': ['SV(other) on entry, instantiated at the ghost slot and at the slot the loop reads', 'the object under construction starts with storage in which no element is alive',
                 'T = ELEM, N = CAP arbitrary in [1, 2^36]'],
} @*/
#include "c14_sv.h"
/* slot j: moved prefix [0,pos): self[j] LIVE with other's value, other[j] MOVED-from; the rest: self[j] RAW, other[j] as on entry */
#define SPEC_INV(j) ((j) >= CAP || (((j) < pos ? (ELEM_ST(&self->_data[j]) == ELEM_LIVE && ELEM_V(&self->_data[j]) == ELEM_V(&other->_data[j]) && \
                                                  ELEM_ST(&other->_data[j]) == ELEM_MOVED) \
                                               : (ELEM_ST(&self->_data[j]) == ELEM_RAW && \
                                                  ((j) < other->m_size ? ELEM_ST(&other->_data[j]) == ELEM_LIVE : ELEM_ST(&other->_data[j]) == ELEM_RAW))) && \
                                    ((j) != g_k || ELEM_V(&other->_data[j]) == ELEM_V(&g_old_k))))
#define C14_HAVE_SV
#include "cxx/sv.c"
#include "c14_harness.h"

void harness(void)
{
    WIT(size_t, cap); WIT(size_t, m); WIT(size_t, k);
    WIT_ARR(int, vals, 3);
    C14_SET_CAP(cap);
    g_k = k;
    struct static_vector o, v;
    c14_sv_any(&o, m, vals);
    c14_sv_fresh(&v);
    ELEM *o_storage = o._data, *storage = v._data;
    if (k < cap) g_old_k = o._data[k];
#ifdef KF_C14_clear_no_destroy
    /* known finding: other.clear() forgets the moved-from objects without destroying them (region: non-empty source);
       it affects only the lifetime group */
    L(KF_REGION(KF_C14_clear_no_destroy, m > 0);)
#endif

    static_vector_ctor_move(&v, &o);

    V(__CPROVER_assert(v._data == storage && o._data == o_storage, "storage pointers untouched");)
    V(__CPROVER_assert(v.m_size == m && SV_SIZE_OK(&v), "size' == old other.size() <= N");)
    V(__CPROVER_assert(SV_SIZE_OK(&o), "the moved-from vector has a size <= N");)
    if (k < cap) {
        if (k < m) V(__CPROVER_assert(ELEM_V(&v._data[k]) == ELEM_V(&g_old_k), "element k has the value other[k] had");)
        L(__CPROVER_assert(SV_SLOT_OK(&v, k), "SV: slots below m_size LIVE, the others RAW");)
        L(__CPROVER_assert(SV_SLOT_VALID(&o, k), "moved-from vector: every object it still holds is below its size (will be destroyed exactly once), none beyond");)
    }
    CANARY("move ctor end reachable");
}
