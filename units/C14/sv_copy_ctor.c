/*@unit {
 'kind': 'proof', 'mode': 'legacy',
 'functions': ['static_vector::static_vector(const static_vector&)', 'static_vector::operator[] const'],
 'extract': 'units/C14/extract_sv.py',
 'params': {'GROUP': [1, 2]},
 'inject': [{'file': 'overlay:cxx/sv.c', 'func': 'static_vector_ctor_copy', 'loop': 0, 'expect': 'pos < self->m_size',
             'assigns': 'pos, __CPROVER_object_whole(self->_data)',
             'invariants': ['pos <= self->m_size', 'SPEC_INV(g_k)'],
             'decreases': 'self->m_size - pos'},
            {'file': 'overlay:cxx/sv.c', 'func': 'static_vector_ctor_copy', 'ghost': 'G_INST(SPEC_INV(pos));', 'at': 'body-begin', 'loop': 0}],
 'clauses': 'copy constructor, for every capacity N >= 1 and every SV(other): the new vector has other.size() <= N elements, element k equals other[k] for '
            'every k, every slot from size on is RAW (nothing constructed there), each element is copy-constructed exactly once over RAW storage from a LIVE '
            'source; other (size, every slot) is unchanged; nothing outside the exact-size storage is written',
 'witness': {'unwind': 5}, 'fallback': 'ghost-free',
 'assumptions': ['SV(other) on entry, instantiated at the ghost slot and at the slot the loop reads', 'the object under construction starts with storage in which no element is alive',
                 'T = ELEM, N = CAP arbitrary in [1, 2^36]'],
} @*/
#include "c14_sv.h"
/* loop invariant for an arbitrary slot j: constructed prefix [0,pos) == other's prefix, the rest still RAW; other's slot j LIVE below other.size */
#define SPEC_INV(j) ((j) >= CAP || (((j) < pos ? (ELEM_ST(&self->_data[j]) == ELEM_LIVE && ELEM_V(&self->_data[j]) == ELEM_V(&other->_data[j])) \
                                               : ELEM_ST(&self->_data[j]) == ELEM_RAW) && \
                                    ((j) >= other->m_size || ELEM_ST(&other->_data[j]) == ELEM_LIVE)))
#define C14_HAVE_SV
#include "cxx/sv.c"
#include "c14_harness.h"

void harness(void)
{
    WIT(size_t, cap); WIT(size_t, m); WIT(size_t, k);
    WIT_ARR(int, vals, 3);
    C14_SET_CAP(cap);
    g_k = k;
    struct static_vector o, v;
    c14_sv_any(&o, m, vals);
    c14_sv_fresh(&v);
    ELEM *o_storage = o._data, *storage = v._data;
    ELEM o_k; ELEM_SET(&o_k, ELEM_RAW, 0);
    if (k < cap) o_k = o._data[k];

    static_vector_ctor_copy(&v, &o);

    V(__CPROVER_assert(v._data == storage && o._data == o_storage, "storage pointers untouched");)
    V(__CPROVER_assert(v.m_size == m && SV_SIZE_OK(&v), "size' == other.size() <= N");)
    V(__CPROVER_assert(o.m_size == m, "other keeps its size");)
    if (k < cap) {
        if (k < m) V(__CPROVER_assert(ELEM_V(&v._data[k]) == ELEM_V(&o_k), "element k is a copy of other[k]");)
        V(__CPROVER_assert(ELEM_V(&o._data[k]) == ELEM_V(&o_k), "other's elements keep their values");)
        L(__CPROVER_assert(SV_SLOT_OK(&v, k), "SV: slots below m_size LIVE, the others RAW");)
        L(__CPROVER_assert(ELEM_ST(&o._data[k]) == ELEM_ST(&o_k), "other's elements keep their lifetime state");)
    }
    CANARY("copy ctor end reachable");
}
