/*@unit {
 'kind': 'proof', 'mode': 'dfcc',
 'replace': ['memset'],
 'functions': ['static_vector::static_vector()'],
 'extract': 'units/C14/extract_sv.py',
 'clauses': 'default constructor, for every capacity N >= 1 and arbitrary previous content of the storage: size 0, memset covers exactly the N slots (nothing outside '
            'the storage written), every slot RAW (no element alive), SV established',
 'witness': {'unwind': 5},
 'trusted': ['memset: ISO C 7.24.6.1 contract in contracts/c14_libc.h (proved for the bundled shim by C08)'],
 'assumptions': ['T = ELEM, N = CAP arbitrary in [1, 2^36]'],
} @*/
#include "c14_libc.h"
#define C14_HAVE_SV
#include "cxx/sv.c"
#include "c14_harness.h"

void harness(void)
{
    WIT(size_t, cap); WIT(size_t, k);
    C14_SET_CAP(cap);
    g_k = k;
    struct static_vector v;
    v._data = (ELEM *)C14_ANY_STORAGE(CAP);   /* arbitrary bytes */
    static_vector_nsdmi(&v);
    ELEM *storage = v._data;
    /* callee ghost index: the byte that holds the lifetime state of slot k */
    g_memset_k = k * sizeof(ELEM) + offsetof(ELEM, g_state);

    static_vector_ctor_default(&v);

    __CPROVER_assert(v._data == storage, "storage pointer untouched");
    __CPROVER_assert(v.m_size == 0 && SV_SIZE_OK(&v), "empty after default construction");
    if (k < cap) __CPROVER_assert(SV_SLOT_OK(&v, k), "SV: every slot RAW");
    CANARY("default ctor end reachable");
}
