/*@unit {
 'kind': 'proof', 'mode': 'dfcc',
 'functions': ['std_portable.h static_string::static_string(const char*, size_t)'],
 'extract': 'units/C14/extract_ss_portable.py',
 'defines': ['SS_DATA=_data'],
 'replace': ['memcpy'],
 'kf': ['C14_sstring_ctor_overflow'],
 'clauses': '[twin only] static_string(const char *p, size_t n), for every capacity N >= 1 and every n >= 0 (p: an exact-size object of n bytes, n unrelated to N): '
            'size == min(n, N), character k equals p[k] for every k < size (excess input dropped, prefix kept), the copy stays inside the exact-size storage of N+1 '
            'bytes, only p[0..n) is read [known finding C14_sstring_ctor_overflow carved out: n > N]',
 'witness': {'unwind': 8},
 'trusted': ['memcpy: ISO C 7.24.2.1 contract in contracts/c14_libc.h (proved for the bundled shim by C08)'],
 'assumptions': ['N = CAP arbitrary in [1, 2^36], n in [0, 2^37]'],
} @*/
#include "c14_libc.h"
#define C14_HAVE_SS
#include "cxx/ss.c"
#include "c14_harness.h"

void harness(void)
{
    WIT(size_t, cap); WIT(size_t, len); WIT(size_t, k);
    WIT_ARR(char, content, 8);
    C14_SET_CAP(cap);
    __CPROVER_assume(len <= 2 * C14_MAXCAP);
    char *str = NEW_OBJ(len);
    FILL(str, len, content);
    g_memcpy_k = k;
    char old_k = k < len ? str[k] : 0;
    struct static_string s;
    s.SS_DATA = (char *)NEW_OBJ(CAP + 1);
    static_string_nsdmi(&s);
    char *storage = s.SS_DATA;
    /* known finding: m_size = sz and memcpy(_data, dat, sz) without clamping to N (region: sz > N) */
    KF_REGION(KF_C14_sstring_ctor_overflow, len > cap);

    static_string_ctor_ptrlen(&s, str, len);

    __CPROVER_assert(s.SS_DATA == storage, "storage pointer untouched");
    __CPROVER_assert(s.m_size <= cap, "size <= N");
    __CPROVER_assert(s.m_size == C14_MIN(len, cap), "size == min(n, N)");
    if (k < s.m_size) __CPROVER_assert(s.SS_DATA[k] == old_k, "character k equals p[k] (prefix kept)");
    if (k < len) __CPROVER_assert(str[k] == old_k, "the source is not modified");
    CANARY("static_string(const char*, size_t) end reachable");
}
