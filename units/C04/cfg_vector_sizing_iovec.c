/*@unit {
 'kind': 'proof', 'mode': 'dfcc',
 'bound': 'number of scatter-gather pieces <= 3 (the summing loop is unwound with an unwinding assertion); unbounded in the piece lengths',
 'functions': ['gstuffing_v(vec, n, ctx) -> std::vector<uint8_t>'],
 'replace': ['gstuffing_v'],
 'extract': [{
   'out': 'cxx/gstuff_vec2.c',
   'typedefs': ['gstuff_context'],
   'pieces': [
     {'op': 'glue', 'text': '#include "std_stubs.h"\n#include <igris/iovec.h>\n'},
     {'op': 'struct', 'file': 'igris/protocols/gstuff.h', 'name': 'gstuff_context', 'ctor': None},
     {'op': 'glue', 'text': '// the callee: its contract is what units/C04/cfg_encoder_vs_ref.c proves about the real gstuffing_v()\n'
                            '// (a frame of at most 2*total+4 bytes, written into an object of exactly that size)\n'
                            '#define VC_LEN(vec, n, i) ((i) < (n) ? (vec)[i].iov_len : 0)\n'
                            '#define VC_TOTAL3(vec, n) (VC_LEN(vec, n, 0) + VC_LEN(vec, n, 1) + VC_LEN(vec, n, 2))\n'
                            'int gstuffing_v(struct iovec *vec, size_t n, char *outdata, const gstuff_context *ctx)\n'
                            '__CPROVER_requires(n <= 3 && __CPROVER_w_ok(outdata, 2 * VC_TOTAL3(vec, n) + 4))\n'
                            '__CPROVER_assigns(__CPROVER_object_whole(outdata))\n'
                            '__CPROVER_ensures(__CPROVER_return_value >= 3 && (size_t)__CPROVER_return_value <= 2 * VC_TOTAL3(vec, n) + 4);\n'},
     {'op': 'func', 'file': 'igris/protocols/gstuff.cpp', 'name': 'gstuffing_v', 'occurrence': 1, 'as': 'gstuffing_v_vec', 'refs': ['ctx'],
      'ret': 'struct vc_vec_u8',
      'rewrite': [[r'std::vector<uint8_t> ret;', 'struct vc_vec_u8 ret; vc_vec_u8_init(&ret);', 1],
                  [r'ret\.resize\(([^;]*)\);', r'vc_vec_u8_resize(&ret, \1);', 2],
                  [r'&ret\[0\]', 'vc_vec_u8_data(&ret)', 1],
                  [r'gstuffing_v\(([^;]*?), \(\*ctx\)\)', r'gstuffing_v(\1, ctx)', 1]]},
   ]}],
 'unwindset': ['gstuffing_v_vec.0:4'],
 'clauses': 'the scatter-gather encoder that sizes its own output buffer (std::vector-returning gstuffing_v(vec, n, ctx), extracted to C with a std::vector '
            'stub whose accessible range is exactly size() bytes) hands gstuffing_v() a buffer that satisfies the callee contract "2*total+4 writable bytes", '
            'for every choice of piece lengths',
 'trusted': ['libstdc++ std::vector<uint8_t>::resize / operator[] behave as spec/std_stubs.h states'],
 'assumptions': ['each piece length <= 2^38 (no overflow in 2*total+4)'],
 'native_cxx_probes': [{'file': 'units/C04/native/vector_encoders_probe.cpp', 'run': True, 'sources': ['igris/protocols/gstuff.cpp', 'igris/util/crc.c'],
                        'what': 'real std::vector-returning gstuff encoders and the real receiver (not the extraction)',
                        'bound': 'both alphabets; all payloads of length 0..3 over 7 marker-heavy byte values; lengths 1..140 with one marker at every position; one buffer and two iovec pieces at every third cut: 40280 payloads'}],
} @*/
#include "vc.h"
#include "cxx/gstuff_vec2.c"

void harness(void)
{
    struct iovec vec[3];
    struct gstuff_context ctx;
    size_t n = nondet_size_t();
    __CPROVER_assume(n <= 3);
    __CPROVER_assume(vec[0].iov_len <= ((size_t)1 << 38) && vec[1].iov_len <= ((size_t)1 << 38) && vec[2].iov_len <= ((size_t)1 << 38));
    struct vc_vec_u8 r = gstuffing_v_vec(vec, n, &ctx);
    __CPROVER_assert(r.size >= 3 && r.size <= 2 * VC_TOTAL3(vec, n) + 4, "returned vector holds the frame: 3 <= size <= 2*total+4");
    CANARY("vector-returning scatter-gather overload returns");
}
