/*@unit {
 'kind': 'proof', 'mode': 'dfcc',
 'functions': ['gstuffing(igris::buffer, ctx) -> std::vector<uint8_t>'],
 'enforce': None,
 'replace': ['gstuffing'],
 'extract': [{
   'out': 'cxx/gstuff_vec.c',
   'typedefs': ['gstuff_context'],
   'pieces': [
     {'op': 'glue', 'text': '#include "std_stubs.h"\n#include <igris/iovec.h>\n'},
     {'op': 'struct', 'file': 'igris/protocols/gstuff.h', 'name': 'gstuff_context', 'ctor': None},
     {'op': 'glue', 'text': '// the callee: its contract is what units/C04/cfg_single_buffer_vs_ref.c proves about the real gstuffing()\n'
                            '// (a frame of at most 2*size+4 bytes, written into an object of exactly that size)\n'
                            'int gstuffing(const char *data, size_t size, char *outdata, const gstuff_context *ctx)\n'
                            '__CPROVER_requires(__CPROVER_w_ok(outdata, 2 * size + 4))\n'
                            '__CPROVER_requires(size == 0 || __CPROVER_r_ok(data, size))\n'
                            '__CPROVER_assigns(__CPROVER_object_upto(outdata, 2 * size + 4))\n'
                            '__CPROVER_ensures(__CPROVER_return_value >= 3 && (size_t)__CPROVER_return_value <= 2 * size + 4);\n'},
     {'op': 'func', 'file': 'igris/protocols/gstuff.cpp', 'name': 'gstuffing', 'occurrence': 1, 'as': 'gstuffing_vec', 'refs': ['ctx'],
      'ret': 'struct vc_vec_u8',
      'sig_rewrite': [[r'igris::buffer', 'struct vc_buffer', 1]],
      'rewrite': [[r'std::vector<uint8_t> ret;', 'struct vc_vec_u8 ret; vc_vec_u8_init(&ret);', 1],
                  [r'ret\.resize\(([^;]*)\);', r'vc_vec_u8_resize(&ret, \1);', 2],
                  [r'&ret\[0\]', 'vc_vec_u8_data(&ret)', 1],
                  [r'buf\.size\(\)', 'buf.sz', 2], [r'buf\.data\(\)', 'buf.ptr', 1],
                  [r'gstuffing\(([^;]*?), \(\*ctx\)\)', r'gstuffing(\1, ctx)', 1]]},
   ]}],
 'clauses': 'the encoder that sizes its own output buffer (std::vector-returning gstuffing(buffer, ctx), extracted to C with a std::vector stub whose '
            'accessible range is exactly size() bytes) hands gstuffing() a buffer that satisfies the callee contract "2*size+4 writable bytes" - the callee '
            'CONTRACT decides, not its body - for every payload length; the final resize() only shrinks',
 'trusted': ['libstdc++ std::vector<uint8_t>::resize / operator[] behave as spec/std_stubs.h states', 'igris::buffer is a (pointer, length) view'],
 'assumptions': ['payload length <= 2^40 (no overflow in 2*size+4)'],
} @*/
#include "vc.h"
#include "cxx/gstuff_vec.c"

void harness(void)
{
    struct vc_buffer buf;
    struct gstuff_context ctx;
    size_t n = nondet_size_t();
    __CPROVER_assume(n <= VC_MAXOBJ);
    buf.ptr = NEW_OBJ(n); buf.sz = n;
    struct vc_vec_u8 r = gstuffing_vec(buf, &ctx);
    __CPROVER_assert(r.size >= 3 && r.size <= 2 * n + 4, "returned vector holds the frame: 3 <= size <= 2n+4");
    CANARY("vector-returning overload returns");
}
