# cxx2c recipe for igris/protocols/gstuff.{h,cpp} (shared by the C04 and C05 units of the
# configurable codec).  A python literal; see vclib/cxx2c.py.
[{
 'out': 'cxx/gstuff_cxx.c',
 'typedefs': ['gstuff_context', 'gstuff_autorecv'],
 'pieces': [
  {'op': 'glue', 'text': '#include <stdint.h>\n#include <stddef.h>\n#include <string.h>\n#include <igris/iovec.h>\n'
                         '#include <igris/datastruct/sline.h>\n#include <igris/util/crc.h>\n'},
  {'op': 'lines', 'file': 'igris/protocols/gstuff.h', 'regex': r'^#define GSTUFF_\w+ ', 'min': 18},
  {'op': 'struct', 'file': 'igris/protocols/gstuff.h', 'name': 'gstuff_context', 'ctor': 'gstuff_context_defaults'},
  {'op': 'func', 'file': 'igris/protocols/gstuff.h', 'name': 'gstuff_context_v0',
   'rewrite': [[r'return gstuff_context\s*\{', 'return (struct gstuff_context){', 1]]},
  {'op': 'struct', 'file': 'igris/protocols/gstuff.h', 'name': 'gstuff_autorecv', 'ctor': 'gstuff_autorecv_defaults',
   'nested_ctor': {'gstuff_context': 'gstuff_context_defaults'}},
  {'op': 'func', 'file': 'igris/protocols/gstuff.cpp', 'name': 'gstuff_byte', 'refs': ['ctx']},
  {'op': 'func', 'file': 'igris/protocols/gstuff.cpp', 'name': 'gstuffing_v', 'refs': ['ctx'],
   'rewrite': [[r'gstuff_byte\(([^;]*?), \(\*ctx\)\)', r'gstuff_byte(\1, ctx)', 2]]},
  {'op': 'func', 'file': 'igris/protocols/gstuff.cpp', 'name': 'gstuffing', 'refs': ['ctx'],
   'rewrite': [[r'gstuffing_v\(([^;]*?), \(\*ctx\)\)', r'gstuffing_v(\1, ctx)', 1]]},
  {'op': 'func', 'file': 'igris/protocols/gstuff.cpp', 'name': 'gstuff_autorecv::reset', 'self': 'gstuff_autorecv'},
  {'op': 'func', 'file': 'igris/protocols/gstuff.cpp', 'name': 'gstuff_autorecv::init', 'self': 'gstuff_autorecv',
   'methods': {'reset': 'gstuff_autorecv_reset'}},
  {'op': 'func', 'file': 'igris/protocols/gstuff.cpp', 'name': 'gstuff_autorecv::newchar', 'self': 'gstuff_autorecv',
   'methods': {'reset': 'gstuff_autorecv_reset'}},
  {'op': 'func', 'file': 'igris/protocols/gstuff.h', 'name': 'cstr', 'in_class': 'gstuff_autorecv', 'self': 'gstuff_autorecv',
   'as': 'gstuff_autorecv_cstr'},
  {'op': 'func', 'file': 'igris/protocols/gstuff.h', 'name': 'size', 'in_class': 'gstuff_autorecv', 'self': 'gstuff_autorecv',
   'as': 'gstuff_autorecv_size'},
 ],
}]
