/*@unit {
 'kind': 'proof', 'mode': 'legacy', 'tier': 'thorough',
 'bound': 'number of scatter-gather pieces <= 2 (outer loop unwound 3 times with an unwinding assertion; pieces may be empty, overlap or repeat); unbounded in payload length and content - the byte loop is closed by its invariant',
 'functions': ['gstuffing_v', 'gstuff_byte', 'igris_strmcrc8'],
 'extract': 'units/C04/gstuff_extract.py',
 'params': {'CTX': [0, 1]}, 'defines': ['NPIECES=2'],
 'clauses': 'configurable encoder gstuffing_v (gstuff.cpp, extracted to C mechanically), every payload of every length in every '
            'scatter-gather partition (both loops closed by invariants, no bound), alphabet CTX (0 = gstuff_context_v0(), 1 = default, '
            '2 = any valid alphabet): frame starts with START, ends with STOP, no unescaped marker inside, length <= 2n+4, writes '
            'only out[0..ret) (exact-size object), reads only inside the pieces; the reference receiver (spec/gstuff_ref.h; the REAL '
            'receiver refines it step by step: units/C05/cfg_newchar_refines_ref.c) stepped over the frame bytes inside the encoder '
            'loops answers CONTINUE on every byte but the last, NEWPACKAGE exactly once on the last, and delivers exactly the payload',
 'inject': [
   {'file': 'overlay:cxx/gstuff_cxx.c', 'func': 'gstuffing_v', 'at': 'func-begin',
    'ghost': 'g_out0 = outdata; g_vec = vec; g_nvec = n;'},
   {'file': 'overlay:cxx/gstuff_cxx.c', 'func': 'gstuffing_v', 'at': 'before', 'anchor': 'for (size_t j = 0; j < n; ++j)',
    'ghost': 'g_feed1(outdata);'},
   {'file': 'overlay:cxx/gstuff_cxx.c', 'func': 'gstuffing_v', 'at': 'body-begin', 'loop': 0,
    'ghost': 'g_visit(j);'},
   {'file': 'overlay:cxx/gstuff_cxx.c', 'func': 'gstuffing_v', 'at': 'body-end', 'loop': 1,
    'ghost': 'g_feed1(outdata); g_feed1(outdata); g_done++;'},
   {'file': 'overlay:cxx/gstuff_cxx.c', 'func': 'gstuffing_v', 'at': 'before', 'anchor': 'outdata += gstuff_byte(crc, outdata, ctx);',
    'ghost': 'g_finish();'},
   {'file': 'overlay:cxx/gstuff_cxx.c', 'func': 'gstuffing_v', 'at': 'after', 'anchor': 'outdata += gstuff_byte(crc, outdata, ctx);',
    'ghost': 'g_feed1(outdata); g_feed1(outdata);'},
   {'file': 'overlay:cxx/gstuff_cxx.c', 'func': 'gstuffing_v', 'at': 'before', 'anchor': 'return (int)(outdata - outstrt);',
    'ghost': 'g_feed1(outdata);'},
   {'file': 'overlay:cxx/gstuff_cxx.c', 'func': 'gstuffing_v', 'loop': 1, 'expect': 'while (size--)',
    'assigns': 'size, data, outdata, crc, g_fed, g_done, g_early, g_markers, g_newpkg, g_last, g_ref.st, g_ref.crc, g_ref.len, g_ref.at_k, __CPROVER_object_whole(g_out0)',
    'invariants': [
      'j < n && n == g_nvec && vec == g_vec && outstrt == g_out0',
      'size <= g_len && g_start + g_len <= g_total',
      '__CPROVER_same_object(data, g_arena) && data == g_base + (g_len - size)',
      '__CPROVER_same_object(outdata, g_out0) && __CPROVER_POINTER_OFFSET(g_out0) == 0',
      'g_done == g_start + (g_len - size)',
      'g_fed == (size_t)__CPROVER_POINTER_OFFSET(outdata) && 1 <= g_fed && g_fed <= 1 + 2 * g_done',
      'g_out0[0] == g_ref.a.START',
      'g_early == 0 && g_markers == 0 && g_newpkg == 0 && g_last == 0',
      'g_ref.st == 1 && g_ref.crc == crc && g_ref.len == g_done',
      'g_kdef == (j >= g_kj)',
      'g_kdef ? (g_ref.k == g_k && (j == g_kj ? (g_k == g_start + g_ki && g_ki < g_len) : g_k < g_start) && (g_k < g_done ==> g_ref.at_k == g_pk)) : g_ref.k == (size_t)-1',
    ],
    'decreases': 'size'},
 ],
 'ghost_calls': ['g_feed1', 'g_visit', 'g_finish'],
 'unwindset': ['igris_strmcrc8.0:9', 'gstuffing_v.1:3'],
 'complete_unwinding': 'igris_strmcrc8 has exactly 8 rounds; the ghost feeder is loop-free',
 'witness': {'unwind': 5, 'defines': ['VC_WIT_MAXN=3']},
 'timeout': 900, 'mem_gb': 12, 'weight': 2,
 'assumptions': ['receive buffer capacity >= n + 2 (a large enough buffer)',
                 'total payload length n <= INT_MAX/2 - 8 so that 2n+4 fits the int return type',
                 'the total payload length g_total = sum of the iovec lengths is introduced by assumptions at the places the code visits: every '
                 'prefix sum <= g_total (g_visit) and the final sum == g_total (g_finish) - together exactly "sum == g_total", true of every real input; '
                 'the symbolic iovec array is initialised lazily: piece j is set to an arbitrary slice of the arena by a ghost statement when the outer loop '
                 'reaches it (equivalent to an arbitrary initial array because the encoder reads vec[j] only in iteration j)',
                 'real receiver == reference receiver on whole streams: one-step refinement proved in units/C05, simulation induction over the stream not machine-checked'],
} @*/
#include "vc.h"
#include <limits.h>
#include "gstuff_ref.h"
#include <igris/iovec.h>

/* ---- ghost state of the co-simulation */
char *g_out0; struct iovec *g_vec; size_t g_nvec;
size_t g_total;        /* total payload length = sum of the piece lengths (see g_visit / g_finish) */
size_t g_start;        /* payload bytes consumed before the current piece */
size_t g_arena_sz;
char *g_arena;         /* the object all pieces point into (pieces may overlap or repeat) */
char *g_base; size_t g_len;   /* piece currently being encoded */
struct gs_ref g_ref;
size_t g_fed;          /* number of encoder output bytes already handed to the receiver */
size_t g_done;         /* payload bytes consumed so far */
int g_early, g_last, g_newpkg, g_markers;
size_t g_kj, g_ki;     /* ghost payload position: piece index and offset inside the piece */
char g_pk;             /* the payload byte there (read by the harness before the call) */
size_t g_k; int g_kdef; /* its index in the concatenated payload, known once the outer loop reaches piece g_kj */

/* outer loop visits piece j: instantiate the quantified preconditions at j */
static void g_visit(size_t j)
{
    g_start = g_done;
#ifdef WITNESS_MODE
    g_base = (char *)g_vec[j].iov_base; g_len = g_vec[j].iov_len;     /* concrete pieces set up by the harness */
#else
    /* lazy initialisation of the symbolic input: piece j becomes an arbitrary slice of the arena the moment the
       encoder reaches it (the encoder reads vec[j] only in iteration j, so this equals an arbitrary initial array;
       it keeps the points-to set of the piece pointers precise, which cbmc needs to stay within memory) */
    size_t off = nondet_size_t(), len = nondet_size_t();
    __CPROVER_assume(off <= g_arena_sz && len <= g_arena_sz - off);
    g_vec[j].iov_base = g_arena + off; g_vec[j].iov_len = len;
    g_base = g_arena + off; g_len = len;
#endif
    /* g_total is the sum of all piece lengths: every prefix sum stays below it (and g_finish: the last one equals it) */
    __CPROVER_assume(g_len <= g_total && g_start <= g_total - g_len);
    if (j == g_kj) {
        __CPROVER_assume(g_ki < g_len && g_base[g_ki] == g_pk);   /* g_pk is the byte at (g_kj, g_ki) */
        g_k = g_done + g_ki; g_ref.k = g_k; g_kdef = 1;
    }
}

static void g_finish(void) { __CPROVER_assume(g_done == g_total); }

/* feed the next not yet fed output byte (if any) to the reference receiver */
static void g_feed1(char *upto)
{
    if (g_fed < (size_t)(upto - g_out0)) {
        char b = g_out0[g_fed];
        if (g_last != GS_CONTINUE) g_early = 1;
        if (g_fed > 0 && (b == g_ref.a.START || b == g_ref.a.STOP)) g_markers++;   /* markers after the first byte */
        g_last = spec_gs_step(&g_ref, b);
        if (g_last == GS_NEWPACKAGE) g_newpkg++;
        g_fed++;
    }
}

#include "cxx/gstuff_cxx.c"

void harness(void)
{
    WIT(size_t, nvec); WIT(size_t, total); WIT(size_t, arena_sz); WIT(uint, cap); WIT(size_t, kj); WIT(size_t, ki); WIT(char, pk);
    WIT(char, a0); WIT(char, a1); WIT(char, a2); WIT(char, a3); WIT(char, a4); WIT(char, a5);
    struct gstuff_context ctx;
    gstuff_context_defaults(&ctx);
#if CTX == 0
    ctx = gstuff_context_v0();
#elif CTX == 2
    ctx.GSTUFF_START = a0; ctx.GSTUFF_STOP = a1; ctx.GSTUFF_STUB = a2;
    ctx.GSTUFF_STUB_START = a3; ctx.GSTUFF_STUB_STOP = a4; ctx.GSTUFF_STUB_STUB = a5;
#endif
    g_ref.a.START = ctx.GSTUFF_START; g_ref.a.STOP = ctx.GSTUFF_STOP; g_ref.a.STUB = ctx.GSTUFF_STUB;
    g_ref.a.E_START = ctx.GSTUFF_STUB_START; g_ref.a.E_STOP = ctx.GSTUFF_STUB_STOP; g_ref.a.E_STUB = ctx.GSTUFF_STUB_STUB;
    __CPROVER_assume(spec_gs_alpha_valid(&g_ref.a));
    __CPROVER_assume(nvec <= VC_MAXN && total <= VC_MAXN && arena_sz <= VC_MAXN);
    __CPROVER_assume(cap >= total + 2 && cap <= (size_t)VC_MAXN + 8);
    /* the piece array is a fixed-size object of NPIECES entries (a symbolic-size array of structs holding pointers exhausts
       cbmc's memory); the number of pieces actually used is symbolic in 0..NPIECES */
    struct iovec vecarr[NPIECES]; struct iovec *vec = vecarr; __CPROVER_assume(nvec <= NPIECES);
    g_total = total; g_arena_sz = arena_sz;
    g_arena = NEW_OBJ(arena_sz);
#ifdef WITNESS_MODE
    WIT_ARR(char, content, 6); WIT_ARR(size_t, lens, 3); WIT_ARR(size_t, offs, 3);
    FILL(g_arena, arena_sz, content);
    __CPROVER_assume(nvec <= 3 && nvec <= NPIECES);
    for (size_t i = 0; i < nvec; i++) { vec[i].iov_base = g_arena + offs[i]; vec[i].iov_len = lens[i]; 
        __CPROVER_assume(offs[i] + lens[i] <= arena_sz); }
#endif
    char *out = NEW_OBJ(2 * total + 4);
    g_ref.st = 0; g_ref.crc = 0; g_ref.len = 0; g_ref.cap = cap; g_ref.k = (size_t)-1; g_ref.at_k = 0;
    g_fed = 0; g_done = 0; g_early = 0; g_last = 0; g_newpkg = 0; g_markers = 0; g_kdef = 0; g_k = 0;
    g_kj = kj; g_ki = ki; g_pk = pk;
#ifdef WITNESS_MODE
    if (kj < nvec && ki < lens[kj]) g_pk = g_arena[offs[kj] + ki];
#endif

    int ret = gstuffing_v(vec, nvec, out, &ctx);

    __CPROVER_assert(ret >= 3 && (size_t)ret <= 2 * total + 4, "frame length <= 2n+4");
    __CPROVER_assert(g_done == total, "every payload byte was consumed exactly once");
    __CPROVER_assert(g_fed == (size_t)ret, "every frame byte was fed to the receiver");
    __CPROVER_assert(out[0] == ctx.GSTUFF_START && out[ret - 1] == ctx.GSTUFF_STOP, "frame starts with START and ends with STOP");
    __CPROVER_assert(g_markers == 1, "no unescaped marker inside the frame");
    __CPROVER_assert(g_early == 0, "receiver reported nothing but CONTINUE before the last byte");
    __CPROVER_assert(g_last == GS_NEWPACKAGE && g_newpkg == 1, "exactly one completed packet, on the last byte");
    __CPROVER_assert(g_ref.len == total, "delivered length == payload length");
    __CPROVER_assert(!(kj < nvec && g_kdef) || (g_k < total && g_ref.at_k == g_pk), "delivered content == payload (arbitrary piece and offset)");
    __CPROVER_assert(!(kj < nvec) || g_kdef, "the ghost payload position was visited");
    CANARY("configurable round trip end reachable");
}
