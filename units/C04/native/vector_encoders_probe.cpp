// Bounded native run of the REAL self-sizing gstuff encoders (igris/protocols/gstuff.cpp, std::vector results - not the extraction) and the
// real receiver, under ASan/UBSan.  Stands in when a changed encoder is outside the extractor's dialect (bounded stand-in, never counted as proved).
// Bound: both alphabets (default and gstuff_context_v0()); (a) every payload of length 0..3 over {START, STUB, STUB_START, STUB_STUB, 00, 41, FF};
//        (b) payloads of length 1..140 of 'A' with ONE marker byte (START resp. STUB) at every position; each payload as one buffer and split into
//        two scatter-gather pieces at every third offset.
// C04 clauses: the vector encoders produce exactly the frame the caller-buffer encoder produces (which the proofs cover), never write outside
// their storage (ASan), and the real receiver answers CONTINUE on every byte but the last, NEWPACKAGE on the last, and delivers the payload.
#include <igris/protocols/gstuff.h>
#include <igris/buffer.h>
#include <sys/uio.h>
#include <cstdio>
#include <cstdlib>
#include <cstring>
#include <string>
#include <vector>

static int fails;
static void fail(const char *what, const std::string &in, int ctxno)
{
    if (fails++ < 5) { std::printf("FAIL: %s, alphabet %s, payload of %zu bytes:", what, ctxno ? "v0" : "default", in.size());
        for (size_t i = 0; i < in.size() && i < 12; i++) std::printf(" %02X", (unsigned char)in[i]); std::printf("%s\n", in.size() > 12 ? " ..." : ""); }
}
static void one(const std::string &in, const gstuff_context &ctx, int ctxno)
{
    size_t n = in.size();
    char *out = (char *)std::malloc(2 * n + 4);                    // exact worst case: the caller-buffer encoder is the reference frame
    int len = gstuffing(in.data(), n, out, ctx);
    std::vector<uint8_t> ref((uint8_t *)out, (uint8_t *)out + len);
    std::free(out);
    std::vector<uint8_t> f1 = gstuffing(igris::buffer(in.data(), n), ctx);
    if (f1 != ref) fail("gstuffing(buffer) -> vector differs from the caller-buffer frame", in, ctxno);
    for (size_t cut = 0; cut <= n; cut += 3) {
        std::string a = in.substr(0, cut), b = in.substr(cut);
        char *pa = (char *)std::malloc(a.size() ? a.size() : 1), *pb = (char *)std::malloc(b.size() ? b.size() : 1);   // exact-size pieces
        std::memcpy(pa, a.data(), a.size()); std::memcpy(pb, b.data(), b.size());
        struct iovec v[2] = {{pa, a.size()}, {pb, b.size()}};
        std::vector<uint8_t> f2 = gstuffing_v(v, 2, ctx);
        if (f2 != ref) fail("gstuffing_v(iovec) -> vector differs from the caller-buffer frame", in, ctxno);
        std::free(pa); std::free(pb);
    }
    // the real receiver on the frame
    std::vector<uint8_t> rxbuf(n + 8);
    gstuff_autorecv rx(ctx);
    rx.init(rxbuf.data(), (int)rxbuf.size());
    for (size_t i = 0; i < f1.size(); i++) {
        int st = rx.newchar((char)f1[i]);
        if (i + 1 < f1.size() && st != GSTUFF_CONTINUE) { fail("receiver status before the last byte is not CONTINUE", in, ctxno); return; }
        if (i + 1 == f1.size() && st != GSTUFF_NEWPACKAGE) { fail("receiver does not report NEWPACKAGE on the last byte", in, ctxno); return; }
    }
    if (rx.size() != n || std::memcmp(rx.cstr(), in.data(), n) != 0) fail("delivered packet != payload", in, ctxno);
}
int main()
{
    long cnt = 0;
    for (int ctxno = 0; ctxno < 2; ctxno++) {
        gstuff_context ctx = ctxno ? gstuff_context_v0() : gstuff_context();
        const char al[] = {ctx.GSTUFF_START, ctx.GSTUFF_STUB, ctx.GSTUFF_STUB_START, ctx.GSTUFF_STUB_STUB, 0x00, 0x41, (char)0xFF};
        for (int len = 0; len <= 3; len++) {
            int total = 1; for (int k = 0; k < len; k++) total *= 7;
            for (int code = 0; code < total; code++, cnt++) {
                std::string in; int c = code;
                for (int k = 0; k < len; k++, c /= 7) in += al[c % 7];
                one(in, ctx, ctxno);
            }
        }
        for (int len = 1; len <= 140; len++)
            for (int pos = 0; pos < len; pos++)
                for (int m = 0; m < 2; m++, cnt++) {
                    std::string in(len, 'A'); in[pos] = m ? ctx.GSTUFF_STUB : ctx.GSTUFF_START;
                    one(in, ctx, ctxno);
                }
    }
    if (fails) { std::printf("%d clause violations (first shown) over %ld payloads\n", fails, cnt); return 1; }
    std::printf("ok: %ld payloads\n", cnt);
    return 0;
}
