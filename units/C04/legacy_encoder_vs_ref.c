/*@unit {
 'kind': 'proof', 'mode': 'legacy',
 'functions': ['gstuffing_v1', 'igris_strmcrc8'],
 'clauses': 'legacy encoder, every payload of every length (loop invariant, no bound): frame starts and ends with the marker, no other '
            'marker inside, length <= 2n+4, writes only out[0..ret) (exact-size object), payload untouched; the reference receiver '
            '(spec/gstuff_v1_ref.h; the REAL receiver refines it step by step: units/C05/legacy_newchar_refines_ref.c) stepped over the '
            'frame bytes inside the encoder loop answers CONTINUE on every byte but the last, NEWPACKAGE exactly once on the last, and '
            'its line is payload + CRC',
 'inject': [
   {'file': 'igris/protocols/gstuff_v1/gstuff.c', 'func': 'gstuffing_v1', 'at': 'func-begin',
    'ghost': 'g_data0 = data; g_n = size; g_out0 = outdata;'},
   {'file': 'igris/protocols/gstuff_v1/gstuff.c', 'func': 'gstuffing_v1', 'at': 'before', 'anchor': 'while (size--)',
    'ghost': 'g_feed1(outdata);'},
   {'file': 'igris/protocols/gstuff_v1/gstuff.c', 'func': 'gstuffing_v1', 'at': 'body-end', 'loop': 0,
    'ghost': 'g_feed1(outdata); g_feed1(outdata);'},
   {'file': 'igris/protocols/gstuff_v1/gstuff.c', 'func': 'gstuffing_v1', 'at': 'before', 'anchor': 'return (int)(outdata - outstrt);',
    'ghost': 'g_feed1(outdata); g_feed1(outdata); g_feed1(outdata);'},
   {'file': 'igris/protocols/gstuff_v1/gstuff.c', 'func': 'gstuffing_v1', 'loop': 0, 'expect': 'while (size--)',
    'assigns': 'size, data, outdata, crc, g_fed, g_early, g_markers, g_newpkg, g_last, g_ref.st, g_ref.crc, g_ref.len, g_ref.at_k, __CPROVER_object_whole(g_out0)',
    'invariants': [
      '0 <= size && size <= g_n',
      '__CPROVER_same_object(data, g_data0) && data == g_data0 + (g_n - size)',
      '__CPROVER_same_object(outdata, g_out0) && outstrt == g_out0 && __CPROVER_POINTER_OFFSET(g_out0) == 0',
      'g_fed == (size_t)__CPROVER_POINTER_OFFSET(outdata) && 1 <= g_fed && g_fed <= 1 + 2 * (size_t)(g_n - size)',
      'g_out0[0] == RXV1_M',
      'g_early == 0 && g_markers == 1 && g_newpkg == 0 && g_last == 0',
      'g_ref.st == 1 && g_ref.crc == crc && g_ref.cap == g_cap && g_ref.k == g_k',
      'g_ref.len == (unsigned)(g_n - size)',
      '(g_k < (size_t)(g_n - size)) ==> g_ref.at_k == g_data0[g_k]',
    ],
    'decreases': 'size'},
 ],
 'ghost_calls': ['g_feed1'],
 'unwindset': ['igris_strmcrc8.0:9'],
 'complete_unwinding': 'igris_strmcrc8 has exactly 8 rounds; the ghost feeder is loop-free',
 'witness': {'unwind': 6, 'defines': ['VC_WIT_MAXN=4']},
 'assumptions': ['receive buffer capacity >= n + 2 (a large enough buffer, as the statement says)',
                 'payload length n <= INT_MAX/2 - 8 so that 2n+4 fits the int return type of gstuffing_v1',
                 'real receiver == reference receiver on whole streams: one-step refinement proved in units/C05, simulation induction over the '
                 'stream not machine-checked in the quick tier (thorough: legacy_roundtrip_modular / legacy_roundtrip co-simulate the real receiver)'],
} @*/
#include "vc.h"
#include <limits.h>
#include "gstuff_v1_ref.h"

/* ---- ghost state of the co-simulation */
char *g_data0; int g_n; char *g_out0;
struct rxv1_ref g_ref; unsigned g_cap;
size_t g_fed;          /* number of encoder output bytes already handed to the receiver */
int g_early;           /* a status other than CONTINUE was seen before the byte now fed */
int g_last;            /* status of the most recently fed byte */
int g_newpkg;          /* number of NEWPACKAGE statuses */
int g_markers;         /* number of marker bytes in the output so far */
size_t g_k;            /* ghost index into the payload */

/* feed the next not yet fed output byte (if any) to the reference receiver */
static void g_feed1(char *upto)
{
    if (g_fed < (size_t)(upto - g_out0)) {
        char b = g_out0[g_fed];
        if (g_last != RXV1_CONTINUE) g_early = 1;
        if (b == RXV1_M) g_markers++;
        g_last = spec_rxv1_step(&g_ref, b);
        if (g_last == RXV1_NEWPACKAGE) g_newpkg++;
        g_fed++;
    }
}

#include "igris/protocols/gstuff_v1/gstuff.c"

void harness(void)
{
    WIT(int, n);
    WIT(uint, cap);
    WIT(size_t, k);
    WIT_ARR(char, content, 6);
    __CPROVER_assume(n >= 0 && n <= VC_MAXN);
    __CPROVER_assume(cap >= (unsigned)n + 2 && cap <= (unsigned)VC_MAXN + 8);
    char *payload = NEW_OBJ((size_t)n);
    FILL(payload, (size_t)n, content);
    char *out = NEW_OBJ(2 * (size_t)n + 4);
    g_cap = cap; g_k = k;
    g_ref.st = 0; g_ref.crc = 0; g_ref.len = 0; g_ref.cap = cap; g_ref.k = k; g_ref.at_k = 0;
    g_fed = 0; g_early = 0; g_last = 0; g_newpkg = 0; g_markers = 0;
    char pk = k < (size_t)n ? payload[k] : 0;
    __CPROVER_assert(GSTUFF_START_V1 == RXV1_M && GSTUFF_STUB_V1 == RXV1_E && GSTUFF_STUB_START_V1 == RXV1_E_M &&
                     GSTUFF_STUB_STUB_V1 == RXV1_E_E, "the code's protocol constants are the documented alphabet");

    int ret = gstuffing_v1(payload, n, out);

    __CPROVER_assert(ret >= 2 && (size_t)ret <= 2 * (size_t)n + 4, "frame length <= 2n+4");
    __CPROVER_assert(g_fed == (size_t)ret, "every frame byte was fed to the receiver");
    __CPROVER_assert(out[0] == RXV1_M && out[ret - 1] == RXV1_M, "frame starts and ends with the marker");
    __CPROVER_assert(g_markers == 2, "no unescaped marker inside the frame");
    __CPROVER_assert(g_early == 0, "receiver reported nothing but CONTINUE before the last byte");
    __CPROVER_assert(g_last == RXV1_NEWPACKAGE && g_newpkg == 1, "exactly one completed packet, on the last byte");
    __CPROVER_assert(g_ref.len == (unsigned)n + 1, "delivered length == payload length (+ CRC kept by the legacy receiver)");
    __CPROVER_assert(!(k < (size_t)n) || g_ref.at_k == pk, "delivered content == payload");
    __CPROVER_assert(!(k < (size_t)n) || payload[k] == pk, "payload not modified");
    CANARY("legacy round trip end reachable");
}
