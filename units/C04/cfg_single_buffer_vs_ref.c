/*@unit {
 'kind': 'proof', 'mode': 'legacy',
 'functions': ['gstuffing', 'gstuffing_v', 'gstuff_byte', 'igris_strmcrc8'],
 'extract': 'units/C04/gstuff_extract.py',
 'params': {'CTX': [0, 1, 2]},
 'clauses': 'configurable encoder, single-buffer entry gstuffing(data, size, out, ctx) (gstuff.cpp, extracted to C mechanically), every payload of every '
            'length (byte loop closed by its invariant, no bound), alphabet CTX (0 = gstuff_context_v0(), 1 = default, 2 = any valid alphabet): frame starts with '
            'START, ends with STOP, no unescaped marker inside, length <= 2n+4, writes only out[0..ret) (exact-size object), reads only data[0..size); the '
            'reference receiver (spec/gstuff_ref.h; the REAL receiver refines it step by step: units/C05/cfg_newchar_refines_ref.c) stepped over the frame '
            'bytes inside the encoder loop answers CONTINUE on every byte but the last, NEWPACKAGE exactly once on the last, and delivers exactly the payload',
 'inject': [
   {'file': 'overlay:cxx/gstuff_cxx.c', 'func': 'gstuffing_v', 'at': 'func-begin',
    'ghost': 'g_out0 = outdata;'},
   {'file': 'overlay:cxx/gstuff_cxx.c', 'func': 'gstuffing_v', 'at': 'before', 'anchor': 'for (size_t j = 0; j < n; ++j)',
    'ghost': 'g_feed1(outdata);'},
   {'file': 'overlay:cxx/gstuff_cxx.c', 'func': 'gstuffing_v', 'at': 'body-end', 'loop': 1,
    'ghost': 'g_feed1(outdata); g_feed1(outdata);'},
   {'file': 'overlay:cxx/gstuff_cxx.c', 'func': 'gstuffing_v', 'at': 'after', 'anchor': 'outdata += gstuff_byte(crc, outdata, ctx);',
    'ghost': 'g_feed1(outdata); g_feed1(outdata);'},
   {'file': 'overlay:cxx/gstuff_cxx.c', 'func': 'gstuffing_v', 'at': 'before', 'anchor': 'return (int)(outdata - outstrt);',
    'ghost': 'g_feed1(outdata);'},
   {'file': 'overlay:cxx/gstuff_cxx.c', 'func': 'gstuffing_v', 'loop': 1, 'expect': 'while (size--)',
    'assigns': 'size, data, outdata, crc, g_fed, g_early, g_markers, g_newpkg, g_last, g_ref.st, g_ref.crc, g_ref.len, g_ref.at_k, __CPROVER_object_whole(g_out0)',
    'invariants': [
      'size <= g_n && outstrt == g_out0 && j == 0 && n == 1',
      '__CPROVER_same_object(data, g_data0) && data == g_data0 + (g_n - size)',
      '__CPROVER_same_object(outdata, g_out0) && __CPROVER_POINTER_OFFSET(g_out0) == 0',
      'g_fed == (size_t)__CPROVER_POINTER_OFFSET(outdata) && 1 <= g_fed && g_fed <= 1 + 2 * (g_n - size)',
      'g_out0[0] == g_ref.a.START',
      'g_early == 0 && g_markers == 0 && g_newpkg == 0 && g_last == 0',
      'g_ref.st == 1 && g_ref.crc == crc && g_ref.len == (unsigned)(g_n - size) && g_ref.k == g_k',
      '(g_k < g_n - size) ==> g_ref.at_k == g_data0[g_k]',
    ],
    'decreases': 'size'},
 ],
 'ghost_calls': ['g_feed1'],
 'unwindset': ['igris_strmcrc8.0:9', 'gstuffing_v.1:2'],
 'complete_unwinding': 'igris_strmcrc8 has exactly 8 rounds; the ghost feeder is loop-free; the outer (iovec) loop of gstuffing_v runs exactly once because '
                       'gstuffing() passes n == 1: unwound twice with an unwinding assertion; the byte loop is closed by its invariant',
 'witness': {'unwind': 6, 'defines': ['VC_WIT_MAXN=4']},
 'timeout': 600, 'weight': 2,
 'assumptions': ['receive buffer capacity >= n + 2 (a large enough buffer)',
                 'payload length n <= INT_MAX/2 - 8 so that 2n+4 fits the int return type',
                 'real receiver == reference receiver on whole streams: one-step refinement proved in units/C05, simulation induction over the stream not machine-checked'],
} @*/
#include "vc.h"
#include <limits.h>
#include "gstuff_ref.h"

/* ---- ghost state of the co-simulation */
char *g_out0; const char *g_data0; size_t g_n;
struct gs_ref g_ref;
size_t g_fed;          /* number of encoder output bytes already handed to the receiver */
int g_early, g_last, g_newpkg, g_markers;
size_t g_k;            /* ghost index into the payload */

/* feed the next not yet fed output byte (if any) to the reference receiver */
static void g_feed1(char *upto)
{
    if (g_fed < (size_t)(upto - g_out0)) {
        char b = g_out0[g_fed];
        if (g_last != GS_CONTINUE) g_early = 1;
        if (g_fed > 0 && (b == g_ref.a.START || b == g_ref.a.STOP)) g_markers++;   /* markers after the first byte */
        g_last = spec_gs_step(&g_ref, b);
        if (g_last == GS_NEWPACKAGE) g_newpkg++;
        g_fed++;
    }
}

#include "cxx/gstuff_cxx.c"

void harness(void)
{
    WIT(size_t, n); WIT(uint, cap); WIT(size_t, k);
    WIT(char, a0); WIT(char, a1); WIT(char, a2); WIT(char, a3); WIT(char, a4); WIT(char, a5);
    WIT_ARR(char, content, 6);
    struct gstuff_context ctx;
    gstuff_context_defaults(&ctx);
#if CTX == 0
    ctx = gstuff_context_v0();
#elif CTX == 2
    ctx.GSTUFF_START = a0; ctx.GSTUFF_STOP = a1; ctx.GSTUFF_STUB = a2;
    ctx.GSTUFF_STUB_START = a3; ctx.GSTUFF_STUB_STOP = a4; ctx.GSTUFF_STUB_STUB = a5;
#endif
    g_ref.a.START = ctx.GSTUFF_START; g_ref.a.STOP = ctx.GSTUFF_STOP; g_ref.a.STUB = ctx.GSTUFF_STUB;
    g_ref.a.E_START = ctx.GSTUFF_STUB_START; g_ref.a.E_STOP = ctx.GSTUFF_STUB_STOP; g_ref.a.E_STUB = ctx.GSTUFF_STUB_STUB;
    __CPROVER_assume(spec_gs_alpha_valid(&g_ref.a));
    __CPROVER_assume(n <= VC_MAXN);
    __CPROVER_assume(cap >= n + 2 && cap <= (size_t)VC_MAXN + 8);
    char *payload = NEW_OBJ(n);
    FILL(payload, n, content);
    char *out = NEW_OBJ(2 * n + 4);
    g_data0 = payload; g_n = n; g_k = k;
    g_ref.st = 0; g_ref.crc = 0; g_ref.len = 0; g_ref.cap = cap; g_ref.k = k; g_ref.at_k = 0;
    g_fed = 0; g_early = 0; g_last = 0; g_newpkg = 0; g_markers = 0;
    char pk = k < n ? payload[k] : 0;

    int ret = gstuffing(payload, n, out, &ctx);

    __CPROVER_assert(ret >= 3 && (size_t)ret <= 2 * n + 4, "frame length <= 2n+4");
    __CPROVER_assert(g_fed == (size_t)ret, "every frame byte was fed to the receiver");
    __CPROVER_assert(out[0] == ctx.GSTUFF_START && out[ret - 1] == ctx.GSTUFF_STOP, "frame starts with START and ends with STOP");
    __CPROVER_assert(g_markers == 1, "no unescaped marker inside the frame");
    __CPROVER_assert(g_early == 0, "receiver reported nothing but CONTINUE before the last byte");
    __CPROVER_assert(g_last == GS_NEWPACKAGE && g_newpkg == 1, "exactly one completed packet, on the last byte");
    __CPROVER_assert(g_ref.len == n, "delivered length == payload length");
    __CPROVER_assert(!(k < n) || g_ref.at_k == pk, "delivered content == payload");
    __CPROVER_assert(!(k < n) || payload[k] == pk, "payload not modified");
    CANARY("configurable single-buffer round trip end reachable");
}
