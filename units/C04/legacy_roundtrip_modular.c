/*@unit {
 'kind': 'proof', 'mode': 'legacy', 'tier': 'thorough',
 'functions': ['gstuffing_v1', 'igris_strmcrc8'],
 'replace': ['gstuff_autorecv_newchar_v1'],
 'clauses': 'legacy codec, every payload of every length (loop invariant, no bound): frame starts and ends with the marker, no other '
            'marker inside, length <= 2n+4, writes only out[0..ret); the legacy receiver - used through its CONTRACT, which '
            'units/C05/legacy_newchar_contract.c proves for the real function - fed the frame byte by byte inside the encoder loop '
            'answers CONTINUE on every byte but the last, NEWPACKAGE exactly once on the last, and then holds payload + CRC',
 'inject': [
   {'file': 'igris/protocols/gstuff_v1/gstuff.c', 'func': 'gstuffing_v1', 'at': 'func-begin',
    'ghost': 'g_data0 = data; g_n = size; g_out0 = outdata;'},
   {'file': 'igris/protocols/gstuff_v1/gstuff.c', 'func': 'gstuffing_v1', 'at': 'before', 'anchor': 'while (size--)',
    'ghost': 'g_feed1(outdata);'},
   {'file': 'igris/protocols/gstuff_v1/gstuff.c', 'func': 'gstuffing_v1', 'at': 'body-end', 'loop': 0,
    'ghost': 'g_feed1(outdata); g_feed1(outdata);'},
   {'file': 'igris/protocols/gstuff_v1/gstuff.c', 'func': 'gstuffing_v1', 'at': 'before', 'anchor': 'return (int)(outdata - outstrt);',
    'ghost': 'g_feed1(outdata); g_feed1(outdata); g_feed1(outdata);'},
   {'file': 'igris/protocols/gstuff_v1/gstuff.c', 'func': 'gstuffing_v1', 'loop': 0, 'expect': 'while (size--)',
    'assigns': 'size, data, outdata, crc, g_fed, g_early, g_markers, g_newpkg, g_last, g_rxv1_k, g_rxv1_v, g_rxobj.crc, g_rxobj.state, g_rxobj.line.len, g_rxobj.line.cursor, __CPROVER_object_whole(g_out0), __CPROVER_object_whole(g_rxbuf)',
    'invariants': [
      '0 <= size && size <= g_n',
      '__CPROVER_same_object(data, g_data0) && data == g_data0 + (g_n - size)',
      '__CPROVER_same_object(outdata, g_out0) && outstrt == g_out0 && __CPROVER_POINTER_OFFSET(g_out0) == 0',
      'g_fed == (size_t)__CPROVER_POINTER_OFFSET(outdata) && 1 <= g_fed && g_fed <= 1 + 2 * (size_t)(g_n - size)',
      'g_out0[0] == GSTUFF_START_V1',
      'g_early == 0 && g_markers == 1 && g_newpkg == 0 && g_last == 0',
      'g_rx == &g_rxobj && g_rxobj.state == 1 && g_rxobj.crc == crc',
      'g_rxobj.line.buf == g_rxbuf && g_rxobj.line.cap == g_cap',
      'g_rxobj.line.len == (unsigned)(g_n - size) && g_rxobj.line.cursor == g_rxobj.line.len',
      '(g_k < (size_t)(g_n - size)) ==> g_rxbuf[g_k] == g_data0[g_k]',
    ],
    'decreases': 'size'},
 ],
 'ghost_calls': ['g_feed1'],
 'unwindset': ['igris_strmcrc8.0:9'],
 'complete_unwinding': 'igris_strmcrc8 has exactly 8 rounds; the ghost feeder is loop-free',
 'witness': {'unwind': 5, 'defines': ['VC_WIT_MAXN=3']},
 'timeout': 600,
 'assumptions': ['receive buffer capacity >= n + 2 (a large enough buffer, as the statement says)',
                 'payload length n <= INT_MAX/2 - 8 so that 2n+4 fits the int return type of gstuffing_v1'],
} @*/
#include "vc.h"
#include <limits.h>
#include "gstuff_v1_contracts.h"

/* ---- ghost state of the co-simulation */
char *g_data0; int g_n; char *g_out0;
struct gstuff_autorecv_v1 g_rxobj; struct gstuff_autorecv_v1 *g_rx; char *g_rxbuf; unsigned g_cap;
size_t g_fed;          /* number of encoder output bytes already handed to the receiver */
int g_early;           /* a status other than CONTINUE was seen before the byte now fed */
int g_last;            /* status of the most recently fed byte */
int g_newpkg;          /* number of NEWPACKAGE statuses */
int g_markers;         /* number of marker bytes in the output so far */
size_t g_k;            /* ghost index into the payload */

/* feed the next not yet fed output byte (if any) to the receiver */
static void g_feed1(char *upto)
{
    if (g_fed < (size_t)(upto - g_out0)) {
        char b = g_out0[g_fed];
        if (g_last != GSTUFF_CONTINUE_V1) g_early = 1;
        if (b == GSTUFF_START_V1) g_markers++;
        /* instantiate the receiver contract's ghost index with ours */
        g_rxv1_k = g_k;
        g_rxv1_v = (g_k < g_rx->line.len) ? g_rxbuf[g_k] : 0;
        g_last = gstuff_autorecv_newchar_v1(g_rx, b);
        if (g_last == GSTUFF_NEWPACKAGE_V1) g_newpkg++;
        g_fed++;
    }
}

#ifdef REPLAY
#include "igris/protocols/gstuff_v1/autorecv.c"   /* native replay runs the real receiver */
#endif
#include "igris/protocols/gstuff_v1/gstuff.c"

void harness(void)
{
    WIT(int, n);
    WIT(uint, cap);
    WIT(size_t, k);
    WIT_ARR(char, content, 6);
    __CPROVER_assume(n >= 0 && n <= VC_MAXN);
    __CPROVER_assume(cap >= (unsigned)n + 2 && cap <= (unsigned)VC_MAXN + 8);
    char *payload = NEW_OBJ((size_t)n);
    FILL(payload, (size_t)n, content);
    char *out = NEW_OBJ(2 * (size_t)n + 4);
    g_rx = &g_rxobj;
    g_rxbuf = NEW_OBJ(cap); g_cap = cap;
    /* receiver freshly set up: setbuf + state 0 (gstuff_autorecv_setbuf_v1's effect; that function is
       covered by units/C05) */
    g_rx->state = 0; g_rx->crc = 0xff;
    g_rx->line.buf = g_rxbuf; g_rx->line.cap = cap; g_rx->line.len = 0; g_rx->line.cursor = 0;
    g_fed = 0; g_early = 0; g_last = 0; g_newpkg = 0; g_markers = 0;
    g_k = k;
    char pk = k < (size_t)n ? payload[k] : 0;

    int ret = gstuffing_v1(payload, n, out);

    __CPROVER_assert(ret >= 2 && (size_t)ret <= 2 * (size_t)n + 4, "frame length <= 2n+4");
    __CPROVER_assert(g_fed == (size_t)ret, "every frame byte was fed to the receiver");
    __CPROVER_assert(out[0] == GSTUFF_START_V1 && out[ret - 1] == GSTUFF_START_V1, "frame starts and ends with the marker");
    __CPROVER_assert(g_markers == 2, "no unescaped marker inside the frame");
    __CPROVER_assert(g_early == 0, "receiver reported nothing but CONTINUE before the last byte");
    __CPROVER_assert(g_last == GSTUFF_NEWPACKAGE_V1 && g_newpkg == 1, "exactly one completed packet, on the last byte");
    __CPROVER_assert(g_rx->line.len == (unsigned)n + 1, "delivered length == payload length (+ CRC kept by the legacy receiver)");
    __CPROVER_assert(!(k < (size_t)n) || g_rxbuf[k] == pk, "delivered content == payload");
    __CPROVER_assert(!(k < (size_t)n) || payload[k] == pk, "payload not modified");
    CANARY("legacy round trip end reachable");
}
