"""vc core: proof-unit pipeline on top of cbmc / goto-cc / goto-instrument.

A *unit* is one C file under /verif/units/<PROPERTY>/ whose first comment is
    /*@unit { ...python dict literal... } @*/
followed by the translation unit handed to goto-cc: it #includes the real source
from /repo (or the injected / extracted copy from the overlay directory), the
contract re-declarations and a harness.  See units/README.md for the keys.
"""
import ast
import itertools
import json
import os
import re
import resource
import shutil
import subprocess
import sys
import tempfile
import threading
import time

from . import inject as inj

VERIF = os.path.dirname(os.path.dirname(os.path.abspath(__file__)))
REPO = os.environ.get('VERIF_REPO', '/repo')
GUARD = 'IGRIS_VERIF'

# cbmc 6 standard checks (on by default, listed here for the evidence): array bounds,
# pointer validity / bounds of every dereference, pointer primitives, division by zero,
# signed overflow, undefined shifts.  Not used by default: --unsigned-overflow-check
# (unsigned wrap is defined behaviour; `while (n--)` relies on it), --conversion-check
# (narrowing to unsigned char is defined; flags `unsigned char d = c`),
# --pointer-overflow-check (flags the harmless `src--` one-before-begin idiom; the
# properties speak about bytes read/written, not about pointer values).  A unit opts in
# to any of these with 'checks_extra'.
STANDARD_CHECKS = ['bounds-check', 'pointer-check', 'pointer-primitive-check', 'div-by-zero-check',
                   'signed-overflow-check', 'undefined-shift-check']
CHECK_FLAGS = []

DEFAULT_UNWIND = 260
EXIT_OK, EXIT_VIOLATION, EXIT_UNDECIDED = 0, 1, 2


class Undecided(Exception):
    pass


# --------------------------------------------------------------------------- units

class Unit:
    def __init__(self, path):
        self.path = path
        self.pid = os.path.basename(os.path.dirname(path))
        self.name = os.path.splitext(os.path.basename(path))[0]
        txt = open(path).read()
        mo = re.search(r'/\*@unit(.*?)@\*/', txt, re.S)
        if not mo:
            raise Undecided('%s: no /*@unit ... @*/ header' % path)
        try:
            self.meta = ast.literal_eval(mo.group(1).strip())
        except Exception as e:
            raise Undecided('%s: bad unit header: %s' % (path, e))
        self.text = txt
        m = self.meta
        ex = m.get('extract')
        if isinstance(ex, str):
            ex = [ex]
        if ex is not None:
            # shared extraction recipes: a string entry is the path (relative to /verif) of a file holding a python
            # literal list of recipes; several may be combined with inline recipes
            out = []
            for e in ex:
                if isinstance(e, str):
                    try:
                        out += ast.literal_eval(open(os.path.join(VERIF, e)).read())
                    except Exception as err:
                        raise Undecided('%s: bad extract recipe %s: %s' % (path, e, err))
                else:
                    out.append(e)
            m['extract'] = out
        self.kind = m.get('kind', 'proof')
        self.mode = m.get('mode', 'plain')
        self.tier = m.get('tier', 'quick')
        assert self.kind in ('proof', 'bounded'), path
        assert self.mode in ('plain', 'legacy', 'dfcc'), path

    def cases(self, tier):
        """Parameter sweep: list of dicts name->value."""
        params = dict(self.meta.get('params', {}))
        if tier == 'thorough':
            params.update(self.meta.get('params_thorough', {}))
        if not params:
            return [{}]
        keys = sorted(params)
        out = []
        for combo in itertools.product(*[params[k] for k in keys]):
            out.append(dict(zip(keys, combo)))
        return out


def find_units(pid):
    d = os.path.join(VERIF, 'units', pid)
    if not os.path.isdir(d):
        return []
    out = []
    for f in sorted(os.listdir(d)):
        if f.endswith('.c'):
            out.append(Unit(os.path.join(d, f)))
    # units of another property this property's argument depends on (e.g. C04 composes the encoder proof
    # with C05's receiver refinement lemmas): listed one per line in units/<PID>/INCLUDE
    inc = os.path.join(d, 'INCLUDE')
    if os.path.exists(inc):
        for line in open(inc):
            line = line.split('#')[0].strip()
            if line:
                u = Unit(os.path.join(VERIF, 'units', line))
                u.included_from = u.pid
                u.pid = pid
                out.append(u)
    return out


# --------------------------------------------------------------------------- process helpers

def _limits(mem_gb):
    def f():
        b = int(mem_gb * (1 << 30))
        resource.setrlimit(resource.RLIMIT_AS, (b, b))
        os.setsid()
    return f


def run(cmd, cwd, timeout, mem_gb=8, stdout_path=None):
    """Run cmd; returns (rc, stdout_text, stderr_text, seconds).  rc None = timeout."""
    t0 = time.time()
    so = open(stdout_path, 'w') if stdout_path else subprocess.PIPE
    try:
        # temporary files of the tools (cbmc's CNF for an external SAT solver, compiler temporaries) go into the scratch directory of
        # the run, which is removed with it - nothing is left under /tmp
        env = dict(os.environ, TMPDIR=cwd) if cwd and os.path.isdir(cwd) else None
        p = subprocess.Popen(cmd, cwd=cwd, stdout=so, stderr=subprocess.PIPE,
                             preexec_fn=_limits(mem_gb), text=True, env=env)
        try:
            out, err = p.communicate(timeout=timeout)
        except subprocess.TimeoutExpired:
            try:
                os.killpg(p.pid, 9)
            except Exception:
                p.kill()
            p.communicate()
            return None, '', 'timeout after %ds' % timeout, time.time() - t0
    finally:
        if stdout_path:
            so.close()
    if stdout_path:
        out = open(stdout_path).read()
    return p.returncode, out, err, time.time() - t0


# --------------------------------------------------------------------------- one case of one unit

class CaseResult:
    def __init__(self, unit, case):
        self.unit = unit
        self.case = case
        self.label = unit.name + (''.join('[%s=%s]' % kv for kv in sorted(case.items())))
        self.obligations = []      # dicts: id, description, status, location
        self.canaries = []         # dicts
        self.failed = []           # obligations with status != SUCCESS
        self.undecided = None      # reason string
        self.seconds = 0.0
        self.solver_seconds = 0.0
        self.inject_report = []
        self.cmds = []
        self.defines = []
        self.kf_carved = []
        self.messages = []

    @property
    def ok(self):
        return self.undecided is None and not self.failed


def _stage_injected(unit, work, specs_key='inject', lenient_loops=False, lenient_ghost=False):
    """Write injected copies of /repo files into work/overlay; return report."""
    overlay = os.path.join(work, 'overlay')
    os.makedirs(overlay, exist_ok=True)
    report = []
    # mechanical C++ -> C extraction first (DESIGN 4): injections may target extracted files
    for ex in unit.meta.get('extract', []):
        from . import cxx2c
        try:
            rep = cxx2c.extract(REPO, overlay, ex)
        except cxx2c.ExtractError as e:
            raise Undecided('%s: extraction failed: %s' % (unit.name, e))
        report += rep
    byfile = {}
    for sp in unit.meta.get(specs_key, []):
        byfile.setdefault(sp['file'], []).append(sp)
    for rel, specs in byfile.items():
        if rel.startswith('overlay:'):
            rel = rel[len('overlay:'):]
            src = os.path.join(overlay, rel)
        else:
            src = os.path.join(REPO, rel)
        if not os.path.exists(src):
            raise Undecided('%s: source %s missing' % (unit.name, rel))
        text = open(src, errors='replace').read()
        try:
            new, rep = inj.inject(text, specs, unit.meta.get('ghost_calls', ()), lenient_loops=lenient_loops, lenient_ghost=lenient_ghost)
        except inj.InjectError as e:
            raise Undecided('%s: injection anchor failed in %s: %s' % (unit.name, rel, e))
        for r in rep:
            r['file'] = rel
        report += rep
        dst = os.path.join(overlay, rel)
        os.makedirs(os.path.dirname(dst), exist_ok=True)
        open(dst, 'w').write(new)
    return overlay, report


def _include_dirs(unit, overlay):
    dirs = [overlay, os.path.join(VERIF, 'spec'), os.path.join(VERIF, 'contracts'), VERIF]
    for d in unit.meta.get('include', []):
        dirs.append(os.path.join(REPO, d))
    dirs.append(REPO)
    return dirs


def parse_cbmc_json(text):
    """Returns (results list, messages list, status or None)."""
    try:
        data = json.loads(text)
    except Exception:
        # cbmc may be killed mid-output; try to salvage
        return None, ['unparsable cbmc output: ' + text[-500:]], None
    results, msgs, status = None, [], None
    for e in data:
        if 'result' in e:
            results = e['result']
        if 'messageText' in e:
            msgs.append(e['messageText'])
        if 'cProverStatus' in e:
            status = e['cProverStatus']
    return results, msgs, status


_RES = re.compile(r'^\[(.+?)\] (?:line (\d+) )?(.*): (SUCCESS|FAILURE|UNKNOWN|ERROR)$')
_HDR = re.compile(r'^(\S.*) function (\S+)$')


def parse_cbmc_text(text):
    """Parse cbmc's plain-text result section."""
    if '** Results:' not in text:
        return None, text.splitlines()[-12:], None
    head, body = text.split('** Results:', 1)
    msgs = [l for l in head.splitlines() if l.strip()]
    results = []
    cur_file, cur_fn = '?', None
    status = None
    for line in body.splitlines():
        line = line.rstrip()
        mo = _RES.match(line)
        if mo:
            results.append({'property': mo.group(1), 'description': mo.group(3), 'status': mo.group(4),
                            'sourceLocation': {'file': cur_file, 'line': mo.group(2) or '?', 'function': cur_fn}})
            continue
        mo = _HDR.match(line)
        if mo:
            cur_file, cur_fn = mo.group(1), mo.group(2)
            continue
        if line.startswith('VERIFICATION'):
            status = line.split()[-1].lower()
    if status is None:
        return None, msgs[-12:] + body.splitlines()[-12:], None
    return results, msgs, status


SOLVER_FLAGS = {
    'sat': [],
    'kissat': ['--external-sat-solver', 'kissat'],
    'cadical': ['--sat-solver', 'cadical'],
    'cvc5': ['--cvc5'],
    'z3': ['--z3'],
}


def run_case(unit, case, tier, work, extra_defines=(), witness=False, want_trace=False, fallback=False):
    """Full pipeline for one parameter case.  witness=True: concretisation run
    (no loop contracts, -DWITNESS_MODE, small sizes, unwinding, trace)."""
    res = CaseResult(unit, case)
    t0 = time.time()
    m = unit.meta
    os.makedirs(work, exist_ok=True)
    try:
        # witness mode keeps the injected ghost statements (the co-simulation must run there
        # too); the injected loop-contract clauses are simply not applied (no
        # --apply-loop-contracts), so the loops are unwound instead
        # fallback run of a unit whose witness-mode assertions do not depend on ghost state ('fallback': 'ghost-free'):
        # ghost statements whose anchors are gone are dropped too and -DVC_FALLBACK tells the harness to skip ghost-dependent asserts
        gfree = fallback and unit.meta.get('fallback') == 'ghost-free'
        overlay, report = _stage_injected(unit, work, lenient_loops=witness, lenient_ghost=gfree)
        if gfree:
            extra_defines = tuple(extra_defines) + ('VC_FALLBACK=1',)
        res.inject_report = report
        defines = ['-D' + GUARD, '-DVC_CBMC'] + (['-DVC_THOROUGH=1'] if tier == 'thorough' else [])
        for k, v in sorted(case.items()):
            defines.append('-D%s=%s' % (k, v))
        for d in m.get('defines', []):
            defines.append('-D' + d)
        for d in extra_defines:
            defines.append('-D' + d)
        if witness:
            defines.append('-DWITNESS_MODE')
            for d in m.get('witness', {}).get('defines', []):
                defines.append('-D' + d)
        res.defines = defines
        entry = m.get('entry', 'harness')
        gb = os.path.join(work, 'a.gb')
        cmd = ['goto-cc', '--function', entry] + defines
        for d in _include_dirs(unit, overlay):
            cmd += ['-I', d]
        cmd += m.get('cc_flags', [])
        cmd += [unit.path, '-o', gb]
        res.cmds.append(' '.join(cmd))
        rc, out, err, _ = run(cmd, work, 300)
        if rc != 0:
            raise Undecided('%s: goto-cc failed: %s' % (res.label, (err or out)[-1500:]))
        cur = gb
        step = 0

        def gi(args):
            nonlocal cur, step
            step += 1
            nxt = os.path.join(work, 'b%d.gb' % step)
            c = ['goto-instrument'] + args + [cur, nxt]
            res.cmds.append(' '.join(c))
            rc, out, err, _ = run(c, work, 600, mem_gb=m.get('mem_gb', 8))
            if rc != 0:
                raise Undecided('%s: goto-instrument failed (%s): %s' %
                                (res.label, ' '.join(args), (err + out)[-1500:]))
            cur = nxt

        uw = m.get('unwindset', [])
        if witness:
            uw = m.get('witness', {}).get('unwindset', uw)
        if uw:
            gi(['--unwindset', ','.join(uw), '--unwinding-assertions'])
        has_loops = any('loop' in sp and 'ghost' not in sp for sp in m.get('inject', [])) \
            or m.get('loop_contracts_in_unit', False)
        enforce = m.get('enforce')
        replace = list(m.get('replace', []))
        mode = unit.mode
        if witness:
            has_loops = False
        if witness and gfree and 'fallback_replace' in m.get('witness', {}):
            # ghost-free fallback: callee contracts that need ghost statements in the (changed) caller are
            # not applied; the callee's body (or cbmc's built-in model) is used instead
            replace = list(m['witness']['fallback_replace'])
        if mode == 'dfcc' and not enforce and not replace and not has_loops:
            pass    # nothing to instrument (ghost-free fallback with the callee bodies): plain bounded run
        elif mode == 'dfcc':
            a = ['--dfcc', entry]
            if enforce:
                a += ['--enforce-contract', enforce]
            for r in replace:
                a += ['--replace-call-with-contract', r]
            if has_loops:
                a += ['--apply-loop-contracts']
            gi(a)
        else:
            if has_loops:
                gi(['--apply-loop-contracts'])
            a = []
            if enforce:
                a += ['--enforce-contract', enforce]
            for r in replace:
                a += ['--replace-call-with-contract', r]
            if a:
                gi(a)
        solver = m.get('solver', 'sat')
        flags = list(CHECK_FLAGS)
        flags += m.get('checks_extra', [])
        flags += SOLVER_FLAGS[solver]
        # Loops that carry no contract and are not in `unwindset` (none on the unchanged tree; a code change
        # may introduce one) are unwound up to DEFAULT_UNWIND with unwinding assertions: complete when those pass,
        # "undecided" when only they fail.
        unwind = m.get('unwind', DEFAULT_UNWIND)
        if witness:
            unwind = m.get('witness', {}).get('unwind', 12)
        if unwind:
            flags += ['--unwind', str(unwind), '--unwinding-assertions']
        flags += m.get('cbmc_flags', [])
        if witness or want_trace:
            flags += ['--trace']
        if m.get('object_bits'):
            flags += ['--object-bits', str(m['object_bits'])]
        # The verdict run uses the plain-text UI: cbmc's JSON/trace writer aborts with an
        # internal invariant violation on some failing properties over symbolic-size
        # havocs; only the concretisation run (small, concrete sizes) asks for a JSON trace.
        use_json = witness or want_trace
        cmd = ['cbmc', cur] + (['--json-ui'] if use_json else []) + flags
        res.cmds.append(' '.join(cmd))
        # floor of 600 s: the checks may run on a busier machine than the one they were tuned on
        timeout = max(m.get('timeout', 300), 600) * (3 if tier == 'thorough' else 1)
        timeout = int(timeout * float(os.environ.get('VERIF_TIMEOUT_SCALE', '1')))
        rc, out, err, secs = run(cmd, work, timeout, mem_gb=m.get('mem_gb', 8),
                                 stdout_path=os.path.join(work, 'cbmc.out'))
        res.solver_seconds = secs
        if rc is None:
            raise Undecided('%s: cbmc timeout after %ds' % (res.label, timeout))
        if use_json:
            results, msgs, status = parse_cbmc_json(out)
        else:
            results, msgs, status = parse_cbmc_text(out)
        res.messages = msgs
        if status == 'error':
            raise Undecided('%s: cbmc reported an error: %s' % (res.label, ' | '.join(x[:200] for x in msgs[-2:])))
        if results is None:
            tail = ' | '.join(msgs[-4:]) if msgs else ''
            raise Undecided('%s: cbmc gave no result (rc=%s) %s %s' % (res.label, rc, tail, err[-500:]))
        if any('ignoring' in x and ('forall' in x or 'exists' in x or 'quantif' in x) for x in msgs):
            raise Undecided('%s: back end ignored a quantifier' % res.label)
        for r in results:
            ob = {'id': r.get('property'), 'description': r.get('description', ''),
                  'status': r.get('status'),
                  'location': '%s:%s' % (r.get('sourceLocation', {}).get('file', '?'),
                                         r.get('sourceLocation', {}).get('line', '?')),
                  'function': r.get('sourceLocation', {}).get('function')}
            if 'trace' in r:
                ob['trace'] = r['trace']
            if ob['description'].startswith('canary'):
                res.canaries.append(ob)
            else:
                res.obligations.append(ob)
        # verdict
        res.failed = sorted([o for o in res.obligations if o['status'] != 'SUCCESS'],
                            key=lambda o: o['status'] != 'FAILURE')
        for o in res.failed[:40]:
            # quote the source line (contract clause / invariant / statement) the obligation sits on
            try:
                f, ln = o['location'].rsplit(':', 1)
                o['source'] = open(f, errors='replace').read().splitlines()[int(ln) - 1].strip()[:240]
            except Exception:
                pass
        if not witness and res.failed:
            real = [o for o in res.failed if o['status'] == 'FAILURE' and 'unwinding assertion' not in o['description']]
            unw = [o for o in res.failed if o['status'] == 'FAILURE' and 'unwinding assertion' in o['description']]
            if unw and not real:
                res.failed = []
                raise Undecided('%s: a loop without contract needs more than %s iterations (%s)' %
                                (res.label, unwind, unw[0]['id']))
        if not witness:
            if not res.obligations:
                raise Undecided('%s: zero obligations generated' % res.label)
            need = m.get('canaries', 1)
            if len(res.canaries) < need:
                raise Undecided('%s: expected >=%d canaries, found %d' % (res.label, need, len(res.canaries)))
            dead = [c for c in res.canaries if c['status'] == 'SUCCESS']
            if dead and not res.failed:
                # a canary that cannot be reached means the preconditions are contradictory
                raise Undecided('%s: vacuous: canary unreachable: %s' %
                                (res.label, dead[0]['description']))
            if has_loops:
                nloops = len([sp for sp in m.get('inject', []) if 'loop' in sp and 'ghost' not in sp
                              and sp.get('invariants')]) or m.get('loop_contracts_in_unit', 0)
                steps = {o['id'] for o in res.obligations if 'loop_invariant_step' in (o['id'] or '')
                         or 'Check invariant after step' in o['description']
                         or 'Check that loop invariant is preserved' in o['description']}
                # cbmc emits the loop-contract obligations of a `for (init;;incr)` loop (empty
                # condition) without source location and with the bare description "assertion"
                anon = [o for o in res.obligations if o['description'] == 'assertion' and o['location'].endswith(':?')]
                if len(steps) + len(anon) // 3 < (nloops if isinstance(nloops, int) else 1):
                    raise Undecided('%s: %d loop contracts injected but only %d inductive-step obligations '
                                    'were generated (contract silently dropped?)' % (res.label, nloops, len(steps)))
    except Undecided as e:
        res.undecided = str(e)
    except inj.InjectError as e:
        res.undecided = '%s: %s' % (res.label, e)
    res.seconds = time.time() - t0
    return res


# --------------------------------------------------------------------------- witness extraction / native replay

def _val(v):
    """cbmc JSON value -> C initialiser text."""
    if v is None:
        return '0'
    n = v.get('name')
    if n == 'integer':
        d = v.get('data', '0')
        d = re.sub(r'[uUlL]+$', '', d)
        if d.startswith("'"):
            # char literal as data -> use binary
            return str(int(v['binary'], 2))
        t = v.get('type', '')
        if 'unsigned' in t or t in ('__CPROVER_size_t',):
            return d + 'ULL' if not d.startswith('-') else d + 'LL'
        if d.startswith('-') and d.lstrip('-') == '9223372036854775808':
            return '(-9223372036854775807LL-1)'
        return d + 'LL'
    if n == 'boolean':
        return '1' if v.get('data') in (True, 'true', 'TRUE') else '0'
    if n == 'array':
        els = sorted(v.get('elements', []), key=lambda e: e['index'])
        return '{' + ','.join(_val(e['value']) for e in els) + '}'
    if n == 'struct':
        return '{' + ','.join(_val(mm['value']) for mm in v.get('members', [])) + '}'
    if n == 'float':
        b = v.get('binary')
        if b:
            w = len(b)
            return ('VC_F32_BITS(0x%xu)' if w == 32 else 'VC_F64_BITS(0x%xull)') % int(b, 2)
        return str(v.get('data'))
    if n == 'pointer':
        return '0'
    if n == 'unknown':
        return '0'
    return '0'


def wit_names(unit_text):
    return re.findall(r'\bWIT(?:_ARR)?\s*\(\s*[^,()]+?,\s*(\w+)', unit_text)


def extract_witness(trace, names, entry='harness'):
    vals = {}
    for s in trace:
        if s.get('stepType') != 'assignment' or s.get('hidden'):
            continue
        lhs = s.get('lhs', '')
        if lhs in names and lhs not in vals:
            fn = s.get('sourceLocation', {}).get('function')
            if fn in (entry, None):
                vals[lhs] = _val(s.get('value'))
    return vals


def native_replay(unit, case, witness_vals, work, extra_defines=()):
    """Compile the unit natively against the real /repo code with ASan/UBSan and
    run it on the witness.  Returns dict(reproduced, output, cmd)."""
    os.makedirs(work, exist_ok=True)
    wh = os.path.join(work, 'witness.h')
    with open(wh, 'w') as f:
        for k, v in witness_vals.items():
            f.write('#define WITVAL_%s %s\n' % (k, v))
    m = unit.meta
    # the native build uses the same injected/extracted copy (ghost statements run natively,
    # contract clauses are defined away by cprover_native.h)
    overlay, _ = _stage_injected(unit, work, lenient_loops=True, lenient_ghost=('VC_FALLBACK=1' in extra_defines))
    exe = os.path.join(work, 'replay')
    cmd = ['clang', '-g', '-O0', '-fsanitize=address,undefined', '-fno-sanitize-recover=undefined',
           '-fno-builtin', '-w',
           '-DREPLAY', '-DWITNESS_MODE', '-D' + GUARD,
           '-include', os.path.join(VERIF, 'replay', 'cprover_native.h'),
           '-include', wh]
    for k, v in sorted(case.items()):
        cmd.append('-D%s=%s' % (k, v))
    for d in m.get('defines', []) + m.get('witness', {}).get('defines', []) + list(extra_defines):
        cmd.append('-D' + d)
    for d in _include_dirs(unit, overlay):
        cmd += ['-I', d]
    cmd += [unit.path, '-o', exe, '-lm']
    rc, out, err, _ = run(cmd, work, 120, mem_gb=64)
    if rc != 0:
        return {'reproduced': False, 'output': 'native compile failed: ' + (err or out)[-2000:], 'cmd': ' '.join(cmd)}
    env_rc, out, err, _ = run([exe], work, 60, mem_gb=1 << 20)
    text = (out or '') + (err or '')
    bad = (env_rc not in (0, 77)) or 'REPLAY-FAIL' in text or 'ERROR: AddressSanitizer' in text \
        or 'runtime error' in text
    return {'reproduced': bool(bad), 'exit': env_rc, 'output': text[-4000:], 'cmd': ' '.join(cmd)}
