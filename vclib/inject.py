"""Loop-contract / ghost-statement injector (DESIGN.md 3.2).

Works on C (or C-like C++) text.  Nothing here interprets the code: it finds a
function body by name, enumerates its loops in source order with a tiny statement
scanner, and inserts text at grammar positions CBMC accepts.  Every anchor must
match, otherwise InjectError is raised and the driver turns that into exit 2
("could not decide"), never into a violation.
"""
import re


class InjectError(Exception):
    pass


def _mask(text):
    """Return text with comments, string and char literals replaced by spaces
    (same length), so that scanning for keywords/braces is safe."""
    out = list(text)
    i, n = 0, len(text)
    while i < n:
        c = text[i]
        if text.startswith('//', i):
            j = text.find('\n', i)
            j = n if j < 0 else j
            for k in range(i, j):
                out[k] = ' '
            i = j
        elif text.startswith('/*', i):
            j = text.find('*/', i + 2)
            j = n if j < 0 else j + 2
            for k in range(i, j):
                if text[k] != '\n':
                    out[k] = ' '
            i = j
        elif c == '"' or c == "'":
            q = c
            j = i + 1
            while j < n and text[j] != q:
                if text[j] == '\\':
                    j += 1
                j += 1
            for k in range(i + 1, min(j, n)):
                if text[k] != '\n':
                    out[k] = ' '
            i = j + 1
        else:
            i += 1
    return ''.join(out)


def _match(m, pos, open_c, close_c):
    """m[pos] == open_c; return index of the matching close_c."""
    depth = 0
    for i in range(pos, len(m)):
        if m[i] == open_c:
            depth += 1
        elif m[i] == close_c:
            depth -= 1
            if depth == 0:
                return i
    raise InjectError('unbalanced %s at offset %d' % (open_c, pos))


def find_function_ex(text, name, occurrence=0):
    """Locate the definition of function `name` (possibly `Class::name`).
    Returns (name_pos, paren_open, body_open, body_close)."""
    m = _mask(text)
    pat = re.compile(r'(?<![\w:.>~])' + re.escape(name) + r'\s*\(')
    found = []
    seen_bodies = set()
    for mo in pat.finditer(m):
        # we accept any brace depth but require that a '{' follows the parameter list
        p_open = mo.end() - 1
        try:
            p_close = _match(m, p_open, '(', ')')
        except InjectError:
            continue
        j = p_close + 1
        # skip qualifiers / ctor-initialisers up to '{' or ';'
        k = j
        ok = False
        while k < len(m):
            ch = m[k]
            if ch == '{':
                prev = m[j:k].rstrip()
                if ':' in prev and re.search(r'[A-Za-z_]\w*$', prev) and not re.search(r'\b(const|noexcept|override|final)$', prev):
                    k = _match(m, k, '{', '}') + 1      # member brace-initialiser "a{x}" in a ctor-init list
                    continue
                ok = True
                break
            if ch in ';=' or ch == ')' or ch == ',':
                # a ',' is fine inside a ctor-initialiser list: "a(x), b(y) {"
                if ch == ',' and ':' in m[j:k]:
                    k += 1
                    continue
                break
            if ch == '(':          # e.g. __attribute__((x)) or ctor-init a(b)
                k = _match(m, k, '(', ')')
            k += 1
        if not ok:
            continue
        # reject calls: the token before the name must not make this an expression
        pre = m[:mo.start()].rstrip()
        if pre.endswith(('=', '(', ',', 'return', '!', '&&', '||', '+', '-', '?', ':')) and not pre.endswith('::') \
                and not re.search(r'\b(public|private|protected)\s*:$', pre):
            # "x = f(...) {" cannot be a definition; ": f(x) {" is a delegating ctor-initialiser
            continue
        if k in seen_bodies:
            continue
        seen_bodies.add(k)
        found.append((mo.start(), p_open, k, _match(m, k, '{', '}')))
    if len(found) <= occurrence:
        raise InjectError('function %s (occurrence %d) not found' % (name, occurrence))
    return found[occurrence]


def find_function(text, name, occurrence=0):
    """Returns (body_open, body_close) offsets of the braces of the definition of `name`."""
    r = find_function_ex(text, name, occurrence)
    return r[2], r[3]


_KW = re.compile(r'[A-Za-z_]\w*')


class Loop:
    def __init__(self, kind, kw_pos, insert_pos, header):
        self.kind = kind
        self.kw_pos = kw_pos
        self.insert_pos = insert_pos    # where contract clauses go
        self.header = header            # normalised header text (evidence)
        self.body_open = None           # offset of '{' of a block body (or None)
        self.body_close = None


def _skip_ws(m, i, end):
    while i < end and m[i].isspace():
        i += 1
    return i


def _scan_stmt(m, i, end, loops):
    i = _skip_ws(m, i, end)
    if i >= end:
        return end
    c = m[i]
    if c == '{':
        close = _match(m, i, '{', '}')
        j = i + 1
        while True:
            j = _skip_ws(m, j, close)
            if j >= close:
                break
            j = _scan_stmt(m, j, close, loops)
        return close + 1
    if c == ';':
        return i + 1
    mo = _KW.match(m, i)
    if mo:
        w = mo.group(0)
        j = mo.end()
        if w in ('for', 'while'):
            p = _skip_ws(m, j, end)
            if m[p] != '(':
                raise InjectError('expected ( after %s' % w)
            pc = _match(m, p, '(', ')')
            lp = Loop(w, i, pc + 1, ' '.join(m[i:pc + 1].split()))
            loops.append(lp)
            b = _skip_ws(m, pc + 1, end)
            if b < end and m[b] == '{':
                lp.body_open = b
                lp.body_close = _match(m, b, '{', '}')
            return _scan_stmt(m, pc + 1, end, loops)
        if w == 'do':
            lp = Loop('do', i, j, 'do')
            loops.append(lp)
            b = _skip_ws(m, j, end)
            if b < end and m[b] == '{':
                lp.body_open = b
                lp.body_close = _match(m, b, '{', '}')
            k = _scan_stmt(m, j, end, loops)
            k = _skip_ws(m, k, end)
            mo2 = _KW.match(m, k)
            if not mo2 or mo2.group(0) != 'while':
                raise InjectError('do without while')
            p = _skip_ws(m, mo2.end(), end)
            pc = _match(m, p, '(', ')')
            lp.header = 'do ... ' + ' '.join(m[k:pc + 1].split())
            k = _skip_ws(m, pc + 1, end)
            if k < end and m[k] == ';':
                k += 1
            return k
        if w in ('if', 'switch'):
            p = _skip_ws(m, j, end)
            # "if constexpr (" in C++
            mo3 = _KW.match(m, p)
            if mo3 and mo3.group(0) == 'constexpr':
                p = _skip_ws(m, mo3.end(), end)
            pc = _match(m, p, '(', ')')
            k = _scan_stmt(m, pc + 1, end, loops)
            if w == 'if':
                k2 = _skip_ws(m, k, end)
                mo2 = _KW.match(m, k2)
                if mo2 and mo2.group(0) == 'else':
                    return _scan_stmt(m, mo2.end(), end, loops)
            return k
        if w == 'else':
            return _scan_stmt(m, j, end, loops)
        if w in ('case', 'default'):
            k = j
            depth = 0
            while k < end:
                if m[k] in '([':
                    depth += 1
                elif m[k] in ')]':
                    depth -= 1
                elif m[k] == ':' and depth == 0 and m[k + 1:k + 2] != ':' and m[k - 1:k] != ':':
                    break
                k += 1
            return _scan_stmt(m, k + 1, end, loops)
        # label?
        k = _skip_ws(m, j, end)
        if k < end and m[k] == ':' and m[k + 1:k + 2] != ':' and w not in ('public', 'private', 'protected'):
            return _scan_stmt(m, k + 1, end, loops)
    # expression / declaration statement: up to ';' at depth 0
    depth = 0
    k = i
    while k < end:
        ch = m[k]
        if ch in '([{':
            depth += 1
        elif ch in ')]}':
            depth -= 1
        elif ch == ';' and depth == 0:
            return k + 1
        k += 1
    return end


def loops_of(text, func, occurrence=0):
    bo, bc = find_function(text, func, occurrence)
    m = _mask(text)
    loops = []
    j = bo + 1
    while True:
        j = _skip_ws(m, j, bc)
        if j >= bc:
            break
        j = _scan_stmt(m, j, bc, loops)
    return (bo, bc), loops


_GHOST_OK_CALL = ('g_', 'spec_', '__CPROVER_', 'G_', 'SPEC_')


def check_ghost(code, extra_calls=()):
    """Ghost statements may assign only g_* identifiers and call only spec
    functions: they cannot change what the real code computes."""
    m = _mask(code)
    for mo in re.finditer(r'([A-Za-z_]\w*)\s*(\[[^\]]*\]\s*)*(=(?!=)|\+=|-=|\*=|/=|%=|\|=|&=|\^=|<<=|>>=|\+\+|--)', m):
        name = mo.group(1)
        # field assignment g_x.f = / g_x->f = : look back for the base identifier
        pre = m[:mo.start()].rstrip()
        if pre.endswith('.') or pre.endswith('->'):
            base = re.search(r'([A-Za-z_]\w*)\s*(\[[^\]]*\]\s*)*((\.|->)\s*[A-Za-z_]\w*\s*(\[[^\]]*\]\s*)*)*(\.|->)$', pre)
            name = base.group(1) if base else name
        if not name.startswith(('g_', 'G_')):
            # allow declarations of ghost-typed locals: "T g_x = ..." handled since name is g_x
            raise InjectError('ghost code assigns non-ghost identifier %r in %r' % (name, code))
    for mo in re.finditer(r'(\+\+|--)\s*([A-Za-z_]\w*)', m):
        if not mo.group(2).startswith(('g_', 'G_')):
            raise InjectError('ghost code modifies non-ghost identifier %r' % mo.group(2))
    for mo in re.finditer(r'([A-Za-z_]\w*)\s*\(', m):
        name = mo.group(1)
        if name in ('if', 'sizeof', 'for', 'while', 'switch', 'return') or name in extra_calls:
            continue
        if not name.startswith(_GHOST_OK_CALL):
            raise InjectError('ghost code calls non-spec function %r' % name)


def _place_ghost(text, sp, bo, bc, loops, ghost_calls, edits, report, n):
    func = sp['func']
    code = sp['ghost']
    check_ghost(code, tuple(ghost_calls) + tuple(sp.get('calls', ())))
    at = sp['at']
    if at == 'func-begin':
        pos = bo + 1
    elif at in ('body-begin', 'body-end'):
        k = sp['loop']
        if k >= len(loops):
            raise InjectError('%s has %d loops, wanted #%d' % (func, len(loops), k))
        lp = loops[k]
        if lp.body_open is None:
            raise InjectError('%s#%d has no block body' % (func, k))
        pos = lp.body_open + 1 if at == 'body-begin' else lp.body_close
    elif at == 'loop-after':
        # immediately after the (block) body of loop k: independent of the text of the statements that follow
        k = sp['loop']
        if k >= len(loops):
            raise InjectError('%s has %d loops, wanted #%d' % (func, len(loops), k))
        lp = loops[k]
        if lp.body_open is None or text[bo:lp.body_open].rstrip().endswith('do') or re.match(r'\s*while\b', text[lp.body_close + 1:]):
            raise InjectError('%s#%d: loop-after needs a for/while loop with a block body' % (func, k))
        pos = lp.body_close + 1
    elif at in ('before', 'after') and sp.get('anchor_re'):
        # regular-expression anchor (must match exactly once): identifies the statement without spelling out its operands
        body = text[bo:bc]
        ms = list(re.finditer(sp['anchor_re'], body))
        if len(ms) != 1:
            raise InjectError('anchor_re %r matches %d times in %s' % (sp['anchor_re'], len(ms), func))
        pos = bo + (ms[0].start() if at == 'before' else ms[0].end())
    elif at in ('before', 'after'):
        anchor = sp['anchor']
        body = text[bo:bc]
        cnt = body.count(anchor)
        if cnt != 1:
            raise InjectError('anchor %r occurs %d times in %s' % (anchor, cnt, func))
        pos = bo + body.index(anchor)
        if at == 'after':
            pos += len(anchor)
    else:
        raise InjectError('bad ghost position %r' % at)
    edits.append((pos, n, ' /*ghost*/ ' + code + ' '))
    report.append({'func': func, 'ghost': code, 'at': at, 'loop': sp.get('loop'), 'anchor': sp.get('anchor')})


def inject(text, specs, ghost_calls=(), lenient_loops=False, lenient_ghost=False):
    """specs: list of dicts
         {func, loop, [occurrence], assigns:str|None, invariants:[str], decreases:str|None}
         {func, ghost: code, at: 'func-begin'|'body-begin'|'body-end' (+loop) |
                              'before'|'after' (+anchor text)}
       Returns (new_text, report)."""
    edits = []   # (pos, order, text)
    report = []
    for n, sp in enumerate(specs):
        func = sp['func']
        occ = sp.get('occurrence', 0)
        try:
            (bo, bc), loops = loops_of(text, func, occ)
        except InjectError:
            if (lenient_loops and 'ghost' not in sp) or (lenient_ghost and 'ghost' in sp):
                report.append({'func': func, 'loop': sp.get('loop'), 'dropped': 'function not found (fallback run)'})
                continue
            raise
        if 'ghost' in sp and lenient_ghost:
            # ghost-free fallback run (-DVC_FALLBACK=1): the harness compiles its ghost-dependent assertions out, so NO ghost statement is
            # injected - one whose anchor still matches may name locals the changed code no longer has
            report.append({'func': func, 'ghost': sp['ghost'], 'dropped': 'ghost statements are not injected in a ghost-free fallback run'})
            continue
        if 'ghost' in sp:
            _place_ghost(text, sp, bo, bc, loops, ghost_calls, edits, report, n)
            continue
        if False:
            code = sp['ghost']
            check_ghost(code, tuple(ghost_calls) + tuple(sp.get('calls', ())))
            at = sp['at']
            if at == 'func-begin':
                pos = bo + 1
            elif at in ('body-begin', 'body-end'):
                k = sp['loop']
                if k >= len(loops):
                    raise InjectError('%s has %d loops, wanted #%d' % (func, len(loops), k))
                lp = loops[k]
                if lp.body_open is None:
                    raise InjectError('%s#%d has no block body' % (func, k))
                pos = lp.body_open + 1 if at == 'body-begin' else lp.body_close
            elif at in ('before', 'after'):
                anchor = sp['anchor']
                body = text[bo:bc]
                cnt = body.count(anchor)
                if cnt != 1:
                    raise InjectError('anchor %r occurs %d times in %s' % (anchor, cnt, func))
                pos = bo + body.index(anchor)
                if at == 'after':
                    pos += len(anchor)
            else:
                raise InjectError('bad ghost position %r' % at)
            edits.append((pos, n, ' /*ghost*/ ' + code + ' '))
            report.append({'func': func, 'ghost': code, 'at': at,
                           'loop': sp.get('loop'), 'anchor': sp.get('anchor')})
            continue
        k = sp['loop']
        if lenient_loops:
            # witness / bounded fallback / native run: the loops are unwound, loop-contract clauses are not applied there and are
            # therefore not written into the copy at all (a clause naming a local the changed code no longer has would not compile)
            report.append({'func': func, 'loop': k, 'dropped': 'loop-contract clauses are not injected in a witness run'})
            continue
        if k >= len(loops) or ('expect' in sp and sp['expect'] not in loops[k].header):
            if lenient_loops:
                # bounded fallback run: loop-contract clauses have no runtime meaning, they may be dropped
                report.append({'func': func, 'loop': k, 'dropped': 'loop anchor does not match (fallback run)'})
                continue
            if k >= len(loops):
                raise InjectError('%s has %d loops, wanted #%d' % (func, len(loops), k))
            raise InjectError('%s#%d header %r does not contain %r' % (func, k, loops[k].header, sp['expect']))
        lp = loops[k]
        cl = []
        if sp.get('assigns') is not None:
            cl.append('__CPROVER_assigns(%s)' % sp['assigns'])
        for inv in sp.get('invariants', []):
            cl.append('__CPROVER_loop_invariant(%s)' % inv)
        if sp.get('decreases') is not None:
            cl.append('__CPROVER_decreases(%s)' % sp['decreases'])
        edits.append((lp.insert_pos, n, '\n' + '\n'.join(cl) + '\n'))
        report.append({'func': func, 'loop': k, 'kind': lp.kind, 'header': lp.header,
                       'clauses': cl})
    edits.sort(key=lambda e: (e[0], e[1]))
    out = []
    last = 0
    for pos, _, t in edits:
        out.append(text[last:pos])
        out.append(t)
        last = pos
    out.append(text[last:])
    return ''.join(out), report
