"""cxx2c — mechanical C++ -> C extraction (DESIGN.md 4).

CBMC's C++ front end is unusable for igris, so member functions that are "C with `this`" are
cut out of the real file on every run and rewritten by a fixed set of rules.  Nothing is
re-typed by hand: every piece of generated C is either
  * text copied from /repo by position (function body, struct fields, #define lines),
  * the result of a listed rewrite rule applied to such text, or
  * `glue` text given by the unit (includes, typedefs) — reported as glue.
Every rule states how often it must fire; if it fires less, ExtractError is raised and the
driver reports exit 2 (undecided), never a violation.  The report (and the generated file,
copied to evidence/extracted/) lets a reader diff original and verified text.

Spec (one entry of the unit's 'extract' list):
  {'out': 'cxx/gstuff.c', 'pieces': [piece, ...], 'typedefs': ['gstuff_context', ...]}
Pieces:
  {'op': 'glue', 'text': '...'}
  {'op': 'lines', 'file': F, 'regex': R, 'min': 1}
  {'op': 'struct', 'file': F, 'name': N, 'ctor': 'N_defaults'|None, 'nested_ctor': {type: fn},
   'tparams': {'T': 'ELEM'}, 'drop_fields': [...]}
  {'op': 'func', 'file': F, 'name': 'f' | 'C::m', 'in_class': C|None, 'as': cname, 'self': C|None,
   'members': [...], 'methods': {'reset': 'C_reset'}, 'refs': ['ctx'], 'tparams': {...},
   'occurrence': 0, 'rewrite': [[regex, repl, min], ...], 'std': ['casts', 'nullptr', 'labels', 'bool']}
"""
import os
import re

from . import inject as inj


class ExtractError(Exception):
    pass


STD_RULES = {
    'casts': [[r'\b(?:static_cast|reinterpret_cast|const_cast)\s*<([^<>]*(?:<[^<>]*>)?[^<>]*)>\s*\(', r'(\1)(', 0]],
    'nullptr': [[r'\bnullptr\b', 'NULL', 0]],
    'labels': [[r'^[ \t]*__label__[^;]*;[ \t]*\n', '', 0]],
    'bool': [],
    # frequent std spellings that have a direct C meaning at the concrete instantiation
    'stdtypes': [[r'\bstd::make_unsigned_t<\s*(?:std::)?int64_t\s*>', 'uint64_t', 0], [r'\bstd::make_unsigned_t<\s*(?:std::)?int32_t\s*>', 'uint32_t', 0],
                 [r'\bstd::make_unsigned_t<\s*int\s*>', 'unsigned int', 0], [r'\bstd::make_unsigned_t<\s*long\s*>', 'unsigned long', 0],
                 [r'\bstd::make_signed_t<\s*(?:std::)?uint64_t\s*>', 'int64_t', 0], [r'\bstd::make_signed_t<\s*(?:std::)?size_t\s*>', 'ptrdiff_t', 0],
                 [r'\bstd::(size_t|ptrdiff_t|u?int(?:8|16|32|64)_t|uintptr_t|intptr_t)\b', r'\1', 0],
                 [r'\busing\s+(\w+)\s*=\s*([^;{}()]+);', r'typedef \2 \1;', 0]],
    # Optional, applied AFTER the recipe's own rules ('std_after': ['elemalgos'] on a piece or on the whole recipe): std::
    # algorithms / igris helpers that the recipe has no rule for - i.e. calls a CHANGED function newly makes - go to the plain
    # stand-ins of spec/elem_algos.h, so that the extraction still yields C and the bounded fallback can decide.  All lenient.
    'elemalgos': [
        [r'([A-Za-z_][\w.>\-\[\]]*)\s*=\s*std::exchange\(([^,;]+),\s*([^;]+)\);', r'{ __typeof__(\2) vc_ex = \2; \2 = \3; \1 = vc_ex; }', 0],
        [r'\bstd::move\(([^;,()]*(?:\([^()]*\))?[^;,()]*), ([^;,()]*(?:\([^()]*\))?[^;,()]*), ([^;,()]*(?:\([^()]*\))?[^;,()]*)\)',
         r'vcstd_move_range(\1, \2, \3)', 0],
        [r'\b(?:std|igris)::(distance|next|prev|copy|copy_n|copy_backward|move_backward|fill|fill_n|equal|uninitialized_copy|uninitialized_copy_n|'
         r'uninitialized_move|uninitialized_fill|uninitialized_fill_n|uninitialized_default_construct|destroy|destroy_n|destroy_at|min|max)\s*(?:<[^<>()]*>)?\(',
         r'vcstd_\1(', 0],
        [r'\bigris::(destructor|array_destructor)\(', r'vcigris_\1(', 0],
        # a one-element parameter pack forwarded to T's constructor (recipes give such functions the parameter `int args`)
        [r'\bigris::constructor\(([^;,]*), std::forward<Args>\(args\)\.\.\.\);', r'ELEM_construct_value(\1, args);', 0],
        [r'\bnew \(([^()]*(?:\([^()]*\))?[^()]*)\) ELEM\(std::forward<Args>\(args\)\.\.\.\);', r'ELEM_construct_value(\1, args);', 0],
    ],
}


def _blank_comments(text):
    """text with // and /* */ comments replaced by spaces (same length; string literals kept)"""
    out = list(text)
    i, n = 0, len(text)
    while i < n:
        c = text[i]
        if text.startswith('//', i):
            j = text.find('\n', i)
            j = n if j < 0 else j
            for k in range(i, j):
                out[k] = ' '
            i = j
        elif text.startswith('/*', i):
            j = text.find('*/', i + 2)
            j = n if j < 0 else j + 2
            for k in range(i, j):
                if text[k] != '\n':
                    out[k] = ' '
            i = j
        elif c == '"' or c == "'":
            j = i + 1
            while j < n and text[j] != c:
                if text[j] == '\\':
                    j += 1
                j += 1
            i = j + 1
        else:
            i += 1
    return ''.join(out)


def _find_class(text, name):
    m = inj._mask(text)
    for mo in re.finditer(r'\b(struct|class)\s+' + re.escape(name) + r'\b([^;{]*)\{', m):
        bo = mo.end() - 1
        bc = inj._match(m, bo, '{', '}')
        return mo.start(), bo, bc
    raise ExtractError('class/struct %s not found' % name)


def _class_members(text, name):
    """Yield (decl_text, init_text|None) for data members of class `name`, in order."""
    _, bo, bc = _find_class(text, name)
    m = inj._mask(text)
    text = _blank_comments(text)      # keeps offsets identical to the masked text
    i = bo + 1
    out = []
    start = i
    while i < bc:
        ch = m[i]
        if ch == '{':
            head = m[start:i]
            close = inj._match(m, i, '{', '}')
            if '(' in head or re.search(r'\b(struct|class|union|enum)\b[^=]*$', head):
                # function definition or nested type: skip it
                i = close + 1
                # optional trailing ';'
                j = inj._skip_ws(m, i, bc)
                if j < bc and m[j] == ';' and '(' not in head:
                    i = j + 1
                start = i
                continue
            i = close + 1       # brace initialiser: part of the declaration
            continue
        if ch == ';':
            decl = text[start:i]
            mdecl = m[start:i]
            start = i + 1
            i += 1
            d = re.sub(r'^\s*((public|private|protected)\s*:\s*)+', '', decl.strip(), flags=re.S).strip()
            md = re.sub(r'^\s*((public|private|protected)\s*:\s*)+', '', mdecl.strip(), flags=re.S).strip()
            if not d:
                continue
            if re.match(r'(using|typedef|friend|static|template|enum|constexpr)\b', md):
                continue
            if '(' in md.split('=')[0] or 'operator' in md:
                continue
            # split initialiser
            init = None
            mo = re.search(r'(?<![=!<>])=(?!=)', md)
            if mo:
                k = mo.start()
                # map offset in md back to d (same length after identical stripping)
                init = d[k + 1:].strip()
                d = d[:k].strip()
            else:
                mo2 = re.match(r'^(.*?\w)\s*\{(.*)\}\s*$', d, re.S)
                if mo2:
                    d, init = mo2.group(1).strip(), '{' + mo2.group(2) + '}'
            out.append((d, init))
            continue
        i += 1
    return out


def _member_name(decl):
    d = re.sub(r'\[[^\]]*\]\s*$', '', decl.strip())
    mo = re.search(r'([A-Za-z_]\w*)\s*$', d)
    if not mo:
        raise ExtractError('cannot find member name in %r' % decl)
    return mo.group(1)


def _subst(text, tparams):
    for k, v in sorted((tparams or {}).items(), key=lambda kv: -len(kv[0])):
        pre = r'\b' if re.match(r'\w', k[0]) else ''
        post = r'\b' if re.match(r'\w', k[-1]) else ''
        text = re.sub(pre + re.escape(k) + post, v, text)
    return text


def _apply_rules(text, rules, what):
    """rules: [regex, repl, expected_min] or [regex, repl, expected_min, 'strict'].
    A rule that fires less often than expected is an extraction failure only when marked 'strict' (rules that
    REMOVE or NEUTRALISE semantics, e.g. dropping lock calls).  For plain translation rules under-firing is
    recorded in the report but tolerated: the construct they translate is not valid C, so if it is still
    present the compilation fails (exit 2), and if it is gone (the code was changed) the changed code is what
    gets verified - a changed statement must become a verified difference, not an extraction failure."""
    fired = []
    for rule in rules:
        rx, repl, mn = rule[0], rule[1], rule[2]
        strict = len(rule) > 3 and rule[3] == 'strict'
        new, n = re.subn(rx, repl, text, flags=re.M)
        if n < mn and strict:
            raise ExtractError('%s: strict rule %r fired %d times, expected >= %d' % (what, rx, n, mn))
        rec = {'rule': rx, 'repl': repl, 'fired': n}
        if n < mn:
            rec['underfired'] = 'expected >= %d' % mn
        fired.append(rec)
        text = new
    return text, fired


def _op_struct(repo, p):
    src = open(os.path.join(repo, p['file']), errors='replace').read()
    name = p['name']
    members = _class_members(src, name)
    if not members:
        raise ExtractError('%s: no data members found' % name)
    cname = p.get('as', name)
    lines = ['struct %s {' % cname]
    inits = []
    names = []
    for decl, init in members:
        mname = _member_name(decl)
        if mname in p.get('drop_fields', []):
            continue
        names.append(mname)
        d = _subst(decl, p.get('tparams'))
        for rx, rp in p.get('type_rewrite', []):        # e.g. a template-id that IS a C struct already extracted
            d = re.sub(rx, rp, d)
        d = re.sub(r'\bmutable\s+', '', d)
        lines.append('    %s;' % d)
        mtype = d[:d.rfind(mname)].strip()
        nested = p.get('nested_ctor', {})
        tkey = re.sub(r'\b(struct|const|volatile)\b', '', mtype).strip()
        if init is not None:
            init = re.sub(r'\bnullptr\b', 'NULL', _subst(init, p.get('tparams')))
            if re.match(r'^\{\s*\}$', init) and tkey in nested:
                inits.append('    %s(&self->%s);      /* `= {}` of a class type: its default constructor */' % (nested[tkey], mname))
            elif re.match(r'^\{\s*\}$', init):
                inits.append('    memset(&self->%s, 0, sizeof(self->%s));' % (mname, mname))
            elif init.startswith('{'):
                inits.append('    self->%s = (%s)%s;' % (mname, mtype, init))
            else:
                inits.append('    self->%s = %s;' % (mname, init))
        elif tkey in nested:
            inits.append('    %s(&self->%s);' % (nested[tkey], mname))
    lines.append('};')
    out = '\n'.join(lines) + '\n'
    if p.get('ctor'):
        out += ('/* cxx2c R3: default member initialisers of %s, in declaration order */\n'
                'static inline void %s(struct %s *self)\n{\n%s\n}\n') % (name, p['ctor'], cname, '\n'.join(inits))
    rep = {'rule': 'struct', 'what': '%s: fields %s copied from %s; default member initialisers moved into %s()' % (
        name, names, p['file'], p.get('ctor'))}
    p['_members'] = names
    return out, [rep]


def _op_lines(repo, p):
    src = open(os.path.join(repo, p['file']), errors='replace').read()
    got = [l for l in src.splitlines() if re.search(p['regex'], l)]
    if len(got) < p.get('min', 1):
        raise ExtractError('lines %r in %s: %d matches, expected >= %d' % (p['regex'], p['file'], len(got), p.get('min', 1)))
    return '\n'.join(got) + '\n', [{'rule': 'lines', 'what': '%d lines matching %r copied from %s' % (len(got), p['regex'], p['file'])}]


def _sig_start(m, name_pos, floor=0):
    """start of the declaration that contains name_pos: after the previous ';', '}' or
    preprocessor line / access specifier."""
    i = name_pos
    while i > floor:
        c = m[i - 1]
        if c in ';}{':
            break
        if c == ':' and m[i - 2:i - 1] != ':' and m[i:i + 1] != ':':
            # access specifier "public:" (ctor-init lists come after the name, not before)
            break
        if c == '\n':
            # stop at a preprocessor line
            ls = m.rfind('\n', 0, i - 1) + 1
            if m[ls:i - 1].lstrip().startswith('#'):
                break
        i -= 1
    return i


def _op_func(repo, p, struct_members):
    src = open(os.path.join(repo, p['file']), errors='replace').read()
    name = p['name']
    base = 0
    limit = len(src)
    if p.get('in_class'):
        _, cbo, cbc = _find_class(src, p['in_class'])
        base, limit = cbo + 1, cbc
    region = src[base:limit]
    try:
        npos, popen, bo, bc = inj.find_function_ex(region, name, p.get('occurrence', 0))
    except inj.InjectError as e:
        # R11: a destructor declared `~X() = default;` (or not declared at all) has no body of its own: what runs is the implicit
        # destruction of the members, in reverse declaration order ([class.dtor]); the recipe names their destructors ('member_dtors')
        if name.startswith('~') and p.get('member_dtors') is not None and \
                (re.search(r'%s\s*\(\s*\)\s*(?:noexcept\s*)?=\s*default\s*;' % re.escape(name), inj._mask(region)) or
                 not re.search(re.escape(name) + r'\s*\(', inj._mask(region))):
            calls = ' '.join('%s(&self->%s);' % (fn, mem) for mem, fn in reversed(p['member_dtors']))
            cname = p.get('as', name.replace('::', '_'))
            text = '/* cxx2c: %s from %s: defaulted destructor (R11: implicit member destruction only) */\nvoid %s(struct %s *self)\n{\n    %s\n}\n' % (
                name, p['file'], cname, p.get('self_as', p.get('self')), calls)
            return text, [{'rule': 'func', 'what': '%s <- %s (= default) as %s' % (name, p['file'], cname),
                           'rules': [{'rule': 'R11 defaulted destructor', 'fired': len(p['member_dtors'])}]}]
        raise ExtractError(str(e))
    bo += base
    bc += base
    m = inj._mask(src)
    idx = base + npos
    pidx = base + popen
    pclose = inj._match(m, pidx, '(', ')')
    ss = _sig_start(m, idx, base)
    ret = src[ss:idx].strip()
    ret = re.sub(r'\b(inline|static|virtual|explicit|constexpr|friend)\b', '', ret).strip()
    ret = re.sub(r'^template\s*<[^>]*>\s*', '', ret).strip()
    params = src[pidx + 1:pclose].strip()
    after = src[pclose + 1:bo]           # const / noexcept / override / ctor-init list
    body = src[bo:bc + 1]
    is_ctor = (ret == '' and not p.get('ret'))
    fired = []
    # R3b: constructor mem-initialiser list -> assignments at the top of the body (before the R6/R2 passes)
    mafter = m[pclose + 1:bo]
    ci = mafter.find(':')
    if is_ctor and ci >= 0 and mafter[ci:ci + 2] != '::':
        lst = src[pclose + 1 + ci + 1:bo]
        mlst = mafter[ci + 1:]
        items, depth, start = [], 0, 0
        for k, ch in enumerate(mlst):
            if ch in '({':
                depth += 1
            elif ch in ')}':
                depth -= 1
            elif ch == ',' and depth == 0:
                items.append(lst[start:k])
                start = k + 1
        items.append(lst[start:])
        stmts = []
        for it in items:
            it = it.strip()
            if not it:
                continue
            mo = re.match(r'^([A-Za-z_]\w*)\s*[({](.*)[)}]$', it, re.S)
            if not mo:
                raise ExtractError('%s: cannot parse mem-initialiser %r' % (name, it))
            mem, expr = mo.group(1), mo.group(2).strip()
            if p.get('delegating') and mem == p['delegating'].get('name'):
                stmts.append('%s(self%s);' % (p['delegating']['as'], (', ' + expr) if expr else ''))
            elif expr == '':
                stmts.append('memset(&%s, 0, sizeof(%s));' % (mem, mem))
            else:
                stmts.append('%s = %s;' % (mem, expr))
        body = '{\n    /* cxx2c R3b: mem-initialiser list */ ' + ' '.join(stmts) + body[1:]
        fired.append({'rule': 'R3b mem-initialiser list', 'fired': len(stmts)})
    tp = p.get('tparams')
    ret, params, body = _subst(ret, tp), _subst(params, tp), _subst(body, tp)
    # R6 references -> pointers
    refs = p.get('refs', [])
    for r in refs:
        new, n = re.subn(r'&\s*' + re.escape(r) + r'\b', '*' + r, params)
        if n != 1:
            raise ExtractError('%s: reference parameter %s not found in (%s)' % (name, r, params))
        params = new
        body, n1 = re.subn(r'(?<![\w.>])' + re.escape(r) + r'\s*\.(?=\s*[A-Za-z_])', r + '->', body)
        body, n2 = re.subn(r'(?<![\w.>])' + re.escape(r) + r'\b(?!\s*->)', '(*' + r + ')', body)
        fired.append({'rule': 'R6 ref %s' % r, 'fired': n1 + n2})
    params = re.sub(r'\s*=\s*[^,]+', '', params)     # default arguments
    # R2 this
    selfc = p.get('self')
    if selfc:
        members = p.get('members') or struct_members.get(selfc, [])
        body, n0 = re.subn(r'\bthis\s*->\s*', 'self->', body)
        body, n00 = re.subn(r'\bthis\b', 'self', body)      # bare `this` (pointer value); `*this` becomes `*self`
        n0 += n00
        locals_ = set(re.findall(r'[A-Za-z_]\w*', params)) | set(p.get('locals', []))
        cnt = 0
        for mem in members:
            if mem in locals_:
                continue
            body, n = re.subn(r'(?<![\w.>])(?<!->)(?<!::)' + re.escape(mem) + r'\b(?!\s*\()', 'self->' + mem, body)
            # undo double prefix self->self->x
            body = body.replace('self->self->', 'self->')
            cnt += n
        for meth, cfn in (p.get('methods') or {}).items():
            body, n = re.subn(r'(?<![\w.>:])' + re.escape(meth) + r'\s*\(\s*\)', cfn + '(self)', body)
            body, n2 = re.subn(r'(?<![\w.>:])' + re.escape(meth) + r'\s*\(', cfn + '(self, ', body)
            cnt += n + n2
        fired.append({'rule': 'R2 this/members/methods', 'fired': n0 + cnt})
        sp = '%sstruct %s *self' % ('const ' if re.search(r'\bconst\b', after.split(':')[0]) and p.get('const_self') else '', p.get('self_as', selfc))
        params = sp + (', ' + params if params and params != 'void' else '')
    rules = []
    for s in p.get('std', ['casts', 'nullptr', 'labels', 'stdtypes']):
        rules += STD_RULES[s]
    rules += p.get('rewrite', [])
    for s in p.get('std_after', []):
        rules += STD_RULES[s]
    body, f2 = _apply_rules(body, rules, name)
    fired += f2
    if p.get('sig_rewrite'):
        sig_txt, f3 = _apply_rules(ret + ' ' + '@NAME@' + '(' + params + ')', p['sig_rewrite'], name + ' signature')
        fired += f3
        ret, rest = sig_txt.split('@NAME@', 1)
        params = rest.strip()[1:-1]
        ret = ret.strip()
    if is_ctor or p.get('ret'):
        ret = p.get('ret', 'void')
    cname = p.get('as', name.replace('::', '_'))
    if name.startswith('~') and p.get('member_dtors'):
        # R11: after the body of a destructor the members are destroyed, in reverse declaration order ([class.dtor])
        calls = ' '.join('%s(&self->%s);' % (fn, mem) for mem, fn in reversed(p['member_dtors']))
        k = body.rstrip().rfind('}')
        body = body[:k] + '    /* cxx2c R11: implicit member destruction */ ' + calls + '\n' + body[k:]
        fired.append({'rule': 'R11 implicit member destruction', 'fired': len(p['member_dtors'])})
    text = '/* cxx2c: %s from %s */\n%s %s(%s)\n%s\n' % (name, p['file'], ret, cname, params or 'void', body)
    line0 = src.count('\n', 0, ss) + 1
    line1 = src.count('\n', 0, bc) + 1
    rep = {'rule': 'func', 'what': '%s <- %s:%d-%d as %s' % (name, p['file'], line0, line1, cname), 'rules': fired}
    return text, [rep]


def extract(repo, overlay, spec):
    out_rel = spec['out']
    chunks = ['/* GENERATED on every run by /verif/vclib/cxx2c.py from the files named below; do not edit. */\n']
    for t in spec.get('typedefs', []):
        chunks.append('typedef struct %s %s;\n' % (t, t))
    report = []
    struct_members = {}
    for p in spec['pieces']:
        op = p['op']
        if op == 'glue':
            chunks.append(p['text'] + '\n')
            report.append({'rule': 'glue', 'what': p['text'][:200]})
        elif op == 'lines':
            t, r = _op_lines(repo, p)
            chunks.append(t)
            report += r
        elif op == 'anchor':
            # must-match check only: the glue that follows relies on this text being present in the real file
            t, r = _op_lines(repo, p)
            chunks.append('/* cxx2c anchor: %d line(s) of %s match %r */\n' % (t.count('\n'), p['file'], p['regex']))
            report += r
        elif op == 'struct':
            t, r = _op_struct(repo, p)
            struct_members[p.get('as', p['name'])] = p['_members']
            struct_members[p['name']] = p['_members']
            chunks.append(t)
            report += r
        elif op == 'func':
            if spec.get('std_after') and 'std_after' not in p:
                p = dict(p, std_after=spec['std_after'])
            # class-wide method table (recipe key 'methods_all': {class: {method: c_name}}): a changed member function may
            # call a sibling it did not call before; the piece's own table takes precedence
            ma = (spec.get('methods_all') or {}).get(p.get('self'))
            if ma:
                p = dict(p, methods=dict(ma, **(p.get('methods') or {})))
            t, r = _op_func(repo, p, struct_members)
            chunks.append(t)
            report += r
        else:
            raise ExtractError('unknown op %r' % op)
    dst = os.path.join(overlay, out_rel)
    os.makedirs(os.path.dirname(dst), exist_ok=True)
    text = '\n'.join(chunks)
    open(dst, 'w').write(text)
    for r in report:
        r['file'] = out_rel
    return report
