// Reproducer for C05_escape_const_test: in the escape state gstuff_autorecv::newchar tested the
// constant `ctx.GSTUFF_START` (always true) instead of `c == ctx.GSTUFF_START`, so ANY invalid
// escape sequence silently restarted a frame without a start marker and the STUFFING_ERROR
// branch was dead.  The bytes after the corruption are then delivered as a packet although no
// start marker precedes them.
// build: g++ -std=c++17 -I/repo reproducers/C05_escape_const_test.cpp /repo/igris/protocols/gstuff.cpp -o /tmp/r && /tmp/r
// exit 1 = defect present, 0 = fixed
#include <igris/protocols/gstuff.h>
#include <igris/util/crc.h>
#include <cstdio>
int main()
{
    gstuff_context ctx;
    uint8_t buf[32];
    gstuff_autorecv rx(ctx);
    rx.init(buf, sizeof buf);
    uint8_t crc = 0xFF;
    igris_strmcrc8(&crc, 'A');
    // START 'q' STUB 'z'(invalid escape)  'A' crc STOP      -- crc chosen so that "A" alone checks out
    char stream[] = {ctx.GSTUFF_START, 'q', ctx.GSTUFF_STUB, 'z', 'A', (char)crc, ctx.GSTUFF_STOP};
    int delivered = 0, stuffing_error = 0;
    for (char c : stream) {
        int s = rx.newchar(c);
        if (s == GSTUFF_STUFFING_ERROR) stuffing_error = 1;
        if (s == GSTUFF_NEWPACKAGE) { delivered = 1; printf("delivered \"%.*s\" (%zu bytes) from a frame with a broken escape\n", (int)rx.size(), rx.cstr(), rx.size()); }
    }
    printf("stuffing error reported: %d, packet delivered: %d\n", stuffing_error, delivered);
    return delivered ? 1 : 0;
}
