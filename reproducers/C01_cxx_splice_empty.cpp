// Reproducer for C01_cxx_splice_empty: dlist_base::unlink_and_move_all_nodes_from_other(other) with an EMPTY other
// list links this list's head to the other list's head (which is then re-initialised): this list is corrupted -
// empty() is false although it holds nothing, forward traversal never comes back to its head.
// build: g++ -std=c++17 -I/repo reproducers/C01_cxx_splice_empty.cpp /repo/igris/container/dlist.cpp -o /tmp/r && /tmp/r
// exit 1 = defect present (without the _exit the program hangs in ~dlist_base)
#include <igris/container/dlist.h>
#include <cstdio>
#include <utility>
#include <unistd.h>
struct item { int v; igris::dlist_node lnk; };
int main()
{
    igris::dlist<item, &item::lnk> a, b;
    item x{1};
    a.move_back(x);
    a.unlink_and_move_all_nodes_from_other(std::move(b));     // take over the (empty) list b
    bool ok = a.empty() && a.first_node() == a.last_node() && a.first_node()->next_node() == a.first_node();
    printf("after splicing an empty list: a.empty()=%d, head self-linked=%d (expected 1, 1)\n", (int)a.empty(),
           (int)(a.first_node()->next_node() == a.first_node() && a.first_node() == a.last_node() && a.empty()));
    fflush(stdout);
    _exit(ok ? 0 : 1);     // the destructor of the corrupted list would never terminate (while (!empty()) pop_front())
}
