// Reproducer for C01_cxx_move_self: igris::dlist_node::move_prev_than(this) / move_next_than(this) unlinks the node
// and then links it to itself: the node silently drops out of its list (a reference list leaves the sequence unchanged
// when an element is moved next to itself).
// build: g++ -std=c++17 -I/repo reproducers/C01_cxx_move_self.cpp /repo/igris/container/dlist.cpp -o /tmp/r && /tmp/r
// exit 1 = defect present
#include <igris/container/dlist.h>
#include <cstdio>
struct item { int v; igris::dlist_node lnk; };
int main()
{
    igris::dlist<item, &item::lnk> lst;
    item a{1}, b{2}, c{3};
    lst.move_back(a); lst.move_back(b); lst.move_back(c);
    b.lnk.move_prev_than(&b.lnk);           // "move b before b"
    printf("size after moving b before itself: %zu (expected 3), b linked: %d\n", lst.size(), (int)b.lnk.is_linked());
    int bad = lst.size() != 3;
    c.lnk.move_next_than(&c.lnk);
    printf("size after moving c after itself: %zu\n", lst.size());
    return bad || lst.size() != 3;
}
