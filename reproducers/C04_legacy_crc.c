/* Reproducer for known finding C04_legacy_crc (fixed): gstuffing_v1 emitted the CRC byte
 * unescaped, so a payload whose CRC-8 is the marker 0xAC or the escape 0xAD produced a frame
 * the legacy receiver cannot decode.
 * build: cc -I/repo reproducers/C04_legacy_crc.c /repo/igris/protocols/gstuff_v1/gstuff.c \
 *           /repo/igris/protocols/gstuff_v1/autorecv.c -o /tmp/r && /tmp/r
 * exit 1 = defect present (some 1-byte payload does not round-trip), 0 = all 256 round-trip */
#include <igris/protocols/gstuff_v1/autorecv.h>
#include <stdio.h>
#include <string.h>
int main(void)
{
    int bad = 0;
    for (int b = 0; b < 256; b++) {
        char payload[1] = {(char)b}, out[8], rxbuf[8];
        struct gstuff_autorecv_v1 rx;
        memset(&rx, 0, sizeof rx);
        gstuff_autorecv_setbuf_v1(&rx, rxbuf, sizeof rxbuf);
        int n = gstuffing_v1(payload, 1, out), got = 0;
        for (int i = 0; i < n; i++) {
            int s = gstuff_autorecv_newchar_v1(&rx, out[i]);
            if (s == GSTUFF_NEWPACKAGE_V1 && i == n - 1 && rx.line.len == 2 && rxbuf[0] == (char)b) got = 1;
        }
        if (!got) { printf("payload {0x%02x} does not round-trip (frame length %d)\n", b, n); bad = 1; }
    }
    return bad;
}
