// Reproducer for C04_vector_sizing: the std::vector-returning gstuffing()/gstuffing_v() overloads size
// their buffer 2n+2, but a frame is START + escaped(payload) + escaped(CRC) + STOP = up to 2n+4 bytes
// (already 3 bytes for the empty payload, 5..6 for a single marker byte): heap buffer overflow.
// build: g++ -std=c++17 -fsanitize=address -g -I/repo reproducers/C04_vector_sizing.cpp /repo/igris/protocols/gstuff.cpp -o /tmp/r && /tmp/r
// ASan report / exit != 0 = defect present
#include <igris/protocols/gstuff.h>
#include <cstdio>
int main()
{
    gstuff_context ctx;
    auto f0 = gstuffing(igris::buffer("", 0), ctx);          // empty payload: frame is 3 bytes, buffer 2
    char m[1] = {ctx.GSTUFF_START};
    auto f1 = gstuffing(igris::buffer(m, 1), ctx);           // one marker byte: frame is 5 or 6 bytes, buffer 4
    printf("frames of %zu and %zu bytes built without overflow\n", f0.size(), f1.size());
    return 0;
}
