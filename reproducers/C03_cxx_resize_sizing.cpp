// Reproducer for C03_cxx_resize_sizing: igris::ring<T>::resize(sz) resizes the backing array to sz slots but
// initialises the ring with sz+1 slots (the constructor uses bufsize+1 for both), so slot index sz lies one
// past the allocation: a push at head == sz writes outside the buffer although the ring is not full.
// build: g++ -std=c++17 -fsanitize=address -g -I/repo reproducers/C03_cxx_resize_sizing.cpp -o /tmp/r && /tmp/r
#include <igris/container/ring.h>
#include <cstdio>
int main()
{
    igris::ring<char> r;
    r.resize(4);
    for (char c = 'a'; c < 'e'; ++c) r.push(c);   // slots 0..3
    r.pop();                                       // 3 elements held, ring (5 slots) is not full
    r.push('e');                                   // head == 4: one past the 4-slot array
    printf("avail=%u size=%u buffer=%zu\n", r.avail(), r.size(), r.buffer.size());
    return 0;
}
