// Reproducer for C14_erase_empty_range_selfmove: static_vector::erase(p, p) with p before end() move-assigns every tail
// element onto itself (std::move(last, end(), first) with first == last). For element types whose self-move-assignment
// leaves them empty (std::vector<int> in libstdc++) the "erased nothing" call wipes the tail: std::vector::erase(p,p) is a no-op.
// build: g++ -std=c++17 -I/repo reproducers/C14_erase_empty_range_selfmove.cpp -o /tmp/r && /tmp/r      (exit 1 = defect present)
#include <igris/container/static_vector.h>
#include <vector>
#include <cstdio>
int main()
{
    igris::static_vector<std::vector<int>, 4> v;
    v.push_back({1, 2, 3}); v.push_back({4, 5, 6}); v.push_back({7, 8, 9});
    v.erase(v.begin() + 1, v.begin() + 1);          // empty range
    printf("row sizes after erase(p,p): %zu %zu %zu (expected 3 3 3)\n", v[0].size(), v[1].size(), v[2].size());
    return (v[0].size() == 3 && v[1].size() == 3 && v[2].size() == 3) ? 0 : 1;
}
