// Reproducer for C05_v0_resync: with the V0 alphabet (start marker == stop marker) a receiver that is
// one marker out of phase never resynchronises on back-to-back frames: a marker arriving with an empty
// line is taken as "stop with bad CRC" instead of a repeated start, the receiver drops to idle, skips
// the frame body as garbage and takes the frame's closing marker as the next start - for ever.
// build: g++ -std=c++17 -I/repo reproducers/C05_v0_resync.cpp /repo/igris/protocols/gstuff.cpp -o /tmp/r && /tmp/r
// exit 1 = defect present (no frame delivered), 0 = frames after the first are delivered
#include <igris/protocols/gstuff.h>
#include <cstdio>
#include <vector>
int main()
{
    gstuff_context ctx = gstuff_context_v0();
    uint8_t buf[64];
    gstuff_autorecv rx(ctx);
    rx.init(buf, sizeof buf);
    std::vector<uint8_t> stream;
    stream.push_back((uint8_t)ctx.GSTUFF_START);                 // one stray marker (line noise)
    const char *msgs[] = {"one", "two", "three", "four"};
    for (auto m : msgs) {
        char out[32];
        int n = gstuffing(m, strlen(m), out, ctx);
        stream.insert(stream.end(), out, out + n);
    }
    int delivered = 0;
    for (uint8_t c : stream)
        if (rx.newchar((char)c) == GSTUFF_NEWPACKAGE) { delivered++; printf("delivered \"%.*s\"\n", (int)rx.size(), rx.cstr()); }
    printf("%d of 4 frames delivered after one stray marker\n", delivered);
    return delivered >= 3 ? 0 : 1;
}
