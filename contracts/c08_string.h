/* C08: contracts of the bundled libc shim's string functions (compat/libc/string/*.c), transcribed
 * from ISO C 7.24 / POSIX.
 *
 * One clause text, two uses.  Every pre/postcondition is a macro C08_<FN>_PRE / C08_<FN>_POST.
 *   - the unit that PROVES <fn> builds the most general state satisfying PRE in its harness, calls the
 *     real code and asserts POST (harness form, legacy mode: the loops write buffers);
 *   - the function contract attached to the declaration below uses the very same macros in
 *     __CPROVER_requires / __CPROVER_ensures, and is what callers get under
 *     --replace-call-with-contract (strchr -> strchrnul, strrchr -> strchr + strlen, ...).
 *
 * Quantifiers.  No forall/exists is available, so
 *   "for all i"   is stated about one arbitrary ghost index  g_<fn>_k  (the caller fixes it before the
 *                 call as a function of its own ghost index; sound because the clause holds for every value);
 *   "exists L"    in a precondition (s is a string: some s[L] is NUL inside the object) is a ghost
 *                 witness  g_<fn>_L  supplied by the caller;
 *   "exists p"    in a postcondition (the position where a scan stopped) is a ghost output  g_<fn>_end:
 *                 the contract assigns it, the proving unit sets it by an injected ghost statement from the
 *                 function's own final state.  A witness only has to exist, so whatever value the ghost
 *                 statement produces the asserted facts about it are checked by the prover.
 *   __CPROVER_old cannot wrap a conditional, so old source bytes travel in a ghost g_<fn>_v that the
 *   precondition ties to the byte.
 *
 * Names.  The shim sources are compiled under vc_<name> (macros below) so that neither the host libc
 * (native replay, ASan's own use of memcpy) nor cbmc's built-in library models are involved: a call the
 * real code makes to strlen() is a call to the shim's strlen, as on the bare-metal target.
 */
#ifndef C08_STRING_H
#define C08_STRING_H
#include <stddef.h>
#include <stdint.h>
#include <string.h>
#include <strings.h>
#include <stdlib.h>

#define memcpy vc_memcpy
#define memmove vc_memmove
#define memset vc_memset
#define memcmp vc_memcmp
#define memchr vc_memchr
#define strlen vc_strlen
#define strnlen vc_strnlen
#define strcpy vc_strcpy
#define strncpy vc_strncpy
#define strlcpy vc_strlcpy
#define strcat vc_strcat
#define strncat vc_strncat
#define strcmp vc_strcmp
#define strncmp vc_strncmp
#define strcasecmp vc_strcasecmp
#define strncasecmp vc_strncasecmp
#define strchr vc_strchr
#define strrchr vc_strrchr
#define strchrnul vc_strchrnul
#define strstr vc_strstr
#define strcasestr vc_strcasestr
#define strspn vc_strspn
#define strcspn vc_strcspn
#define strpbrk vc_strpbrk
#define strtok vc_strtok
#define strtok_r vc_strtok_r
#define strdup vc_strdup
#define strndup vc_strndup
#define strlwr vc_strlwr
#define strupr vc_strupr

/* largest string / block length considered (same limit as VC_MAXOBJ of vc.h in proof mode) */
#define C08_MAXLEN ((size_t)1 << 40)

#define C08_IMP(a, b) (!(a) || (b))
/* index of p relative to base (same object) */
#ifdef REPLAY
#define C08_IDX(p, base) ((size_t)((const char *)(p) - (const char *)(base)))
#define __CPROVER_ssize_t ptrdiff_t
#else
#define C08_IDX(p, base) ((size_t)(__CPROVER_POINTER_OFFSET(p) - __CPROVER_POINTER_OFFSET(base)))
#endif
/* "s points to a string": witness L with s[0..L] readable and s[L] == 0 (earlier NULs allowed) */
#define C08_IS_STR(s, L) ((L) < C08_MAXLEN && __CPROVER_r_ok((s), (L) + 1) && ((const char *)(s))[(L)] == 0)
/* the ISO "objects shall not overlap" precondition of memcpy/strcpy/... for blocks of n bytes */
#define C08_DISJOINT(d, s, n)                                                                         \
    ((n) == 0 || !__CPROVER_same_object((d), (s)) ||                                                  \
     __CPROVER_POINTER_OFFSET(d) + (__CPROVER_ssize_t)(n) <= __CPROVER_POINTER_OFFSET(s) ||           \
     __CPROVER_POINTER_OFFSET(s) + (__CPROVER_ssize_t)(n) <= __CPROVER_POINTER_OFFSET(d))

/* ------------------------------------------------------------------ memcpy (ISO 7.24.2.1) */
/* The clause texts C08_MEM_ACCESS_PRE, C08_DISJOINT, C08_MEMCPY_GHOST_PRE and C08_MEMCPY_POST are, name for name,
 * the clauses of memcpy in contracts/libc_contracts.h (what other properties assume for the host libc).
 * The shim's memcpy is proved under the WEAKER precondition C08_FWD_OK instead of C08_DISJOINT: it copies
 * forward, so it is also correct when dst overlaps src from below (dst <= src) - which is exactly how the
 * shim's memmove calls it.  C08_DISJOINT implies C08_FWD_OK, hence the ISO contract follows (unit
 * libc_memcpy_contract enforces the literal libc_contracts.h contract on a wrapper of vc_memcpy). */
size_t g_memcpy_k; /* in: ghost index */
char g_memcpy_v;   /* in: old src[k] */
#define C08_MEM_ACCESS_PRE(dst, src, n) ((n) == 0 || (__CPROVER_r_ok((src), (n)) && __CPROVER_w_ok((dst), (n))))
/* forward copy is safe: the blocks do not overlap with dst above src */
#define C08_FWD_OK(dst, src, n)                                                                       \
    ((n) == 0 || !__CPROVER_same_object((dst), (src)) ||                                              \
     __CPROVER_POINTER_OFFSET(dst) <= __CPROVER_POINTER_OFFSET(src) ||                                \
     __CPROVER_POINTER_OFFSET(src) + (__CPROVER_ssize_t)(n) <= __CPROVER_POINTER_OFFSET(dst))
#define C08_MEMCPY_GHOST_PRE(src, n) C08_IMP(g_memcpy_k < (n), g_memcpy_v == ((const char *)(src))[g_memcpy_k])
#define C08_MEMCPY_POST(r, dst, n)                                                                    \
    ((r) == (dst) && C08_IMP(g_memcpy_k < (n), ((const char *)(dst))[g_memcpy_k] == g_memcpy_v))
void *vc_memcpy(void *dst, const void *src, size_t n)
__CPROVER_requires(C08_MEM_ACCESS_PRE(dst, src, n))
__CPROVER_requires(C08_FWD_OK(dst, src, n))
__CPROVER_requires(C08_MEMCPY_GHOST_PRE(src, n))
__CPROVER_assigns(n != 0: __CPROVER_object_upto(dst, n))
__CPROVER_ensures(C08_MEMCPY_POST(__CPROVER_return_value, dst, n));

/* ------------------------------------------------------------------ memmove (ISO 7.24.2.2) */
/* same clause texts as memmove in contracts/libc_contracts.h (unit libc_memmove_contract enforces the literal
 * libc_contracts.h contract on a wrapper of vc_memmove) */
size_t g_memmove_k; /* in: ghost index */
char g_memmove_v;   /* in: old src[k] */
#define C08_MEMMOVE_GHOST_PRE(src, n) C08_IMP(g_memmove_k < (n), g_memmove_v == ((const char *)(src))[g_memmove_k])
#define C08_MEMMOVE_POST(r, dst, n)                                                                   \
    ((r) == (dst) && C08_IMP(g_memmove_k < (n), ((const char *)(dst))[g_memmove_k] == g_memmove_v))
void *vc_memmove(void *dst, const void *src, size_t n)
__CPROVER_requires(C08_MEM_ACCESS_PRE(dst, src, n))
__CPROVER_requires(C08_MEMMOVE_GHOST_PRE(src, n))
__CPROVER_assigns(n != 0: __CPROVER_object_upto(dst, n))
__CPROVER_ensures(C08_MEMMOVE_POST(__CPROVER_return_value, dst, n));

/* ------------------------------------------------------------------ strlen (ISO 7.24.6.3) */
size_t g_strlen_L; /* in: witness, str[g_strlen_L] == 0 */
size_t g_strlen_k; /* in: ghost index */
#define C08_STRLEN_PRE(str) C08_IS_STR(str, g_strlen_L)
#define C08_STRLEN_POST(r, str)                                                                       \
    ((r) <= g_strlen_L && ((const char *)(str))[(r)] == 0 &&                                          \
     C08_IMP(g_strlen_k < (r), ((const char *)(str))[g_strlen_k] != 0))
size_t vc_strlen(const char *str)
__CPROVER_requires(C08_STRLEN_PRE(str))
__CPROVER_assigns()
__CPROVER_ensures(C08_STRLEN_POST(__CPROVER_return_value, str));


/* ------------------------------------------------------------------ strchrnul (GNU) */
size_t g_strchrnul_L; /* in: witness, str[L] == 0 */
size_t g_strchrnul_k; /* in: ghost index */
#define C08_STRCHRNUL_PRE(str) C08_IS_STR(str, g_strchrnul_L)
/* result points at the first byte of str that is (char)ch or NUL */
#define C08_STRCHRNUL_POST(r, str, ch)                                                                \
    ((r) != NULL && __CPROVER_same_object((r), (str)) && C08_IDX(r, str) <= g_strchrnul_L &&          \
     (*(const char *)(r) == (char)(ch) || *(const char *)(r) == 0) &&                                 \
     C08_IMP(g_strchrnul_k < C08_IDX(r, str),                                                         \
             ((const char *)(str))[g_strchrnul_k] != (char)(ch) && ((const char *)(str))[g_strchrnul_k] != 0))
char *vc_strchrnul(const char *str, int ch)
__CPROVER_requires(C08_STRCHRNUL_PRE(str))
__CPROVER_assigns()
__CPROVER_ensures(C08_STRCHRNUL_POST(__CPROVER_return_value, str, ch));

/* ------------------------------------------------------------------ strchr (ISO 7.24.5.2) */
size_t g_strchr_L;   /* in: witness, str[L] == 0 */
size_t g_strchr_k;   /* in: ghost index */
size_t g_strchr_end; /* out: index where the search stopped: first byte that is (char)ch or NUL */
#define C08_STRCHR_PRE(str) C08_IS_STR(str, g_strchr_L)
/* Known finding C08_strchr_wide_nul: the shim's strchr is wrong for ch != 0 with (char)ch == 0 (256 ...).
 * The strchr unit proves POST for every other int ch (and for all of them once the fix is applied);
 * callers that use the contract must therefore stay outside the region (they all pass a non-zero char). */
#define C08_STRCHR_KF_REGION(ch) ((char)(ch) == 0 && (ch) != 0)
/* the terminator is part of the string: a NUL found while looking for (char)ch == 0 is a hit */
#define C08_STRCHR_POST(r, str, ch)                                                                   \
    (g_strchr_end <= g_strchr_L &&                                                                    \
     C08_IMP(g_strchr_k < g_strchr_end,                                                               \
             ((const char *)(str))[g_strchr_k] != (char)(ch) && ((const char *)(str))[g_strchr_k] != 0) && \
     (((const char *)(str))[g_strchr_end] == (char)(ch)                                               \
          ? (r) == (const char *)(str) + g_strchr_end                                                 \
          : (((const char *)(str))[g_strchr_end] == 0 && (r) == NULL)))
char *vc_strchr(const char *str, int ch)
__CPROVER_requires(C08_STRCHR_PRE(str))
__CPROVER_requires(!C08_STRCHR_KF_REGION(ch))
__CPROVER_assigns(g_strchr_end)
/* old(): a caller may assign the result to the very variable it passes (str = strchr(str, ch)) */
__CPROVER_ensures(C08_STRCHR_POST(__CPROVER_return_value, __CPROVER_old(str), ch));

/* ------------------------------------------------------------------ strcspn (ISO 7.24.5.3) */
size_t g_strcspn_L;    /* in: witness, s[L] == 0 */
size_t g_strcspn_Lr;   /* in: witness, reject[Lr] == 0 */
size_t g_strcspn_k;    /* in: ghost index into s */
size_t g_strcspn_j;    /* in: ghost index into reject */
size_t g_strcspn_rend; /* out: for s[g_strcspn_k] inside the segment: a NUL of reject before which it does not occur */
size_t g_strcspn_hit;  /* out: when the segment ends at a non-NUL byte: where that byte occurs in reject */
#define C08_STRCSPN_PRE(s, reject) (C08_IS_STR(s, g_strcspn_L) && C08_IS_STR(reject, g_strcspn_Lr))
/* r = length of the maximal initial segment of s made of characters not in reject:
 *   every byte before r is non-NUL and does not occur in reject before (some, hence the first) NUL of reject;
 *   the byte at r is the terminator of s, or occurs in reject before any NUL of reject */
#define C08_STRCSPN_POST(r, s, reject)                                                                \
    ((r) <= g_strcspn_L &&                                                                            \
     C08_IMP(g_strcspn_k < (r),                                                                       \
             ((const char *)(s))[g_strcspn_k] != 0 && g_strcspn_rend <= g_strcspn_Lr &&               \
             ((const char *)(reject))[g_strcspn_rend] == 0 &&                                         \
             C08_IMP(g_strcspn_j < g_strcspn_rend,                                                    \
                     ((const char *)(reject))[g_strcspn_j] != ((const char *)(s))[g_strcspn_k])) &&   \
     (((const char *)(s))[(r)] == 0 ||                                                                \
      (g_strcspn_hit <= g_strcspn_Lr &&                                                               \
       ((const char *)(reject))[g_strcspn_hit] == ((const char *)(s))[(r)] &&                         \
       C08_IMP(g_strcspn_j < g_strcspn_hit, ((const char *)(reject))[g_strcspn_j] != 0))))
size_t vc_strcspn(const char *s, const char *reject)
__CPROVER_requires(C08_STRCSPN_PRE(s, reject))
__CPROVER_assigns(g_strcspn_rend, g_strcspn_hit)
__CPROVER_ensures(C08_STRCSPN_POST(__CPROVER_return_value, s, reject));

/* ------------------------------------------------------------------ strcpy (ISO 7.24.2.3) */
size_t g_strcpy_L;   /* in: witness, src[L] == 0; dest has room for L+1 bytes */
size_t g_strcpy_k;   /* in: ghost index */
char g_strcpy_v;     /* in: old src[k] */
char g_strcpy_dv;    /* in: old dest[k] */
size_t g_strcpy_len; /* out: strlen(src) = index of the terminator that was copied */
#define C08_STRCPY_PRE(dest, src)                                                                     \
    (C08_IS_STR(src, g_strcpy_L) && __CPROVER_w_ok((dest), g_strcpy_L + 1) &&                         \
     C08_DISJOINT(dest, src, g_strcpy_L + 1) &&                                                       \
     C08_IMP(g_strcpy_k <= g_strcpy_L, g_strcpy_v == ((const char *)(src))[g_strcpy_k] &&             \
                                       g_strcpy_dv == ((const char *)(dest))[g_strcpy_k]))
/* the string src[0..len] including its terminator is copied, nothing else of dest[0..L] changes, src is intact */
#define C08_STRCPY_POST(r, dest, src)                                                                 \
    ((r) == (dest) && g_strcpy_len <= g_strcpy_L && ((const char *)(src))[g_strcpy_len] == 0 &&       \
     C08_IMP(g_strcpy_k < g_strcpy_len, g_strcpy_v != 0) &&                                           \
     C08_IMP(g_strcpy_k <= g_strcpy_len, ((const char *)(dest))[g_strcpy_k] == g_strcpy_v) &&         \
     C08_IMP(g_strcpy_len < g_strcpy_k && g_strcpy_k <= g_strcpy_L,                                   \
             ((const char *)(dest))[g_strcpy_k] == g_strcpy_dv) &&                                    \
     C08_IMP(g_strcpy_k <= g_strcpy_L, ((const char *)(src))[g_strcpy_k] == g_strcpy_v))
char *vc_strcpy(char *dest, const char *src)
__CPROVER_requires(C08_STRCPY_PRE(dest, src))
__CPROVER_assigns(__CPROVER_object_upto(dest, g_strcpy_L + 1), g_strcpy_len)
__CPROVER_ensures(C08_STRCPY_POST(__CPROVER_return_value, dest, src));

/* ------------------------------------------------------------------ strtok_r (POSIX) */
char *g_strtok_S;      /* in: the string actually scanned = str != NULL ? str : *saveptr */
size_t g_strtok_L;     /* in: witness, S[L] == 0 (when S != NULL) */
size_t g_strtok_Ld;    /* in: witness, delim[Ld] == 0 */
size_t g_strtok_k;     /* in: ghost index into S */
size_t g_strtok_j;     /* in: ghost index into delim */
char g_strtok_v;       /* in: old S[k] */
size_t g_strtok_t;     /* out: index of the first non-delimiter (token start), or of the terminator if there is none */
size_t g_strtok_e;     /* out: index of the first delimiter / terminator after the token */
size_t g_strtok_w;     /* out: witness index into delim classifying S[k] (see MEMBER / NONMEMBER) */
size_t g_strtok_next;  /* out: index of the saved pointer: *saveptr == S + next */
#ifndef KF_C08_strtok_r_saveptr
#define KF_C08_strtok_r_saveptr 0
#endif
/* c occurs in delim before its terminator / c does not occur in delim up to a NUL of delim */
#define C08_STRTOK_MEMBER(c, delim)                                                                   \
    (g_strtok_w <= g_strtok_Ld && ((const char *)(delim))[g_strtok_w] == (c) &&                       \
     C08_IMP(g_strtok_j < g_strtok_w, ((const char *)(delim))[g_strtok_j] != 0))
#define C08_STRTOK_NONMEMBER(c, delim)                                                                \
    (g_strtok_w <= g_strtok_Ld && ((const char *)(delim))[g_strtok_w] == 0 &&                         \
     C08_IMP(g_strtok_j < g_strtok_w, ((const char *)(delim))[g_strtok_j] != (c)))
#define C08_STRTOK_R_PRE(str, delim, saveptr)                                                         \
    (__CPROVER_rw_ok((saveptr), sizeof(char *)) && g_strtok_S == ((str) != NULL ? (str) : *(saveptr)) && \
     C08_IS_STR(delim, g_strtok_Ld) && !__CPROVER_same_object((delim), (saveptr)) &&                   \
     (g_strtok_S == NULL ||                                                                           \
      (g_strtok_L < C08_MAXLEN && __CPROVER_w_ok(g_strtok_S, g_strtok_L + 1) && g_strtok_S[g_strtok_L] == 0 && \
       !__CPROVER_same_object(g_strtok_S, (saveptr)) && !__CPROVER_same_object(g_strtok_S, (delim)) &&  \
       C08_IMP(g_strtok_k <= g_strtok_L, g_strtok_v == g_strtok_S[g_strtok_k]))))
/* part of the postcondition that does not mention *saveptr (also what strtok shows to its caller) */
#define C08_STRTOK_CORE_POST(r, delim)                                                                \
    (g_strtok_S == NULL ? (r) == NULL :                                                               \
     (g_strtok_t <= g_strtok_L && g_strtok_S[g_strtok_L] == 0 /* still a string */ &&                \
      /* leading delimiters are skipped */                                                            \
      C08_IMP(g_strtok_k < g_strtok_t, g_strtok_v != 0 && C08_STRTOK_MEMBER(g_strtok_v, delim)) &&    \
      ((r) == NULL                                                                                    \
           /* no token: the terminator was reached, the string is intact */                           \
           ? (C08_IMP(g_strtok_k == g_strtok_t, g_strtok_v == 0) &&                                   \
              C08_IMP(g_strtok_k <= g_strtok_L, g_strtok_S[g_strtok_k] == g_strtok_v))                \
           /* token S[t..e): non-delimiters, ended by a delimiter (overwritten with NUL) or the terminator */ \
           : ((r) == g_strtok_S + g_strtok_t && g_strtok_t < g_strtok_e && g_strtok_e <= g_strtok_L && \
              C08_IMP(g_strtok_t <= g_strtok_k && g_strtok_k < g_strtok_e,                            \
                      g_strtok_v != 0 && C08_STRTOK_NONMEMBER(g_strtok_v, delim)) &&                  \
              g_strtok_S[g_strtok_e] == 0 &&                                                          \
              C08_IMP(g_strtok_k == g_strtok_e, g_strtok_v == 0 || C08_STRTOK_MEMBER(g_strtok_v, delim)) && \
              C08_IMP(g_strtok_k <= g_strtok_L && g_strtok_k != g_strtok_e, g_strtok_S[g_strtok_k] == g_strtok_v)))))
/* the saved pointer: behind the overwritten delimiter, or at the terminator (then every later call returns NULL).
 * Known finding C08_strtok_r_saveptr: when NO token is found the shim leaves *saveptr untouched (glibc, musl,
 * BSD store the position of the terminator); clause (*) is asserted only when the finding is not carved. */
#define C08_STRTOK_SAVE_POST(r, saveptr)                                                              \
    (g_strtok_S == NULL ? 1 :                                                                         \
     (r) == NULL ? (KF_C08_strtok_r_saveptr == 1 || /* (*) */ (*(saveptr) == g_strtok_S + g_strtok_t && g_strtok_next == g_strtok_t)) \
                 : (*(saveptr) == g_strtok_S + g_strtok_next && g_strtok_next <= g_strtok_L &&        \
                    (g_strtok_next == g_strtok_e || g_strtok_next == g_strtok_e + 1) &&               \
                    C08_IMP(g_strtok_k == g_strtok_e, (g_strtok_v == 0) == (g_strtok_next == g_strtok_e))))
char *vc_strtok_r(char *str, const char *delim, char **saveptr)
__CPROVER_requires(C08_STRTOK_R_PRE(str, delim, saveptr))
__CPROVER_assigns(*saveptr, g_strtok_t, g_strtok_e, g_strtok_w, g_strtok_next)
__CPROVER_assigns(g_strtok_S != NULL: __CPROVER_object_upto(g_strtok_S, g_strtok_L + 1))
__CPROVER_ensures(C08_STRTOK_CORE_POST(__CPROVER_return_value, delim))
__CPROVER_ensures(C08_STRTOK_SAVE_POST(__CPROVER_return_value, saveptr));

/*C08_CONTRACTS_END*/
#endif
