/* C06: recording contracts of the static conversion routines of igris/util/printf_impl.c, used where __printf
 * itself is under scrutiny (argument fetch, directive parser, wrappers) and print_i / print_s / print_f are
 * replaced (--replace-call-with-contract).
 *
 * What the callers get:  the call is an EVENT in the output sequence of __printf.  Events are numbered by the
 * ghost counter g_ev (a literal character handed to the callback is an event too, see c06_event_recorder); the
 * event with number g_ksel (ghost index, arbitrary, fixed by the harness) is remembered with all its arguments.
 * The return value is an arbitrary count 0..C06_MAXRET and is added to g_sum, so that a harness can state
 * "__printf returns the sum of what the conversions returned plus the literal characters".
 *
 * What the callers owe (requires): the call-site facts the proofs of print_i / print_s assume (units print_i,
 * print_s): width >= 0, precision >= 0 and 0 when OPS_PREC_IS_GIVEN is clear, the (base, is_signed) pairs of
 * d/i u o x/X, or the %p form (precision 2*sizeof(void*)+2 with '#' and '0' forced).  They are therefore PROVED
 * about __printf by every unit that replaces the callee.
 *
 * print_s: proved by unit print_s for every array; print_i: unit print_i; print_f: not part of C06 (property
 * C13), its contract only records the call.
 *
 * Include AFTER c06_env.h and BEFORE igris/util/printf_impl.c (the contracts sit on forward declarations of the
 * static functions). */
#ifndef C06_PRINT_CONTRACTS_H
#define C06_PRINT_CONTRACTS_H

/* the OPS_* bits as defined in printf_impl.c (needed before that file is included; a mismatch is a redefinition
 * error at compile time because the values are compared there) */
#define C06_OPS_LEFT 0x01u
#define C06_OPS_SIGN 0x02u
#define C06_OPS_SPACE 0x04u
#define C06_OPS_SPEC 0x08u
#define C06_OPS_ZERO 0x10u
#define C06_OPS_PREC 0x20u
#define C06_OPS_UPPER 0x4000u
#define C06_OPS_FMT_MASK (C06_OPS_LEFT | C06_OPS_SIGN | C06_OPS_SPACE | C06_OPS_SPEC | C06_OPS_ZERO | C06_OPS_PREC | C06_OPS_UPPER)

#define C06_MAXRET (INT_MAX / 32) /* per-conversion count; at most 10 events per call in the units => no int overflow of the total (ISO: a total above INT_MAX cannot be reported) */

enum { C06_EV_NONE = 0, C06_EV_CHAR, C06_EV_INT, C06_EV_STR, C06_EV_FLT };

long long g_ev;   /* events so far */
long long g_ksel; /* ghost index: which event is remembered */
long long g_sum;  /* sum of the values returned by replaced conversions */
long long g_nlit; /* literal characters handed to the callback */
int g_e_kind;     /* the remembered event ... */
int g_e_c;        /* CHAR: the character */
unsigned long long g_e_u; /* INT: value */
int g_e_signed, g_e_base;
int g_e_width, g_e_prec;
unsigned g_e_ops;
const char *g_e_str; /* STR: the pointer and its first two bytes (second only if the first is not null) */
char g_e_s0, g_e_s1;
void (*g_e_h)(void *, int); /* callback and callback data passed on */
void *g_e_d;

/* the real callback of these units: a literal character (or '%' of %%) is one event */
static void c06_event_recorder(void *d, int c)
{
    (void)d;
    if (g_ev == g_ksel)
    {
        g_e_kind = C06_EV_CHAR;
        g_e_c = c;
    }
    g_ev++;
    g_nlit++;
}

extern int g_c06_p_minlen;               /* form of the %p call: precision, flag bits forced on / off; */
extern unsigned g_c06_p_set, g_c06_p_clr; /* defined by spec/c06_pform.h (included after printf_impl.c) */
#define C06_WP_PRE(width, prec, ops) ((width) >= 0 && (prec) >= 0 && (((ops) & C06_OPS_PREC) || (prec) == 0))
#define C06_PRINT_I_PRE(u, is_signed, width, min_len, ops, base)                                              \
    ((width) >= 0 &&                                                                                          \
     (((base) == 16 && (is_signed) == 0 && (min_len) == g_c06_p_minlen &&                       \
       ((ops) & g_c06_p_set) == g_c06_p_set && ((ops) & g_c06_p_clr) == 0 && (u) == (size_t)(u)) ||     \
      (C06_WP_PRE(width, min_len, ops) &&                                                                     \
       (((base) == 10 && ((is_signed) == 0 || (is_signed) == 1)) || (((base) == 8 || (base) == 16) && (is_signed) == 0)) && \
       (!((ops) & C06_OPS_UPPER) || ((base) == 16 && (is_signed) == 0)))))

/* first two bytes of the string (the second only when the first is not null); a unit whose %s arguments are not
 * real objects (parser) switches this off with -DC06_NO_STR_CONTENT */
#ifdef C06_NO_STR_CONTENT
#define C06_STR_CONTENT(str) 1
#else
#define C06_STR_CONTENT(str) (g_e_s0 == (str)[0] && ((str)[0] == 0 || g_e_s1 == (str)[1]))
#endif
#define C06_UNCHANGED                                                                                        \
    (g_e_kind == __CPROVER_old(g_e_kind) && g_e_c == __CPROVER_old(g_e_c) && g_e_u == __CPROVER_old(g_e_u) &&    \
     g_e_signed == __CPROVER_old(g_e_signed) && g_e_base == __CPROVER_old(g_e_base) &&                         \
     g_e_width == __CPROVER_old(g_e_width) && g_e_prec == __CPROVER_old(g_e_prec) &&                           \
     g_e_ops == __CPROVER_old(g_e_ops) && g_e_str == __CPROVER_old(g_e_str) && g_e_s0 == __CPROVER_old(g_e_s0) && \
     g_e_s1 == __CPROVER_old(g_e_s1) && g_e_h == __CPROVER_old(g_e_h) && g_e_d == __CPROVER_old(g_e_d))
#define C06_COUNTED                                                                                          \
    (g_ev == __CPROVER_old(g_ev) + 1 && __CPROVER_return_value >= 0 && __CPROVER_return_value <= C06_MAXRET && \
     g_sum == __CPROVER_old(g_sum) + __CPROVER_return_value)
#define C06_EV_ASSIGNS                                                                                       \
    g_ev, g_sum, g_e_kind, g_e_c, g_e_u, g_e_signed, g_e_base, g_e_width, g_e_prec, g_e_ops, g_e_str, g_e_s0, g_e_s1, g_e_h, g_e_d

static int print_i(void (*printchar_handler)(void *d, int c), void *printchar_data, unsigned long long int u,
                   int is_signed, int width, int min_len, unsigned int ops, int base)
__CPROVER_requires(C06_PRINT_I_PRE(u, is_signed, width, min_len, ops, base))
__CPROVER_assigns(C06_EV_ASSIGNS)
__CPROVER_ensures(C06_COUNTED)
__CPROVER_ensures(__CPROVER_old(g_ev) == g_ksel
                      ? (g_e_kind == C06_EV_INT && g_e_u == u && g_e_signed == is_signed && g_e_base == base &&
                         g_e_width == width && g_e_prec == min_len && g_e_ops == ops && g_e_h == printchar_handler &&
                         g_e_d == printchar_data && g_e_c == __CPROVER_old(g_e_c) && g_e_str == __CPROVER_old(g_e_str) &&
                         g_e_s0 == __CPROVER_old(g_e_s0) && g_e_s1 == __CPROVER_old(g_e_s1))
                      : C06_UNCHANGED);

static int print_s(void (*printchar_handler)(void *d, int c), void *printchar_data, const char *str, int width,
                   int max_len, unsigned int ops)
__CPROVER_requires(C06_WP_PRE(width, max_len, ops) && str != NULL)
__CPROVER_assigns(C06_EV_ASSIGNS)
__CPROVER_ensures(C06_COUNTED)
__CPROVER_ensures(__CPROVER_old(g_ev) == g_ksel
                      ? (g_e_kind == C06_EV_STR && g_e_str == str && C06_STR_CONTENT(str) &&
                         g_e_width == width && g_e_prec == max_len && g_e_ops == ops && g_e_h == printchar_handler &&
                         g_e_d == printchar_data && g_e_c == __CPROVER_old(g_e_c) && g_e_u == __CPROVER_old(g_e_u) &&
                         g_e_signed == __CPROVER_old(g_e_signed) && g_e_base == __CPROVER_old(g_e_base))
                      : C06_UNCHANGED);

static int print_f(void (*printchar_handler)(void *d, int c), void *printchar_data, long double r, int width,
                   int precision, unsigned int ops, int base, int with_exp, int is_shortened)
__CPROVER_assigns(C06_EV_ASSIGNS)
__CPROVER_ensures(C06_COUNTED)
__CPROVER_ensures(__CPROVER_old(g_ev) == g_ksel
                      ? (g_e_kind == C06_EV_FLT && g_e_width == width && g_e_prec == precision && g_e_ops == ops &&
                         g_e_base == base && g_e_h == printchar_handler && g_e_d == printchar_data &&
                         g_e_c == __CPROVER_old(g_e_c) && g_e_u == __CPROVER_old(g_e_u) && g_e_signed == __CPROVER_old(g_e_signed) &&
                         g_e_str == __CPROVER_old(g_e_str) && g_e_s0 == __CPROVER_old(g_e_s0) && g_e_s1 == __CPROVER_old(g_e_s1))
                      : C06_UNCHANGED);

/* reset of the event machinery, called by a harness before the call under scrutiny */
static inline void c06_events_reset(long long ksel)
{
    g_ev = 0, g_ksel = ksel, g_sum = 0, g_nlit = 0;
    g_e_kind = C06_EV_NONE, g_e_c = 0, g_e_u = 0, g_e_signed = -1, g_e_base = -1, g_e_width = -1, g_e_prec = -1;
    g_e_ops = 0, g_e_str = NULL, g_e_s0 = g_e_s1 = 0, g_e_h = NULL, g_e_d = NULL;
}
#endif
