/* Contract of the legacy gstuff receiver step (igris/protocols/gstuff_v1/autorecv.c).
 *
 * The clauses are the *reference automaton* of the legacy framing, written from the
 * protocol definition (marker M = 0xAC delimits frames on both sides, escape E = 0xAD,
 * E,0xAE -> M and E,0xAF -> E, CRC-8/0x31 with seed 0xFF over the unescaped bytes, frame
 * good iff the residue is 0) and from C05's statement (never more than cap-1 bytes stored,
 * a frame that does not fit is reported as overflow, not delivered).  The real function is
 * proved against them in units/C05/legacy_newchar_contract.c; C04 uses them in place of the
 * body when it co-simulates the encoder with the receiver.
 *
 * Ghost instantiation (DESIGN 3.3): g_rxv1_k is an arbitrary index into the line buffer,
 * g_rxv1_v the byte stored there before the call (tied by the precondition). */
#ifndef GSTUFF_V1_CONTRACTS_H
#define GSTUFF_V1_CONTRACTS_H
#include <igris/protocols/gstuff_v1/autorecv.h>
#include "crc8_spec.h"

size_t g_rxv1_k;
char g_rxv1_v;

/* representation invariant of a receiver that owns an exact-size buffer of `cap` bytes */
#define RXV1_INV(a) ((a)->line.cap >= 2 && (a)->line.cursor == (a)->line.len && \
                     (a)->line.len <= (a)->line.cap - 1 && (a)->state <= 2)

/* effective line length / crc at the start of the step: state 0 means "reset first" */
#define RXV1_S0(a) __CPROVER_old((a)->state)
#define RXV1_L0(a) (RXV1_S0(a) == 0 ? 0u : __CPROVER_old((a)->line.len))
#define RXV1_C0(a) (RXV1_S0(a) == 0 ? (uint8_t)0xFF : __CPROVER_old((a)->crc))
#define RXV1_CAP(a) __CPROVER_old((a)->line.cap)
#define RXV1_IS_DATA(a, c) (RXV1_S0(a) != 2 ? ((c) != GSTUFF_START_V1 && (c) != GSTUFF_STUB_V1) \
                                            : ((c) == GSTUFF_STUB_START_V1 || (c) == GSTUFF_STUB_STUB_V1))
#define RXV1_DATA(a, c) ((char)(RXV1_S0(a) != 2 ? (c) : ((c) == GSTUFF_STUB_START_V1 ? GSTUFF_START_V1 : GSTUFF_STUB_V1)))
#define RXV1_KEPT(a) ((g_rxv1_k < RXV1_L0(a)) ==> (a)->line.buf[g_rxv1_k] == g_rxv1_v)

int gstuff_autorecv_newchar_v1(struct gstuff_autorecv_v1 *autom, char c)
__CPROVER_requires(__CPROVER_is_fresh(autom, sizeof(*autom)))
__CPROVER_requires(__CPROVER_is_fresh(autom->line.buf, autom->line.cap))
__CPROVER_requires(RXV1_INV(autom))
__CPROVER_requires((g_rxv1_k < autom->line.len) ==> g_rxv1_v == autom->line.buf[g_rxv1_k])
__CPROVER_assigns(autom->state, autom->crc, autom->line.len, autom->line.cursor,
                  __CPROVER_object_whole(autom->line.buf))
/* representation invariant, buffer identity */
__CPROVER_ensures(RXV1_INV(autom) && autom->line.buf == __CPROVER_old(autom->line.buf) &&
                  autom->line.cap == RXV1_CAP(autom))
/* data byte (plain or unescaped) that fits: appended, crc advanced, CONTINUE */
__CPROVER_ensures((RXV1_IS_DATA(autom, c) && RXV1_L0(autom) < RXV1_CAP(autom) - 1) ==>
                  (__CPROVER_return_value == GSTUFF_CONTINUE_V1 && autom->state == 1 &&
                   autom->line.len == RXV1_L0(autom) + 1 &&
                   autom->crc == spec_crc8_step(RXV1_C0(autom), (uint8_t)RXV1_DATA(autom, c)) &&
                   autom->line.buf[RXV1_L0(autom)] == RXV1_DATA(autom, c) && RXV1_KEPT(autom)))
/* data byte that does not fit: overflow, receiver idle, nothing delivered */
__CPROVER_ensures((RXV1_IS_DATA(autom, c) && RXV1_L0(autom) >= RXV1_CAP(autom) - 1) ==>
                  (__CPROVER_return_value == GSTUFF_OVERFLOW_V1 && autom->state == 0))
/* escape byte: wait for the second byte */
__CPROVER_ensures((RXV1_S0(autom) != 2 && c == GSTUFF_STUB_V1) ==>
                  (__CPROVER_return_value == GSTUFF_CONTINUE_V1 && autom->state == 2 &&
                   autom->line.len == RXV1_L0(autom) && autom->crc == RXV1_C0(autom) && RXV1_KEPT(autom)))
/* marker with nothing collected: (repeated) start of frame */
__CPROVER_ensures((RXV1_S0(autom) != 2 && c == GSTUFF_START_V1 && RXV1_L0(autom) == 0) ==>
                  (__CPROVER_return_value == GSTUFF_CONTINUE_V1 && autom->state == 1 &&
                   autom->line.len == 0 && autom->crc == RXV1_C0(autom)))
/* marker after data: end of frame, good iff the CRC residue is 0 */
__CPROVER_ensures((RXV1_S0(autom) != 2 && c == GSTUFF_START_V1 && RXV1_L0(autom) > 0 && RXV1_C0(autom) != 0) ==>
                  (__CPROVER_return_value == GSTUFF_CRC_ERROR_V1 && autom->state == 0))
__CPROVER_ensures((RXV1_S0(autom) != 2 && c == GSTUFF_START_V1 && RXV1_L0(autom) > 0 && RXV1_C0(autom) == 0) ==>
                  (__CPROVER_return_value == GSTUFF_NEWPACKAGE_V1 && autom->state == 0 &&
                   autom->line.len == RXV1_L0(autom) && RXV1_KEPT(autom)))
/* invalid escape sequence */
__CPROVER_ensures((RXV1_S0(autom) == 2 && !RXV1_IS_DATA(autom, c)) ==>
                  (__CPROVER_return_value == GSTUFF_DATA_ERROR_V1 && autom->state == 0));

#endif
