/* C14: contracts of the host-libc functions the fixed-capacity containers call (memset in the default constructor of
 * static_vector, strlen + memcpy in static_string(const char*)), for --replace-call-with-contract.  Transcriptions of
 * ISO C 7.24.6.1 / 7.24.6.3 / 7.24.2.1; the same clauses are proved for the bundled shim compat/libc/string by the C08
 * units, on a hosted build the callee is the host libc (trusted).  No forall (DESIGN 3.3): "for all i" is stated about
 * one arbitrary ghost index which the caller's harness fixes before the call.  Native replay uses the host functions. */
#ifndef C14_LIBC_H
#define C14_LIBC_H
#include <stddef.h>
#include <string.h>
#define C14_UC(p, i) (((const unsigned char *)(p))[(i)])
#define C14_CH(p, i) (((const char *)(p))[(i)])

/* ------------------------------------------------------------------ memset (ISO 7.24.6.1) */
size_t g_memset_k; /* in: ghost index */
void *memset(void *s, int c, size_t n)
__CPROVER_requires(n == 0 || __CPROVER_w_ok(s, n))
__CPROVER_assigns(n != 0: __CPROVER_object_upto(s, n))
__CPROVER_ensures(__CPROVER_return_value == s)
__CPROVER_ensures(g_memset_k < n ==> C14_UC(s, g_memset_k) == (unsigned char)c);

/* ------------------------------------------------------------------ strlen (ISO 7.24.6.3)
 * The caller names the length: g_strlen_L with s[L] == 0 and no NUL before L.  "No NUL before L" is universally
 * quantified, so it is a precondition stated at the ghost index g_strlen_k: a caller only verifies if it holds at
 * every value of the index its harness leaves free, i.e. if the claim is true; then the result is L. */
size_t g_strlen_L; /* in: the length of s */
size_t g_strlen_k; /* in: ghost index of the claim "no NUL before L" */
size_t strlen(const char *s)
__CPROVER_requires(g_strlen_L < ((size_t)1 << 40) && __CPROVER_r_ok(s, g_strlen_L + 1) && s[g_strlen_L] == 0 &&
                   (g_strlen_k < g_strlen_L ==> s[g_strlen_k] != 0))
__CPROVER_assigns()
__CPROVER_ensures(__CPROVER_return_value == g_strlen_L);

/* ------------------------------------------------------------------ memcpy (ISO 7.24.2.1)
 * n bytes of dst must be writable, n bytes of src readable, no overlap; g_memcpy_v: the caller's record of src[g_memcpy_k]. */
size_t g_memcpy_k; /* in: ghost index */
void *memcpy(void *dst, const void *src, size_t n)
__CPROVER_requires(n == 0 || (__CPROVER_w_ok(dst, n) && __CPROVER_r_ok(src, n)))
__CPROVER_requires(n == 0 || !__CPROVER_same_object(dst, src))
__CPROVER_assigns(n != 0: __CPROVER_object_upto(dst, n))
__CPROVER_ensures(__CPROVER_return_value == dst)
__CPROVER_ensures(g_memcpy_k < n ==> C14_UC(dst, g_memcpy_k) == C14_UC(src, g_memcpy_k));
#endif
