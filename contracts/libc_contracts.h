/* Contracts of the host-libc functions igris code calls, for --replace-call-with-contract.
 * They are transcriptions of ISO C 7.24; the very same clauses are *proved* for the bundled
 * shim (compat/libc/string) by the C08 units.  Each contract speaks about one arbitrary
 * byte through a ghost index g_<fn>_k (DESIGN 3.3): the caller's harness fixes that index
 * as a function of its own ghost index before the call, which is sound because the contract
 * holds for every value of the index.  `__CPROVER_old` cannot wrap a conditional
 * expression ("tracking history of if expressions is not supported"), so the old source
 * byte is passed in a second ghost g_<fn>_v which the precondition ties to src[g_<fn>_k]. */
#ifndef LIBC_CONTRACTS_H
#define LIBC_CONTRACTS_H
#include <stddef.h>

size_t g_memmove_k;
char g_memmove_v;
void *memmove(void *dst, const void *src, size_t n)
__CPROVER_requires(n == 0 || (__CPROVER_r_ok(src, n) && __CPROVER_w_ok(dst, n)))
__CPROVER_requires(g_memmove_k < n ==> g_memmove_v == ((const char *)src)[g_memmove_k])
__CPROVER_assigns(n != 0: __CPROVER_object_upto(dst, n))
__CPROVER_ensures(__CPROVER_return_value == dst)
__CPROVER_ensures(g_memmove_k < n ==> ((const char *)dst)[g_memmove_k] == g_memmove_v);

size_t g_memcpy_k;
char g_memcpy_v;
void *memcpy(void *dst, const void *src, size_t n)
__CPROVER_requires(n == 0 || (__CPROVER_r_ok(src, n) && __CPROVER_w_ok(dst, n)))
/* ISO: the objects shall not overlap */
__CPROVER_requires(n == 0 || !__CPROVER_same_object(dst, src) ||
                   __CPROVER_POINTER_OFFSET(dst) + (__CPROVER_ssize_t)n <= __CPROVER_POINTER_OFFSET(src) ||
                   __CPROVER_POINTER_OFFSET(src) + (__CPROVER_ssize_t)n <= __CPROVER_POINTER_OFFSET(dst))
__CPROVER_requires(g_memcpy_k < n ==> g_memcpy_v == ((const char *)src)[g_memcpy_k])
__CPROVER_assigns(n != 0: __CPROVER_object_upto(dst, n))
__CPROVER_ensures(__CPROVER_return_value == dst)
__CPROVER_ensures(g_memcpy_k < n ==> ((const char *)dst)[g_memcpy_k] == g_memcpy_v);

#endif
