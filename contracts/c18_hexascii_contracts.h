/* C18: contracts of hexascii_encode / hexascii_decode (igris/util/hexascii.c), written from the definition of
 * hexadecimal notation (spec/c18_hex_ref.h).  One clause text, two uses (same scheme as contracts/c08_string.h):
 *   - units hexascii_encode / hexascii_decode build the most general state satisfying PRE, call the real code
 *     (loop contracts injected) and assert POST;
 *   - the function contracts below use the very same macros and are what the round-trip lemma
 *     (unit hexascii_roundtrip) gets under --replace-call-with-contract.
 * "For all bytes" is stated about one arbitrary ghost BYTE index g_hexenc_j / g_hexdec_j: byte j of the binary
 * side corresponds to characters 2j and 2j+1 of the text side. */
#ifndef C18_HEXASCII_CONTRACTS_H
#define C18_HEXASCII_CONTRACTS_H
#include <stddef.h>
#include <stdint.h>
#include "c18_hex_ref.h"

#define C18_IMP(a, b) (!(a) || (b))
#define C18_U8(p) ((const uint8_t *)(p))

/* size is a byte count; the two blocks are distinct objects */
#define C18_HEXENC_PRE(in, size, out)                                                                           \
    ((size) >= 0 && ((size) == 0 || (__CPROVER_r_ok((in), (size_t)(size)) && __CPROVER_w_ok((out), 2 * (size_t)(size)) && \
                                     !__CPROVER_same_object((in), (out)))))
/* text characters 2j, 2j+1 are the upper-case hex digits of the high / low nibble of byte j */
#define C18_HEXENC_AT(in, out, j)                                                                               \
    (C18_U8(out)[2 * (j)] == (uint8_t)SPEC_HEX_ALPHABET[(C18_U8(in)[(j)] >> 4) & 0xF] &&                        \
     C18_U8(out)[2 * (j) + 1] == (uint8_t)SPEC_HEX_ALPHABET[C18_U8(in)[(j)] & 0xF])
#define C18_HEXENC_POST(in, size, out) C18_IMP(g_hexenc_j < (size_t)(size), C18_HEXENC_AT(in, out, g_hexenc_j))

size_t g_hexenc_j; /* in: arbitrary byte index */
void hexascii_encode(const void *indata, int size, void *out)
__CPROVER_requires(C18_HEXENC_PRE(indata, size, out))
__CPROVER_assigns(size != 0: __CPROVER_object_upto(out, 2 * (size_t)size))
__CPROVER_ensures(C18_HEXENC_POST(indata, size, out));

/* any int size: size <= 1 decodes nothing; an odd size ignores the last character */
#define C18_HEXDEC_NBYTES(size) ((size) <= 0 ? (size_t)0 : (size_t)(size) / 2)
#define C18_HEXDEC_PRE(in, size, out)                                                                           \
    (C18_HEXDEC_NBYTES(size) == 0 || (__CPROVER_r_ok((in), 2 * C18_HEXDEC_NBYTES(size)) &&                     \
                                      __CPROVER_w_ok((out), C18_HEXDEC_NBYTES(size)) && !__CPROVER_same_object((in), (out))))
/* byte j is 16*value(text[2j]) + value(text[2j+1]) whenever both characters belong to the alphabet 0-9A-F */
#define C18_HEXDEC_AT(in, out, j)                                                                               \
    C18_IMP(SPEC_IS_HEXUP(C18_U8(in)[2 * (j)]) && SPEC_IS_HEXUP(C18_U8(in)[2 * (j) + 1]),                      \
            C18_U8(out)[(j)] == 16 * SPEC_HEXVAL(C18_U8(in)[2 * (j)]) + SPEC_HEXVAL(C18_U8(in)[2 * (j) + 1]))
#define C18_HEXDEC_POST(in, size, out) C18_IMP(g_hexdec_j < C18_HEXDEC_NBYTES(size), C18_HEXDEC_AT(in, out, g_hexdec_j))

size_t g_hexdec_j; /* in: arbitrary byte index */
void hexascii_decode(const void *indata, int size, void *out)
__CPROVER_requires(C18_HEXDEC_PRE(indata, size, out))
__CPROVER_assigns(size >= 2: __CPROVER_object_upto(out, (size_t)size / 2))
__CPROVER_ensures(C18_HEXDEC_POST(indata, size, out));

#endif
