/* Contract of ring_fixup_index (igris/datastruct/ring.h), the index wrap that igris::ring::last()/get_last()
 * rely on.  Proved for the real function, for every size and every index of the stated range, in
 * units/C03/ring_fixup_index_contract.c; used in place of the body (which contains a % by the symbolic size)
 * by units/C03/cxx_ring_get_last.c.  The postcondition is the mathematical index mod size written without a divider. */
#ifndef C03_RING_CONTRACTS_H
#define C03_RING_CONTRACTS_H
#include <limits.h>
struct ring_head;
#include <igris/datastruct/ring.h>

static inline int ring_fixup_index(struct ring_head *r, int index)
__CPROVER_requires(__CPROVER_is_fresh(r, sizeof(*r)))
__CPROVER_requires(r->size >= 2 && r->size <= (unsigned)INT_MAX)
__CPROVER_requires((long long)index >= -(long long)r->size && (long long)index < 2 * (long long)r->size)
__CPROVER_assigns()
__CPROVER_ensures(__CPROVER_return_value ==
                  (index < 0 ? index + (int)r->size : index >= (int)r->size ? index - (int)r->size : index))
;
#endif
