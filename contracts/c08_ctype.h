/* The shim's <ctype.h> (compat/libc/include/ctype.h: tolower -> igris_tolower of igris/util/ctype.h) for the
 * units of strcasecmp / strncasecmp / strcasestr.  The shim's include directory cannot be put on the include
 * path as a whole (its stdint.h / stdlib.h do not compile on the host), so the host <ctype.h> is read first
 * (its include guard turns the source's own #include <ctype.h> into a no-op), its names are moved out of the
 * way and the REAL shim header is included by path. */
#ifndef C08_CTYPE_H
#define C08_CTYPE_H
#include <ctype.h>
#undef isalnum
#undef isalpha
#undef isblank
#undef isdigit
#undef islower
#undef isprint
#undef isspace
#undef isupper
#undef isxdigit
#undef tolower
#undef toupper
#undef isascii
#undef toascii
#define isalnum vc_isalnum
#define isalpha vc_isalpha
#define isblank vc_isblank
#define isdigit vc_isdigit
#define islower vc_islower
#define isprint vc_isprint
#define isspace vc_isspace
#define isupper vc_isupper
#define isxdigit vc_isxdigit
#define tolower vc_tolower
#define toupper vc_toupper
#include "compat/libc/include/ctype.h"

/* POSIX-locale case mapping, transcribed from ISO C 7.4.2 (only 'A'..'Z' / 'a'..'z' have a counterpart) */
#define SPEC_TOLOWER(c) (((c) >= 'A' && (c) <= 'Z') ? (c) + ('a' - 'A') : (c))
#define SPEC_TOUPPER(c) (((c) >= 'a' && (c) <= 'z') ? (c) - ('a' - 'A') : (c))
#endif
