/* C12: contract of debug_printdec_uint64 (igris/dprint/dprint_func_impl.c) in terms of the observing acceptor
 * of spec/c12_dprint.h: the function emits the decimal digits of x and nothing else -- exactly C12_NDIG64(x) of
 * them (one '0' for 0) -- so the acceptor moves to / stays in the digit state of the side of the point it is on
 * and the digit counter of that side grows by C12_NDIG64(x).  Proved by units/C12/dprint_uint64.c (the digit loop
 * unwound completely), used by units/C12/dprint_double.c in place of the two calls (integer part, rounded
 * fraction): the two 64-bit division chains stay out of the floating-point proof. */
#ifndef C12_DPRINT_CONTRACTS_H
#define C12_DPRINT_CONTRACTS_H
#include "c12_dprint.h"

void debug_printdec_uint64(uint64_t x)
__CPROVER_assigns(g_st, g_on, g_id, g_fd, __CPROVER_object_whole(g_first))
__CPROVER_ensures((__CPROVER_old(g_st) == C12_S_START || __CPROVER_old(g_st) == C12_S_SIGN || __CPROVER_old(g_st) == C12_S_INT)
                  ==> (g_st == C12_S_INT && g_id == __CPROVER_old(g_id) + C12_NDIG64(x) && g_fd == __CPROVER_old(g_fd)))
__CPROVER_ensures((__CPROVER_old(g_st) == C12_S_DOT || __CPROVER_old(g_st) == C12_S_FRAC)
                  ==> (g_st == C12_S_FRAC && g_fd == __CPROVER_old(g_fd) + C12_NDIG64(x) && g_id == __CPROVER_old(g_id)))
__CPROVER_ensures(__CPROVER_old(g_st) == C12_S_BAD ==> g_st == C12_S_BAD)
__CPROVER_ensures(g_on >= __CPROVER_old(g_on));
#endif
