/* C19: contract of argvc_internal_split as the shell dispatchers see it (a consequence of what the unit argvc_split proves for the
 * real code; that unit asserts C19_SPLIT_POST next to its own clauses), plus the ghost interface of the dispatcher units. */
#ifndef C19_SHELL_CONTRACTS_H
#define C19_SHELL_CONTRACTS_H
#include "c19_harness.h"
#include "c19_libc.h"

size_t g_sp_k;   /* in: ghost argv index */
char *g_sp_vk;   /* out: the value stored in argv[g_sp_k] */
int g_sp_ret;    /* out: the result */
int g_sp_calls;  /* out: number of calls */

/* 0 <= argc <= argcmax; data is still a string; every argv[k], k < argc, points into data (hence at a string);
 * the instance k = 0 is spelled out: it is the one the dispatchers themselves use */
/* v points at a byte of the object of data (which ends at a NUL, so v points at a string) */
#ifdef C19_SPLIT_PROVER
/* the proving unit (argvc_split, harness form) checks the plain predicate */
#define C19_INTO(v, data) (__CPROVER_same_object((v), (data)) && (size_t)__CPROVER_POINTER_OFFSET(v) < __CPROVER_OBJECT_SIZE(data))
#else
/* callers (dfcc, contract replaced: the clause is ASSUMED): a havocked pointer only becomes a usable pointer into an existing object
 * through the dfcc pointer predicate, which assigns it (cbmc resolves dereferences by value sets, not by assumptions) */
#define C19_INTO(v, data)                                                                                   \
    __CPROVER_pointer_in_range_dfcc((data), (v), (data) + (__CPROVER_OBJECT_SIZE(data) - 1 - (size_t)__CPROVER_POINTER_OFFSET(data)))
#endif
#define C19_SPLIT_POST(r, data, argv, argcmax)                                                              \
    ((r) >= 0 && ((r) == 0 || (r) <= (argcmax)) && C19_CSTR(data) &&                                        \
     C19_IMP((r) > 0, C19_INTO((argv)[0], (data))) &&                   \
     C19_IMP((r) > 0 && g_sp_k < (size_t)(r),                                                               \
             C19_INTO(g_sp_vk, (data)) && (argv)[g_sp_k] == g_sp_vk))
#ifndef REPLAY
static inline int argvc_internal_split(char *data, char **argv, int argcmax)
__CPROVER_requires(C19_CSTR(data) && __CPROVER_w_ok(data, __CPROVER_OBJECT_SIZE(data) - (size_t)__CPROVER_POINTER_OFFSET(data)))
__CPROVER_requires(argcmax >= 0 && argcmax <= 1000000 && __CPROVER_w_ok(argv, (size_t)argcmax * sizeof(char *)))
__CPROVER_assigns(__CPROVER_object_from(data), __CPROVER_object_upto(argv, (size_t)argcmax * sizeof(char *)), g_sp_vk, g_sp_ret, g_sp_calls)
__CPROVER_ensures(C19_SPLIT_POST(__CPROVER_return_value, data, argv, argcmax))
__CPROVER_ensures(g_sp_ret == __CPROVER_return_value && g_sp_calls == __CPROVER_old(g_sp_calls) + 1);
#endif

#endif
