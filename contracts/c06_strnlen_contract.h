/* C06: function contract of the shim's strnlen (compat/libc/string/strnlen.c), for callers that reach it once
 * proposed_fixes/C06_s_prec_strlen.patch is applied (print_s then bounds its scan by the precision).
 * The clauses are the ones unit units/C08/strnlen.c proves about the real code in harness form (POSIX strnlen:
 * min(strlen, maxlen), never examines more than maxlen bytes nor a byte after the first null character), written
 * with the ghost conventions of contracts/c08_string.h:
 *   g_strnlen_L  in: witness of the terminator (str[L] == 0), or any value >= maxlen when the array of maxlen
 *                    bytes need not be terminated;
 *   g_strnlen_k  in: ghost index of "no null character before the result".
 * Include after c08_string.h (which renames strnlen to vc_strnlen). */
#ifndef C06_STRNLEN_CONTRACT_H
#define C06_STRNLEN_CONTRACT_H
size_t g_strnlen_L;
size_t g_strnlen_k;
size_t vc_strnlen(const char *str, size_t maxlen)
__CPROVER_requires(g_strnlen_L < maxlen ? (g_strnlen_L < C08_MAXLEN && __CPROVER_r_ok(str, g_strnlen_L + 1) && str[g_strnlen_L] == 0)
                                        : (maxlen <= C08_MAXLEN && __CPROVER_r_ok(str, maxlen)))
__CPROVER_assigns()
__CPROVER_ensures(__CPROVER_return_value <= maxlen && C08_IMP(g_strnlen_L < maxlen, __CPROVER_return_value <= g_strnlen_L) &&
                  C08_IMP(__CPROVER_return_value < maxlen, str[__CPROVER_return_value] == 0) &&
                  C08_IMP(g_strnlen_k < __CPROVER_return_value, str[g_strnlen_k] != 0));
#endif
