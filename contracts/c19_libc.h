/* C19: contracts of the libc functions the text / path / shell utilities call, for
 * --replace-call-with-contract.  Transcriptions of ISO C 7.24 (the same clauses the C08 units prove
 * for the bundled shim compat/libc/string).  On a hosted build the callee is the host libc: trusted.
 *
 * No forall/exists is available (DESIGN 3.3):
 *   "for all i"  is stated about one arbitrary ghost index g_<fn>_k fixed by the caller's harness;
 *   "exists i"   in a postcondition is a ghost output.  Callers inside a loop need the witness of ONE
 *                particular call (the iteration that looks at the harness's ghost position), so the
 *                output is written only by the call whose first argument equals g_<fn>_watch
 *                (conditional assigns clause); every other call leaves it alone.
 * Native replay (REPLAY) uses the host functions themselves.
 */
#ifndef C19_LIBC_H
#define C19_LIBC_H
#include <stddef.h>
#include <string.h>

#define C19_IMP(a, b) (!(a) || (b))
#define C19_UC(p, i) (((const unsigned char *)(p))[(i)])

/* ------------------------------------------------------------------ memchr (ISO 7.24.5.1) */
size_t g_memchr_k; /* in: ghost index */
void *memchr(const void *s, int c, size_t n)
__CPROVER_requires(n == 0 || __CPROVER_r_ok(s, n))
__CPROVER_assigns()
__CPROVER_ensures(__CPROVER_return_value == NULL
    ? C19_IMP(g_memchr_k < n, C19_UC(s, g_memchr_k) != (unsigned char)c)
    : (__CPROVER_same_object(__CPROVER_return_value, s) &&
       __CPROVER_POINTER_OFFSET(__CPROVER_return_value) >= __CPROVER_POINTER_OFFSET(s) &&
       (size_t)(__CPROVER_POINTER_OFFSET(__CPROVER_return_value) - __CPROVER_POINTER_OFFSET(s)) < n &&
       *(const unsigned char *)__CPROVER_return_value == (unsigned char)c &&
       C19_IMP(g_memchr_k < (size_t)(__CPROVER_POINTER_OFFSET(__CPROVER_return_value) - __CPROVER_POINTER_OFFSET(s)),
               C19_UC(s, g_memchr_k) != (unsigned char)c)));

/* ------------------------------------------------------------------ memcmp (ISO 7.24.4.1) */
size_t g_memcmp_k;        /* in: ghost index */
const void *g_memcmp_watch; /* in: the call whose first differing index is wanted */
size_t g_memcmp_d;        /* out (watched call only): index of the first differing pair when the result is not 0 */
int memcmp(const void *a, const void *b, size_t n)
__CPROVER_requires(n == 0 || (__CPROVER_r_ok(a, n) && __CPROVER_r_ok(b, n)))
__CPROVER_assigns(a == g_memcmp_watch: g_memcmp_d)
__CPROVER_ensures(__CPROVER_return_value == 0 ==> C19_IMP(g_memcmp_k < n, C19_UC(a, g_memcmp_k) == C19_UC(b, g_memcmp_k)))
__CPROVER_ensures((__CPROVER_return_value != 0 && a == g_memcmp_watch) ==>
    (g_memcmp_d < n && C19_UC(a, g_memcmp_d) != C19_UC(b, g_memcmp_d) &&
     (__CPROVER_return_value < 0) == (C19_UC(a, g_memcmp_d) < C19_UC(b, g_memcmp_d)) &&
     C19_IMP(g_memcmp_k < g_memcmp_d, C19_UC(a, g_memcmp_k) == C19_UC(b, g_memcmp_k))));

/* ------------------------------------------------------------------ strlen (ISO 7.24.6.3) */
size_t g_strlen_L; /* in: witness of "s is a string": s[0..L] readable and s[L] == 0 (earlier NULs allowed) */
size_t g_strlen_k; /* in: ghost index */
size_t strlen(const char *s)
__CPROVER_requires(g_strlen_L < ((size_t)1 << 40) && __CPROVER_r_ok(s, g_strlen_L + 1) && s[g_strlen_L] == 0)
__CPROVER_assigns()
__CPROVER_ensures(__CPROVER_return_value <= g_strlen_L && s[__CPROVER_return_value] == 0 &&
                  C19_IMP(g_strlen_k < __CPROVER_return_value, s[g_strlen_k] != 0));

#endif
