/* C19: contracts of the libc functions the text / path / shell utilities call, for
 * --replace-call-with-contract.  Transcriptions of ISO C 7.24 (the same clauses the C08 units prove
 * for the bundled shim compat/libc/string).  On a hosted build the callee is the host libc: trusted.
 *
 * No forall/exists is available (DESIGN 3.3):
 *   "for all i"  is stated about one arbitrary ghost index g_<fn>_k fixed by the caller's harness;
 *   "exists i"   in a postcondition is a ghost output.  Callers inside a loop need the witness of ONE
 *                particular call (the iteration that looks at the harness's ghost position), so the
 *                output is written only by the call whose first argument equals g_<fn>_watch
 *                (conditional assigns clause); every other call leaves it alone.
 * Native replay (REPLAY) uses the host functions themselves.
 */
#ifndef C19_LIBC_H
#define C19_LIBC_H
#include <stddef.h>
#include <string.h>

#define C19_IMP(a, b) (!(a) || (b))
#define C19_UC(p, i) (((const unsigned char *)(p))[(i)])

/* ------------------------------------------------------------------ memchr (ISO 7.24.5.1) */
size_t g_memchr_k; /* in: ghost index */
void *memchr(const void *s, int c, size_t n)
__CPROVER_requires(n == 0 || __CPROVER_r_ok(s, n))
__CPROVER_assigns()
__CPROVER_ensures(__CPROVER_return_value == NULL
    ? C19_IMP(g_memchr_k < n, C19_UC(s, g_memchr_k) != (unsigned char)c)
    : (__CPROVER_same_object(__CPROVER_return_value, s) &&
       __CPROVER_POINTER_OFFSET(__CPROVER_return_value) >= __CPROVER_POINTER_OFFSET(s) &&
       (size_t)(__CPROVER_POINTER_OFFSET(__CPROVER_return_value) - __CPROVER_POINTER_OFFSET(s)) < n &&
       *(const unsigned char *)__CPROVER_return_value == (unsigned char)c &&
       C19_IMP(g_memchr_k < (size_t)(__CPROVER_POINTER_OFFSET(__CPROVER_return_value) - __CPROVER_POINTER_OFFSET(s)),
               C19_UC(s, g_memchr_k) != (unsigned char)c)));

/* ------------------------------------------------------------------ memcmp (ISO 7.24.4.1) */
size_t g_memcmp_k;        /* in: ghost index */
const void *g_memcmp_watch; /* in: the call whose first differing index is wanted */
size_t g_memcmp_d;        /* out (watched call only): index of the first differing pair when the result is not 0 */
int memcmp(const void *a, const void *b, size_t n)
__CPROVER_requires(n == 0 || (__CPROVER_r_ok(a, n) && __CPROVER_r_ok(b, n)))
__CPROVER_assigns(a == g_memcmp_watch: g_memcmp_d)
__CPROVER_ensures(__CPROVER_return_value == 0 ==> C19_IMP(g_memcmp_k < n, C19_UC(a, g_memcmp_k) == C19_UC(b, g_memcmp_k)))
__CPROVER_ensures((__CPROVER_return_value != 0 && a == g_memcmp_watch) ==>
    (g_memcmp_d < n && C19_UC(a, g_memcmp_d) != C19_UC(b, g_memcmp_d) &&
     (__CPROVER_return_value < 0) == (C19_UC(a, g_memcmp_d) < C19_UC(b, g_memcmp_d)) &&
     C19_IMP(g_memcmp_k < g_memcmp_d, C19_UC(a, g_memcmp_k) == C19_UC(b, g_memcmp_k))));

/* "p is a string", stated for the harness's strings: the object p points into ends at a NUL (earlier NULs allowed) */
#define C19_CSTR(p)                                                                                         \
    ((p) != NULL && __CPROVER_OBJECT_SIZE(p) >= 1 &&                                                        \
     (size_t)__CPROVER_POINTER_OFFSET(p) < __CPROVER_OBJECT_SIZE(p) &&                                      \
     __CPROVER_r_ok((p), __CPROVER_OBJECT_SIZE(p) - (size_t)__CPROVER_POINTER_OFFSET(p)) &&                  \
     ((const char *)(p))[__CPROVER_OBJECT_SIZE(p) - 1 - (size_t)__CPROVER_POINTER_OFFSET(p)] == 0)
/* ------------------------------------------------------------------ strlen (ISO 7.24.6.3) */
size_t g_strlen_k;        /* in: ghost index */
const char *g_strlen_ps;  /* state: argument of the previous call */
size_t g_strlen_pr;       /* state: its result */
/* A contract is a relation, not a function: two calls on the same string may be given different results that both satisfy it
 * (the ghost-index clause constrains one index only).  __MIN__(strlen(s), x) evaluates strlen(s) twice, so the contract also says
 * that a call with the same argument as the previous call returns the same value; this is sound for callers that do not write the
 * string between the two calls (rshell_help writes only the answer buffer; stated in the unit). */
size_t strlen(const char *s)
__CPROVER_requires(C19_CSTR(s))
__CPROVER_assigns(g_strlen_ps, g_strlen_pr)
__CPROVER_ensures(__CPROVER_return_value <= __CPROVER_OBJECT_SIZE(s) - 1 - (size_t)__CPROVER_POINTER_OFFSET(s) && s[__CPROVER_return_value] == 0 &&
                  C19_IMP(g_strlen_k < __CPROVER_return_value, s[g_strlen_k] != 0))
__CPROVER_ensures(__CPROVER_old(g_strlen_ps) == s ==> __CPROVER_return_value == __CPROVER_old(g_strlen_pr))
__CPROVER_ensures(g_strlen_ps == s && g_strlen_pr == __CPROVER_return_value);

/* ------------------------------------------------------------------ strcmp (ISO 7.24.4.2), as the shell dispatchers use it
 * The dispatchers only test the result against 0 ("the first token names this command"), so string equality stays an abstract
 * relation here: the contract fixes which calls are legal (both arguments are strings) and lets the harness observe the result of
 * ONE call, the one whose second argument is g_strcmp_watch (the name of the ghost table entry).  */
const char *g_strcmp_watch; /* in */
int g_strcmp_res;           /* out (watched call): the result */
int g_strcmp_seen;          /* out (watched call): 1 */
int g_strcmp_calls;         /* out: number of calls */
#ifndef REPLAY
int strcmp(const char *a, const char *b)
__CPROVER_requires(C19_CSTR(a) && C19_CSTR(b))
__CPROVER_assigns(g_strcmp_calls; b == g_strcmp_watch: g_strcmp_res, g_strcmp_seen)
__CPROVER_ensures(g_strcmp_calls == __CPROVER_old(g_strcmp_calls) + 1)
__CPROVER_ensures(b == g_strcmp_watch ==> (g_strcmp_res == __CPROVER_return_value && g_strcmp_seen == 1))
__CPROVER_ensures(__CPROVER_return_value == 0 ==> a[0] == b[0]);
#endif

/* ------------------------------------------------------------------ igris_memmem (igris/string/memmem.c), for its callers
 * The clause C19_MEMMEM_POST is what the unit memmem PROVES for the real code (it asserts this macro) and what replace_substrings /
 * igris::replace get through --replace-call-with-contract.
 *   result: NULL, or a position of l[0 .. l_len - s_len] at which s occurs (byte j: ghost index g_mm_j);
 *   first occurrence: for the ghost position g_mm_watch (an absolute pointer into l): when it lies in front of the result (anywhere in
 *   l[0 .. l_len - s_len] for NULL) the needle does NOT occur there: a differing byte is exhibited (index g_mm_d, ghost output);
 *   s_len == 0 or l_len < s_len: NULL. */
size_t g_mm_j;           /* in: ghost index into the needle */
const char *g_mm_watch;  /* in: ghost position in the haystack */
size_t g_mm_d;           /* out: index of a differing byte at the watched position */
#define C19_MM_OFF(p) ((size_t)__CPROVER_POINTER_OFFSET(p))
#define C19_MEMMEM_POST(r, l, ll, s, sl)                                                                    \
    (((sl) == 0 || (ll) < (sl))                                                                             \
         ? (r) == NULL                                                                                      \
         : (((r) == NULL || (__CPROVER_same_object((r), (l)) && C19_MM_OFF(r) >= C19_MM_OFF(l) &&           \
                             C19_MM_OFF(r) - C19_MM_OFF(l) <= (ll) - (sl) &&                                \
                             C19_IMP(g_mm_j < (sl), ((const char *)(r))[g_mm_j] == ((const char *)(s))[g_mm_j]))) && \
            C19_IMP(g_mm_watch != NULL && __CPROVER_same_object(g_mm_watch, (l)) && C19_MM_OFF(g_mm_watch) >= C19_MM_OFF(l) && \
                        C19_MM_OFF(g_mm_watch) - C19_MM_OFF(l) <= (ll) - (sl) &&                            \
                        ((r) == NULL || C19_MM_OFF(g_mm_watch) < C19_MM_OFF(r)),                            \
                    g_mm_d < (sl) && g_mm_watch[g_mm_d] != ((const char *)(s))[g_mm_d])))
#ifndef REPLAY
void *igris_memmem(const void *l, size_t l_len, const void *s, size_t s_len)
__CPROVER_requires((l_len == 0 || __CPROVER_r_ok(l, l_len)) && (s_len == 0 || __CPROVER_r_ok(s, s_len)))
__CPROVER_assigns(g_mm_d)
__CPROVER_ensures(C19_MEMMEM_POST(__CPROVER_return_value, l, l_len, s, s_len));
#endif

#endif
