/* C01 — function contracts (CBMC contract syntax) for the loop-free C list primitives of
 * igris/datastruct/{dlist,slist,hlist}.h.  Each is enforced against the real body by the unit
 * units/C01/ct_<function>.c (`--dfcc harness --enforce-contract f`), so a caller may use
 * `'replace': ['dlist_add_prev', ...]` after including this header.
 *
 * Shape of every contract: the nodes the operation touches are fresh objects or alias one another in
 * one of the ways a ring admits (disjunctions: empty head / single-element ring next==prev==self,
 * prev==next parameters); pointers leaving this footprint are left unconstrained, so an access
 * outside it fails a pointer obligation; `assigns` lists exactly the link fields written.
 * The richer statements (third-party preservation, the 4-5 pointer operations dlist_move,
 * dlist_move_tail, dlist_insert_instead) are in harness form: units/C01/dl_*.c over spec/c01_pool.h. */
#ifndef C01_LIST_CONTRACTS_H
#define C01_LIST_CONTRACTS_H
#include <stdbool.h>
#include "c01_dprint_stub.h"
#include <igris/datastruct/dlist.h>
#include <igris/datastruct/slist.h>
#include <igris/datastruct/hlist.h>

#define C01_FRESH(p) __CPROVER_is_fresh((p), sizeof(*(p)))

/* ---------------------------------------------------------------- dlist */
static inline void dlist_init(struct dlist_head *head)
__CPROVER_requires(C01_FRESH(head))
__CPROVER_assigns(head->next, head->prev)
__CPROVER_ensures(head->next == head && head->prev == head);

static inline int dlist_empty(const struct dlist_head *head)
__CPROVER_requires(C01_FRESH(head))
__CPROVER_assigns()
__CPROVER_ensures((__CPROVER_return_value != 0) == (head->next == head));

static inline int dlist_is_linked(struct dlist_head *head)
__CPROVER_requires(C01_FRESH(head))
__CPROVER_assigns()
__CPROVER_ensures((__CPROVER_return_value != 0) == (head->next != head));

/* prev and next are two nodes (one node for an empty head); lnk is a third one */
static inline void __dlist_add(struct dlist_head *lnk, struct dlist_head *next, struct dlist_head *prev)
__CPROVER_requires(C01_FRESH(lnk))
__CPROVER_requires(C01_FRESH(prev) && (next == prev || C01_FRESH(next)))
__CPROVER_assigns(lnk->next, lnk->prev, next->prev, prev->next)
__CPROVER_ensures(prev->next == lnk && lnk->prev == prev && lnk->next == next && next->prev == lnk);

static inline void __dlist_del(struct dlist_head *prev, struct dlist_head *next)
__CPROVER_requires(C01_FRESH(prev) && (next == prev || C01_FRESH(next)))
__CPROVER_assigns(next->prev, prev->next)
__CPROVER_ensures(prev->next == next && next->prev == prev);

/* head->next is head itself (empty) or another node whose prev points back (LINKED(head), next half) */
static inline void dlist_add_next(struct dlist_head *lnk, struct dlist_head *head)
__CPROVER_requires(C01_FRESH(lnk) && C01_FRESH(head))
__CPROVER_requires(head->next == head || C01_FRESH(head->next))
__CPROVER_requires(head->next->prev == head)
__CPROVER_assigns(lnk->next, lnk->prev, head->next, head->next->prev)
__CPROVER_ensures(head->next == lnk && lnk->prev == head)
__CPROVER_ensures(lnk->next == __CPROVER_old(head->next) && __CPROVER_old(head->next)->prev == lnk);

static inline void dlist_add_prev(struct dlist_head *lnk, struct dlist_head *head)
__CPROVER_requires(C01_FRESH(lnk) && C01_FRESH(head))
__CPROVER_requires(head->prev == head || C01_FRESH(head->prev))
__CPROVER_requires(head->prev->next == head)
__CPROVER_assigns(lnk->next, lnk->prev, head->prev, head->prev->next)
__CPROVER_ensures(head->prev == lnk && lnk->next == head)
__CPROVER_ensures(lnk->prev == __CPROVER_old(head->prev) && __CPROVER_old(head->prev)->next == lnk);

/* LINKED(entry); ring of one (prev==next==entry) or of three and more (P, N distinct nodes).
 * The two-element ring (entry->next == entry->prev) cannot be given in contract form: cbmc's symbolic
 * dereferencing does not follow an *assumed* equality between two pointer fields (the write through
 * entry->next lands in a dummy object and the proof fails spuriously; equalities with a parameter such
 * as head->next == head are followed).  That case, like every other aliasing pattern, is covered by the
 * pool-form units dl_del / dl_del_init where aliasing is established by assignment. */
#define C01_DL_ENTRY_LINKED(entry)                                                                   \
    __CPROVER_requires(C01_FRESH(entry))                                                             \
    __CPROVER_requires(entry->prev == entry || C01_FRESH(entry->prev))                               \
    __CPROVER_requires(entry->next == entry || C01_FRESH(entry->next))                               \
    __CPROVER_requires(entry->prev->next == entry && entry->next->prev == entry)

static inline void dlist_del(struct dlist_head *entry)
C01_DL_ENTRY_LINKED(entry)
__CPROVER_assigns(entry->next, entry->prev, entry->prev->next, entry->next->prev)
__CPROVER_ensures(entry->next == DLIST_POISON1 && entry->prev == DLIST_POISON2)
__CPROVER_ensures(__CPROVER_old(entry->prev) == entry ||
                  (__CPROVER_old(entry->prev)->next == __CPROVER_old(entry->next) &&
                   __CPROVER_old(entry->next)->prev == __CPROVER_old(entry->prev)));

static inline void dlist_del_init(struct dlist_head *entry)
C01_DL_ENTRY_LINKED(entry)
__CPROVER_assigns(entry->next, entry->prev, entry->prev->next, entry->next->prev)
__CPROVER_ensures(entry->next == entry && entry->prev == entry)
__CPROVER_ensures(__CPROVER_old(entry->prev) == entry ||
                  (__CPROVER_old(entry->prev)->next == __CPROVER_old(entry->next) &&
                   __CPROVER_old(entry->next)->prev == __CPROVER_old(entry->prev)));

/* ---------------------------------------------------------------- slist */
static inline void slist_init(struct slist_head *head)
__CPROVER_requires(C01_FRESH(head))
__CPROVER_assigns(head->next)
__CPROVER_ensures(head->next == head);

static inline int slist_empty(struct slist_head *head)
__CPROVER_requires(C01_FRESH(head))
__CPROVER_assigns()
__CPROVER_ensures((__CPROVER_return_value != 0) == (head->next == head));

static inline void slist_add(struct slist_head *link, struct slist_head *head)
__CPROVER_requires(C01_FRESH(link) && C01_FRESH(head))
__CPROVER_assigns(link->next, head->next)
__CPROVER_ensures(head->next == link && link->next == __CPROVER_old(head->next));

static inline struct slist_head *slist_pop_first(struct slist_head *head)
__CPROVER_requires(C01_FRESH(head))
__CPROVER_requires(head->next == head || C01_FRESH(head->next))
__CPROVER_assigns(head->next)
__CPROVER_ensures(__CPROVER_old(head->next) == head
                      ? (__CPROVER_return_value == NULL && head->next == head)
                      : (__CPROVER_return_value == __CPROVER_old(head->next) &&
                         head->next == __CPROVER_old(head->next->next) &&
                         __CPROVER_return_value->next == __CPROVER_old(head->next->next)));

/* ---------------------------------------------------------------- hlist */
static inline struct hlist_head *hlist_head_init(struct hlist_head *list)
__CPROVER_requires(C01_FRESH(list))
__CPROVER_assigns(list->first)
__CPROVER_ensures(list->first == 0 && __CPROVER_return_value == list);

static inline struct hlist_node *hlist_node_init(struct hlist_node *node)
__CPROVER_requires(C01_FRESH(node))
__CPROVER_assigns(node->pprev)
__CPROVER_ensures(node->pprev == 0 && __CPROVER_return_value == node);

/* hnext is a slot (&head->first or &m->next) holding NULL or a node that points back at the slot */
static inline void hlist_add_next(struct hlist_node *list, struct hlist_node **hnext)
__CPROVER_requires(C01_FRESH(list) && C01_FRESH(hnext))
__CPROVER_requires(*hnext == 0 || C01_FRESH(*hnext))
__CPROVER_requires(*hnext == 0 || (*hnext)->pprev == hnext)
__CPROVER_assigns(list->next, list->pprev, *hnext)
__CPROVER_assigns(*hnext != 0 : (*hnext)->pprev)
__CPROVER_ensures(*hnext == list && list->pprev == hnext && list->next == __CPROVER_old(*hnext))
__CPROVER_ensures(list->next == 0 || list->next->pprev == &list->next);

/* unlinked (pprev == NULL): no effect; linked: invariant at the node */
static inline void hlist_del(struct hlist_node *list)
__CPROVER_requires(C01_FRESH(list))
__CPROVER_requires(list->pprev == 0 || C01_FRESH(list->pprev))
__CPROVER_requires(list->pprev == 0 || list->next == 0 || C01_FRESH(list->next))
__CPROVER_requires(list->pprev == 0 || (*list->pprev == list && (list->next == 0 || list->next->pprev == &list->next)))
__CPROVER_assigns(list->pprev != 0 : *list->pprev)
__CPROVER_assigns(list->pprev != 0 && list->next != 0 : list->next->pprev)
__CPROVER_ensures(list->pprev == __CPROVER_old(list->pprev) && list->next == __CPROVER_old(list->next))
__CPROVER_ensures(list->pprev == 0 || *list->pprev == list->next)
__CPROVER_ensures(list->pprev == 0 || list->next == 0 || list->next->pprev == list->pprev);

#endif
