/* C06, unit parser: CHECKING contracts of print_i / print_s / print_f.  The reference parser (ghost code at the
 * top of every iteration of __printf's directive loop) has already decided what the next output event must be
 * (g_x_*, see units/C06/parser.c); a conversion routine may be called only with exactly those arguments -- the
 * `requires` clause, which --replace-call-with-contract turns into an assertion at the call site in __printf.
 * It also carries the call-site preconditions the print_i / print_s proofs assume (C06_PRINT_I_PRE ...).
 * The call counts as one event and returns an arbitrary count 0..C06_MAXRET that is added to g_sum.
 * Include after c06_print_contracts.h is NOT needed/allowed: this header replaces it (same helper macros). */
#ifndef C06_CHECK_CONTRACTS_H
#define C06_CHECK_CONTRACTS_H
#define C06_OPS_LEFT 0x01u
#define C06_OPS_SIGN 0x02u
#define C06_OPS_SPACE 0x04u
#define C06_OPS_SPEC 0x08u
#define C06_OPS_ZERO 0x10u
#define C06_OPS_PREC 0x20u
#define C06_OPS_UPPER 0x4000u
#define C06_OPS_FMT_MASK (C06_OPS_LEFT | C06_OPS_SIGN | C06_OPS_SPACE | C06_OPS_SPEC | C06_OPS_ZERO | C06_OPS_PREC | C06_OPS_UPPER)
#define C06_MAXRET (INT_MAX / 32)

/* all ghost state of the parser unit lives in ONE object, so that the loop contract of the directive loop names a
 * single assigns target for it (dfcc's write-set checks cost time per target) */
struct c06_pstate
{
    long long ev;   /* output events so far (code side) */
    long long sum;  /* sum of the values returned by the replaced conversions */
    long long nlit; /* literal characters handed to the callback */
    /* the event the reference parser expects next */
    int x_kind;            /* REF_EV_CHAR / REF_EV_INT / REF_EV_STR */
    int x_c;               /* CHAR */
    unsigned long long x_u;/* INT: converted argument; STR/s: the pointer slot */
    int x_signed, x_base, x_width, x_prec, x_conv;
    unsigned x_ops;        /* flags | precision-given | upper-case, as OPS bits */
    int ai;                /* argument slots consumed so far */
    const char *next;      /* where the next token starts according to the reference parser */
} g_p;
#define g_ev g_p.ev
#define g_sum g_p.sum
#define g_nlit g_p.nlit
#define g_x_kind g_p.x_kind
#define g_x_c g_p.x_c
#define g_x_u g_p.x_u
#define g_x_signed g_p.x_signed
#define g_x_base g_p.x_base
#define g_x_width g_p.x_width
#define g_x_prec g_p.x_prec
#define g_x_conv g_p.x_conv
#define g_x_ops g_p.x_ops
#define g_ai g_p.ai
#define g_next g_p.next
void (*g_x_h)(void *, int); /* callback and data given to __printf (constant during the call) */
void *g_x_d;

extern int g_c06_p_minlen;               /* form of the %p call: precision, flag bits forced on / off; */
extern unsigned g_c06_p_set, g_c06_p_clr; /* defined by spec/c06_pform.h (included after printf_impl.c) */
#define C06_WP_PRE(width, prec, ops) ((width) >= 0 && (prec) >= 0 && (((ops) & C06_OPS_PREC) || (prec) == 0))
#define C06_PRINT_I_PRE(u, is_signed, width, min_len, ops, base)                                              \
    ((width) >= 0 &&                                                                                          \
     (((base) == 16 && (is_signed) == 0 && (min_len) == g_c06_p_minlen &&                       \
       ((ops) & g_c06_p_set) == g_c06_p_set && ((ops) & g_c06_p_clr) == 0 && (u) == (size_t)(u)) ||     \
      (C06_WP_PRE(width, min_len, ops) &&                                                                     \
       (((base) == 10 && ((is_signed) == 0 || (is_signed) == 1)) || (((base) == 8 || (base) == 16) && (is_signed) == 0)) && \
       (!((ops) & C06_OPS_UPPER) || ((base) == 16 && (is_signed) == 0)))))
#define C06_COUNTED                                                                                          \
    (g_ev == __CPROVER_old(g_ev) + 1 && __CPROVER_return_value >= 0 && __CPROVER_return_value <= C06_MAXRET && \
     g_sum == __CPROVER_old(g_sum) + __CPROVER_return_value)

/* "this call is the expected integer conversion": value converted per length modifier and taken from the right
 * slot, base / signedness of the conversion letter, width and precision as written, flag bits as written
 * (%p: fixed precision, '#' and '0' forced on top of the written flags) */
#define C06_IS_EXPECTED_INT(u, is_signed, width, min_len, ops, base)                                         \
    (g_x_kind == REF_EV_INT && (u) == g_x_u && (is_signed) == g_x_signed && (base) == g_x_base && (width) == g_x_width && \
     (g_x_conv == 'p'                                                                                        \
          ? ((min_len) == g_c06_p_minlen &&                                                    \
             ((ops) & (C06_OPS_FMT_MASK & ~C06_OPS_PREC)) == (((g_x_ops | g_c06_p_set) & ~g_c06_p_clr) & ~C06_OPS_PREC)) \
          : ((min_len) == g_x_prec && ((ops) & C06_OPS_FMT_MASK) == g_x_ops)))
#define C06_IS_EXPECTED_STR(str, width, max_len, ops)                                                        \
    (g_x_kind == REF_EV_STR && (width) == g_x_width && (max_len) == g_x_prec && ((ops) & C06_OPS_FMT_MASK) == g_x_ops && \
     (g_x_conv != 's' || g_x_u == 0 || (str) == (const char *)g_x_u))

#ifdef C06_EXTERN_CALLEES
#define C06_STATIC
#else
#define C06_STATIC static
#endif
C06_STATIC int print_i(void (*printchar_handler)(void *d, int c), void *printchar_data, unsigned long long int u,
                   int is_signed, int width, int min_len, unsigned int ops, int base)
__CPROVER_requires(C06_IS_EXPECTED_INT(u, is_signed, width, min_len, ops, base))
__CPROVER_requires(printchar_handler == g_x_h && printchar_data == g_x_d)
__CPROVER_requires(C06_PRINT_I_PRE(u, is_signed, width, min_len, ops, base))
__CPROVER_assigns(g_ev, g_sum)
__CPROVER_ensures(C06_COUNTED);

C06_STATIC int print_s(void (*printchar_handler)(void *d, int c), void *printchar_data, const char *str, int width,
                   int max_len, unsigned int ops)
__CPROVER_requires(C06_IS_EXPECTED_STR(str, width, max_len, ops))
__CPROVER_requires(printchar_handler == g_x_h && printchar_data == g_x_d)
__CPROVER_requires(C06_WP_PRE(width, max_len, ops) && str != NULL)
__CPROVER_assigns(g_ev, g_sum)
__CPROVER_ensures(C06_COUNTED);

/* floating conversions are not part of C06 (valid formats of the property never reach them) */
C06_STATIC int print_f(void (*printchar_handler)(void *d, int c), void *printchar_data, long double r, int width,
                   int precision, unsigned int ops, int base, int with_exp, int is_shortened)
__CPROVER_requires(0)
__CPROVER_assigns(g_ev, g_sum)
__CPROVER_ensures(C06_COUNTED);

/* the real callback: a literal character must be the expected one */
static void c06_check_recorder(void *d, int c)
{
    __CPROVER_assert(g_x_kind == REF_EV_CHAR && (unsigned char)c == (unsigned char)g_x_c && d == g_x_d,
                     "literal output: the character handed to the callback is the ordinary character (or the % of %%) the reference parser expects here");
    g_ev++;
    g_nlit++;
}
#endif
