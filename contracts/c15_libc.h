/* C15: contracts of the host-libc functions the line editor calls besides memmove/memcpy (those two come
 * from libc_contracts.h, which this header includes), for --replace-call-with-contract.  Transcriptions of
 * ISO C 7.24 (7.24.6.1 memset, 7.24.6.3 strlen, 7.24.4.4 strncmp); the same clauses are proved for the bundled
 * shim compat/libc/string by the C08 units, on a hosted build the callee is the host libc (trusted).
 *
 * No forall/exists is available (DESIGN 3.3), so
 *   "for all i"  is stated about ONE arbitrary ghost index g_<fn>_k which the caller's harness fixes before the
 *                call (normally as its own ghost index); sound because the clause holds for every value of it.
 *   a *claim* of the caller that is itself universally quantified ("L is the length of s: no NUL before L",
 *                "b has no NUL in its first n bytes") is a ghost INPUT whose defining clause is a precondition
 *                stated at the ghost index.  A precondition is an obligation of the caller: a unit that calls the
 *                function only verifies if the clause holds at every value of the ghost index its harness leaves
 *                free, i.e. if the claim is true; for a true claim the postcondition is what ISO says.  The claim
 *                itself must not depend on the ghost index (the harnesses take it from a WIT input).
 *   "exists i"   in a postcondition is a ghost OUTPUT (the contract assigns it).
 * __CPROVER_old cannot wrap a conditional, so old bytes travel in a ghost value (libc_contracts.h).
 * Native replay (REPLAY) uses the host functions themselves; the clauses are defined away there.
 */
#ifndef C15_LIBC_H
#define C15_LIBC_H
#include <stddef.h>
#include <string.h>
#include "libc_contracts.h"

#define C15_MAXLEN ((size_t)1 << 40)
#define C15_UC(p, i) (((const unsigned char *)(p))[(i)])
#define C15_CH(p, i) (((const char *)(p))[(i)])

/* ------------------------------------------------------------------ memset (ISO 7.24.6.1) */
size_t g_memset_k; /* in: ghost index */
void *memset(void *s, int c, size_t n)
__CPROVER_requires(n == 0 || __CPROVER_w_ok(s, n))
__CPROVER_assigns(n != 0: __CPROVER_object_upto(s, n))
__CPROVER_ensures(__CPROVER_return_value == s)
__CPROVER_ensures(g_memset_k < n ==> C15_UC(s, g_memset_k) == (unsigned char)c);

/* ------------------------------------------------------------------ strlen (ISO 7.24.6.3)
 * The caller names the length: g_strlen_L with s[L] == 0 and (at the ghost index) no NUL before L.
 * A second (string, length) pair serves a second, different string looked at on the same path
 * (the terminal's prompt next to a history entry). */
size_t g_strlen_L;       /* in: claimed length of s */
size_t g_strlen_k;       /* in: ghost index of the claim "no NUL before L" */
const char *g_strlen_s2; /* in: a second string ... */
size_t g_strlen_L2;      /* in: ... and its claimed length (ghost index g_strlen_k as well) */
#define C15_IS_STRLEN(s, L)                                                                            \
    ((L) < C15_MAXLEN && __CPROVER_r_ok((s), (L) + 1) && C15_CH(s, L) == 0 &&                          \
     (g_strlen_k < (L) ==> C15_CH(s, g_strlen_k) != 0))
size_t strlen(const char *s)
__CPROVER_requires(s == g_strlen_s2 ? C15_IS_STRLEN(s, g_strlen_L2) : C15_IS_STRLEN(s, g_strlen_L))
__CPROVER_assigns()
__CPROVER_ensures(__CPROVER_return_value == (s == g_strlen_s2 ? g_strlen_L2 : g_strlen_L));

/* ------------------------------------------------------------------ strncmp (ISO 7.24.4.4)
 * Precondition stronger than ISO's: both blocks readable over all n bytes (what sline_equal establishes:
 * n == line length < cap on one side, n == strlen on the other).  Characters after a NUL are not compared, so
 * "result 0 => the first n bytes agree" needs one side free of NULs: that is the caller's claim g_strncmp_nz
 * about b, stated at the ghost index.  Without the claim (g_strncmp_nz == 0) a zero result promises nothing. */
size_t g_strncmp_k; /* in: ghost index */
int g_strncmp_nz;   /* in: caller claims b[0..n) holds no NUL */
size_t g_strncmp_d; /* out: index of the first differing pair when the result is not 0 */
int strncmp(const char *a, const char *b, size_t n)
__CPROVER_requires(n == 0 || (__CPROVER_r_ok(a, n) && __CPROVER_r_ok(b, n)))
__CPROVER_requires((g_strncmp_nz && g_strncmp_k < n) ==> C15_CH(b, g_strncmp_k) != 0)
__CPROVER_assigns(g_strncmp_d)
__CPROVER_ensures((__CPROVER_return_value == 0 && g_strncmp_nz && g_strncmp_k < n) ==>
                  C15_CH(a, g_strncmp_k) == C15_CH(b, g_strncmp_k))
__CPROVER_ensures(__CPROVER_return_value != 0 ==>
                  (g_strncmp_d < n && C15_UC(a, g_strncmp_d) != C15_UC(b, g_strncmp_d) &&
                   (__CPROVER_return_value < 0) == (C15_UC(a, g_strncmp_d) < C15_UC(b, g_strncmp_d))));

#endif
