/* C19: strchr as igris::split(buffer, const char *delims) uses it: only `strchr(delims, c) != NULL` matters.
 * ISO C 7.24.5.2: the result is non-NULL iff c (converted to char) occurs in the string, the terminating NUL being part of the string.
 * "c occurs in delims" is an existential statement; the tokeniser property only needs that it is one fixed set of characters, so the
 * set is an abstract table chosen by the harness (any table with g_isdelim[0] != 0 is the set of some string, and every string has
 * such a table): the contract says that strchr answers membership in that table. */
#ifndef C19_CXX_CONTRACTS_H
#define C19_CXX_CONTRACTS_H
#include "c19_libc.h"
unsigned char g_isdelim[256]; /* in: g_isdelim[c] != 0 <=> strchr(delims, c) != NULL;  g_isdelim[0] != 0 (ISO: the terminator is found) */
#define C19_ISDELIM(c) (g_isdelim[(unsigned char)(c)] != 0)
#ifndef REPLAY
char *strchr(const char *s, int c)
__CPROVER_requires(C19_CSTR(s))
__CPROVER_assigns()
__CPROVER_ensures((__CPROVER_return_value != NULL) == C19_ISDELIM((char)c))
__CPROVER_ensures(__CPROVER_return_value != NULL ==> __CPROVER_same_object(__CPROVER_return_value, s));
#endif
#endif
