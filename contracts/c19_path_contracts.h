/* C19: contracts of path_compare_node and path_iterate (igris/util/pathops.h), used by the path_remove_prefix unit through
 * --replace-call-with-contract (the *_LIGHT clauses: the full clauses make the caller's formula too large for the back end).  One clause text, two uses (as in contracts/c08_string.h): the POST macros below are what the
 * harness-form units path_compare_node.c / path_iterate.c PROVE for the real code, for strings that start at an arbitrary offset
 * of their object (path_remove_prefix calls both helpers with advanced pointers), and what callers get from the contract.
 *
 * "p is a string": the object p points into ends at a NUL (followed by g_path_spare readable bytes while the finding
 * C19_path_single_dot_overread is carved out); earlier NULs are allowed.  Offsets are absolute offsets in that object.
 */
#ifndef C19_PATH_CONTRACTS_H
#define C19_PATH_CONTRACTS_H
#include "c19_path.h"

size_t g_path_spare; /* in: readable bytes behind the terminator (0, or 1 while the over-read finding is carved out) */

#ifdef REPLAY
/* native replay: the harness registers its string objects, offsets are looked up */
static const char *c19_obj[8];
static size_t c19_objsize[8];
static int c19_nobj;
static int c19_find(const void *p)
{
    for (int i = 0; i < c19_nobj; i++)
        if ((const char *)p >= c19_obj[i] && (const char *)p <= c19_obj[i] + c19_objsize[i])
            return i;
    return 0;
}
#define C19_REGISTER(base, size) (c19_obj[c19_nobj] = (base), c19_objsize[c19_nobj] = (size), c19_nobj++)
#define C19_POFF(p) ((size_t)((const char *)(p) - c19_obj[c19_find(p)]))
#define C19_PTERM(p) (c19_objsize[c19_find(p)] - 1 - g_path_spare)
#define C19_PBASE(p) (c19_obj[c19_find(p)])
#else
#define C19_REGISTER(base, size) ((void)0)
#define C19_POFF(p) ((size_t)__CPROVER_POINTER_OFFSET(p))
/* absolute offset of the terminator of the string p points into */
#define C19_PTERM(p) ((size_t)__CPROVER_OBJECT_SIZE(p) - 1 - g_path_spare)
#define C19_PBASE(p) ((const char *)(p) - C19_POFF(p))
#endif
/* a path string that starts at offset `off` of its object: the front slack makes p an interior pointer */
#define C19_PSTRING(p, off, L, content, spare)                          \
    __CPROVER_assume((off) <= VC_MAXOBJ && (L) < VC_MAXOBJ);            \
    char *p##_base = NEW_OBJ((off) + (L) + 1 + (spare));                \
    FILL(p##_base, (size_t)(off) + (L) + 1 + (spare), content);         \
    C19_REGISTER(p##_base, (size_t)(off) + (L) + 1 + (spare));          \
    char *p = p##_base + (off);                                         \
    __CPROVER_assume(p[L] == 0)
#ifndef REPLAY
#define C19_PSTR(p)                                                                                         \
    ((p) != NULL && __CPROVER_OBJECT_SIZE(p) >= 1 + g_path_spare && C19_POFF(p) <= C19_PTERM(p) &&          \
     __CPROVER_r_ok((p), __CPROVER_OBJECT_SIZE(p) - C19_POFF(p)) && C19_PBASE(p)[C19_PTERM(p)] == 0)
#endif

/* ---------------------------------------------------------------- path_compare_node */
size_t g_cmp_k; /* in: ghost index relative to the node starts */
size_t g_cmp_i; /* out: index (relative to a and b) at which the comparison stopped */
#define C19_CMP_POST(r, a, b)                                                                               \
    (C19_POFF(a) + g_cmp_i <= C19_PTERM(a) && C19_POFF(b) + g_cmp_i <= C19_PTERM(b) &&                      \
     C19_IMP(g_cmp_k < g_cmp_i, (a)[g_cmp_k] == (b)[g_cmp_k] && !C19_PEND((a)[g_cmp_k])) &&                 \
     (C19_PEND((a)[g_cmp_i]) ? (r) == (C19_PEND((b)[g_cmp_i]) ? 0 : -1)                                     \
      : C19_PEND((b)[g_cmp_i]) ? (r) == 1                                                                   \
                               : ((a)[g_cmp_i] != (b)[g_cmp_i] && (r) == ((a)[g_cmp_i] < (b)[g_cmp_i] ? -1 : 1))))
/* what path_remove_prefix needs of it (a consequence of C19_CMP_POST; asserted next to it by the unit path_compare_node):
 * equal nodes are both empty or both non-empty */
#define C19_CMP_POST_LIGHT(r, a, b)                                                                         \
    (((r) == -1 || (r) == 0 || (r) == 1) && C19_IMP((r) == 0, C19_PEND((a)[0]) == C19_PEND((b)[0])))
#ifndef REPLAY
static inline int path_compare_node(const char *a, const char *b)
__CPROVER_requires(C19_PSTR(a) && C19_PSTR(b))
__CPROVER_assigns()
__CPROVER_ensures(C19_CMP_POST_LIGHT(__CPROVER_return_value, a, b));
#endif

/* ---------------------------------------------------------------- path_iterate */
size_t g_it_k;   /* in: ghost index, absolute offset in the object of path */
size_t g_it_mid; /* out: absolute offset of the end of the node that is left (a leading slash is a node of length 0) */
#define C19_IT_POST(r, p)                                                                                   \
    ((p) == NULL ? (r) == NULL : (p)[0] == 0 ? (r) == NULL :                                                \
     ((r) != NULL && __CPROVER_same_object((r), (p)) && C19_POFF(p) < C19_POFF(r) && C19_POFF(r) <= C19_PTERM(p) && \
      C19_POFF(p) <= g_it_mid && g_it_mid <= C19_POFF(r) && ((p)[0] == '/' ? g_it_mid == C19_POFF(p) : g_it_mid > C19_POFF(p)) && \
      C19_IMP(C19_POFF(p) <= g_it_k && g_it_k < g_it_mid, !C19_PEND(C19_PBASE(p)[g_it_k])) &&                \
      C19_PEND(C19_PBASE(p)[g_it_mid]) &&                                                                   \
      C19_IMP(g_it_mid <= g_it_k && g_it_k < C19_POFF(r), C19_PSKIP(C19_PBASE(p), g_it_k)) &&               \
      !C19_PSKIP((r), 0)))
/* what path_remove_prefix needs of it (conjuncts of C19_IT_POST; asserted next to it by the unit path_iterate):
 * NULL exactly for a NULL / empty path, otherwise strict progress inside the string, never stopping on a slash */
#define C19_IT_POST_LIGHT(r, p)                                                                             \
    ((p) == NULL ? (r) == NULL : (p)[0] == 0 ? (r) == NULL :                                                \
     ((r) != NULL && __CPROVER_same_object((r), (p)) && C19_POFF(p) < C19_POFF(r) && C19_POFF(r) <= C19_PTERM(p) && \
      (r)[0] != '/'))
#ifndef REPLAY
static inline const char *path_iterate(const char *path)
__CPROVER_requires(path == NULL || C19_PSTR(path))
__CPROVER_assigns()
/* old(): the caller assigns the result to the very variable it passes (path = path_iterate(path)) */
__CPROVER_ensures(C19_IT_POST_LIGHT(__CPROVER_return_value, __CPROVER_old(path)));
#endif

#endif
