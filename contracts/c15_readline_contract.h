/* C15: contracts of readline_putchar and vt100_left as the terminal automaton (vterm.c) needs them.
 *
 * One clause text, two uses (as contracts/c08_string.h):
 *   - units readline_putchar_rl / vt100_left PROVE the clauses in harness form: the most general state satisfying
 *     C15_RP_PRE / C15_VT_PRE is built, the REAL function is called, C15_RP_POST / C15_VT_POST is asserted;
 *   - the function contracts below use the very same macros; unit vterm_newdata replaces the two callees by them.
 *
 * C15_RP_* is the part of RL(rl) (DESIGN C15) that is a safety invariant, for EVERY byte and EVERY RL state, known
 * findings included (they do not break it): what the key does to the line *content* is the subject of the
 * refinement unit readline_putchar, not of this contract.
 *
 * Quantifiers (DESIGN 3.3): "the entry the key consults holds a string" is the caller's claim g_rp_Lq (its length,
 * no NUL before it stated at the ghost index g_rp_k, see contracts/c15_libc.h for why a universally quantified
 * claim may be a ghost input).
 */
#ifndef C15_READLINE_CONTRACT_H
#define C15_READLINE_CONTRACT_H
#include <stddef.h>
#include <stdint.h>
#include <igris/shell/readline.h>
#include <igris/defs/vt100.h>

size_t g_rp_Lq; /* in: length of the history entry this key consults (if it consults one) */
size_t g_rp_k;  /* in: ghost index */

#define C15_EOL(c) ((c) == '\r' || (c) == '\n')
/* n-th last history slot, as an index */
#define C15_RP_SLOT(rl, n) (((rl)->headhist + (rl)->history_size - (n)) % (rl)->history_size)
/* the history slot readline_putchar(rl, c) reads, -1 if none (mirror of spec_ed_consults over the real fields;
 * the proving unit asserts that the two agree) */
#define C15_RP_Q(rl, c)                                                                                          \
    ((rl)->history_space == NULL ? -1                                                                            \
     : ((rl)->state == 0 && C15_EOL(c) && !(C15_EOL((rl)->last) && (rl)->last != (c)) && (rl)->line.len != 0)    \
         ? (int)C15_RP_SLOT(rl, 1)                                                                               \
     : ((rl)->state == 2 && (c) == 'A' && (rl)->curhist < (rl)->history_size) ? (int)C15_RP_SLOT(rl, (rl)->curhist + 1) \
     : ((rl)->state == 2 && (c) == 'B' && (rl)->curhist > 1) ? (int)C15_RP_SLOT(rl, (rl)->curhist - 1)          \
                                                              : -1)
#define C15_RP_QPTR(rl, c) ((rl)->history_space + (size_t)C15_RP_Q(rl, c) * (rl)->line.cap)

/* RL(rl) without the content part */
#define C15_RL_SHAPE(rl)                                                                                         \
    ((rl)->line.cap >= 2 && (rl)->line.cap <= 0x7fffffffu && (rl)->line.cursor <= (rl)->line.len &&              \
     (rl)->line.len <= (rl)->line.cap - 1 && (rl)->state >= 0 && (rl)->state <= 3 &&                             \
     ((rl)->history_space == NULL ||                                                                             \
      ((rl)->history_size >= 1 && (rl)->headhist < (rl)->history_size && (rl)->curhist <= (rl)->history_size &&  \
       (unsigned long long)(rl)->line.cap * (rl)->history_size <= 0xffffffffull)))
#define C15_RL_MEM(rl)                                                                                           \
    (__CPROVER_rw_ok((rl)->line.buf, (rl)->line.cap) &&                                                          \
     ((rl)->history_space == NULL || __CPROVER_rw_ok((rl)->history_space, (size_t)(rl)->line.cap * (rl)->history_size)))
#define C15_RP_QCLAIM(rl, c)                                                                                     \
    (C15_RP_Q(rl, c) < 0 ||                                                                                      \
     (g_rp_Lq < (rl)->line.cap && C15_RP_QPTR(rl, c)[g_rp_Lq] == 0 &&                                            \
      (!(g_rp_k < g_rp_Lq) || C15_RP_QPTR(rl, c)[g_rp_k] != 0)))

#define C15_RP_PRE(rl, c) (C15_RL_SHAPE(rl) && C15_RL_MEM(rl) && C15_RP_QCLAIM(rl, c))

#define C15_RP_RETCODE(r)                                                                                        \
    ((r) == READLINE_NOTHING || (r) == READLINE_ECHOCHAR || (r) == READLINE_NEWLINE || (r) == READLINE_BACKSPACE || \
     (r) == READLINE_DELETE || (r) == READLINE_UPDATELINE || (r) == READLINE_LEFT || (r) == READLINE_RIGHT)
/* o_*: values before the call */
#define C15_RP_POST(r, rl, o_buf, o_cap, o_len, o_cursor, o_hist, o_hsize)                                       \
    (C15_RP_RETCODE(r) && (rl)->line.buf == (o_buf) && (rl)->line.cap == (o_cap) &&                              \
     (rl)->history_space == (o_hist) && (rl)->history_size == (o_hsize) && C15_RL_SHAPE(rl) &&                   \
     ((r) != READLINE_UPDATELINE || (rl)->lastsize == (int)(o_len)) &&                                           \
     (((r) != READLINE_NEWLINE && (r) != READLINE_LEFT && (r) != READLINE_RIGHT && (r) != READLINE_NOTHING) ||   \
      (rl)->line.len == (o_len)) &&                                                                              \
     ((r) != READLINE_LEFT || (rl)->line.cursor + 1 == (o_cursor)) &&                                            \
     ((r) != READLINE_RIGHT || (rl)->line.cursor == (o_cursor) + 1) &&                                           \
     ((r) != READLINE_NEWLINE || (rl)->line.cursor == (o_cursor)))

static inline int readline_putchar(struct readline *rl, char c)
__CPROVER_requires(__CPROVER_rw_ok(rl, sizeof(*rl)) && C15_RP_PRE(rl, c))
__CPROVER_assigns(rl->line.len, rl->line.cursor, rl->state, rl->last, rl->lastsize, rl->headhist, rl->curhist)
__CPROVER_assigns(__CPROVER_object_whole(rl->line.buf))
__CPROVER_assigns(rl->history_space != NULL: __CPROVER_object_whole(rl->history_space))
__CPROVER_ensures(C15_RP_POST(__CPROVER_return_value, rl, __CPROVER_old(rl->line.buf), __CPROVER_old(rl->line.cap),
                              __CPROVER_old(rl->line.len), __CPROVER_old(rl->line.cursor),
                              __CPROVER_old(rl->history_space), __CPROVER_old(rl->history_size)));

/* ------------------------------------------------------------------ vt100_left: "ESC [ <decimal arg> D" + NUL
 * fits 16 bytes for every 32-bit argument (longest: ESC [ -2147483648 D NUL = 15 bytes) */
#define C15_VT_POST(r, buf)                                                                                      \
    ((r) >= 4 && (r) <= 14 && (buf)[0] == '\x1B' && (buf)[1] == '[' && (buf)[(r) - 1] == 'D' && (buf)[(r)] == 0)
static inline int vt100_left(char *buf, int arg)
__CPROVER_requires(__CPROVER_w_ok(buf, 16))
__CPROVER_assigns(__CPROVER_object_upto(buf, 16))
__CPROVER_ensures(C15_VT_POST(__CPROVER_return_value, buf));

#endif
