/* Native stand-ins for the __CPROVER_* vocabulary, used only by `vc replay`:
 * the same unit file that cbmc verified is compiled by clang with ASan/UBSan and
 * run on the witness extracted from the counterexample. */
#ifndef CPROVER_NATIVE_H
#define CPROVER_NATIVE_H
#include <stdio.h>
#include <stdlib.h>
#include <string.h>
#include <stdint.h>
static int vc_fail_count;
static void vc_native_canary(const char *m) { printf("REPLAY: reached end (%s)\n", m); }
static void vc_assume_fail(const char *e, int line)
{
    printf("REPLAY: assumption does not hold at line %d: %s\n", line, e);
    exit(77);
}
static void vc_assert_fail(const char *m, int line)
{
    printf("REPLAY-FAIL: line %d: %s\n", line, m);
    fflush(stdout);
    vc_fail_count++;
}
__attribute__((destructor)) static void vc_fini(void)
{
    fflush(stdout);
    if (vc_fail_count)
        _exit(1);
}
#define __CPROVER_assume(c) do { if (!(c)) vc_assume_fail(#c, __LINE__); } while (0)
#define __CPROVER_assert(c, m) do { if (!(c)) vc_assert_fail(m, __LINE__); } while (0)
static void *vc_alloc(size_t n) { void *p = malloc(n); if (n && !p) abort(); return p; }
#define __CPROVER_allocate(n, z) vc_alloc(n)
#define __CPROVER_requires(...)
#define __CPROVER_ensures(...)
#define __CPROVER_assigns(...)
#define __CPROVER_frees(...)
#define __CPROVER_loop_invariant(...)
#define __CPROVER_decreases(...)
#define __CPROVER_havoc_object(p)
#define __CPROVER_bool _Bool
#define __CPROVER_size_t size_t
#define __CPROVER_same_object(a, b) 1
#define __CPROVER_POINTER_OFFSET(p) 0
#define __CPROVER_OBJECT_SIZE(p) 0
#define __CPROVER_r_ok(p, n) 1
#define __CPROVER_w_ok(p, n) 1
#define __CPROVER_rw_ok(p, n) 1
static inline float vc_f32_bits(uint32_t b) { float f; memcpy(&f, &b, 4); return f; }
static inline double vc_f64_bits(uint64_t b) { double f; memcpy(&f, &b, 8); return f; }
#define VC_F32_BITS(b) vc_f32_bits(b)
#define VC_F64_BITS(b) vc_f64_bits(b)
#define VC_ND(T, n) static T nondet_##n(void) { return (T)0; }
VC_ND(int, int) VC_ND(unsigned, uint) VC_ND(long, long) VC_ND(unsigned long, ulong) VC_ND(long long, llong)
VC_ND(unsigned long long, ullong) VC_ND(char, char) VC_ND(unsigned char, uchar) VC_ND(signed char, schar)
VC_ND(short, short) VC_ND(size_t, size_t) VC_ND(uint8_t, uint8_t) VC_ND(uint16_t, uint16_t) VC_ND(uint32_t, uint32_t)
VC_ND(uint64_t, uint64_t) VC_ND(int8_t, int8_t) VC_ND(int16_t, int16_t) VC_ND(int32_t, int32_t) VC_ND(int64_t, int64_t)
VC_ND(float, float) VC_ND(double, double) VC_ND(_Bool, _Bool)
void harness(void);
int main(void) { harness(); fflush(stdout); return vc_fail_count ? 1 : 0; }
#endif
